//go:build verif

package main

import (
	"encoding/json"
	"fmt"
	"os"
	"os/exec"
	"path/filepath"
	"runtime"
	"sort"
	"strings"
	"sync"
	"sync/atomic"
	"syscall"
	"time"

	"github.com/innovationb1ue/RedisGO/memdb"

	"rgverif/internal/common"
	"rgverif/internal/inproc"
	"rgverif/internal/seqrun"
)

// In-process queue churn for C09. The same conservation oracle as the TCP churn of blockingPhase (every
// acknowledged element is popped exactly once or left in the list), but run inside one process with the stripe-lock
// hook stretching the moment before an exclusive lock is acquired - a place where the scheduler may pre-empt any
// goroutine anyway. Whatever a blocking pop decided before it holds the lock is stale by then: the queue is kept at
// zero to two elements, so that in such a pause it is emptied by somebody else and created again by a producer.

type churnOut struct {
	Rounds    int      `json:"rounds"`
	Pushed    int      `json:"pushed"`
	Popped    int      `json:"popped"`
	Left      int      `json:"left"`
	Lost      int      `json:"lost"`
	Dup       int      `json:"dup"`
	Stretched int64    `json:"stretched_lock_acquisitions"`
	BlockPops int      `json:"elements_taken_by_blocking_pops"`
	Details   []string `json:"details,omitempty"`
	Panics    []string `json:"panics,omitempty"`
}

func churnWorker(o *common.Opts) {
	inproc.Setup(8, 1, filepath.Join(o.Work, "log"))
	out := churnOut{}
	var stretched atomic.Int64
	var state atomic.Uint64
	memdb.VerifLockHook = func(kind string, stripe int) {
		if kind != "lock-begin" {
			return
		}
		x := state.Add(0x9E3779B97F4A7C15)
		x ^= x >> 29
		switch x % 8 {
		case 0, 1:
			stretched.Add(1)
			time.Sleep(time.Duration(200+x%1800) * time.Microsecond)
		case 2, 3:
			runtime.Gosched()
		}
	}
	rounds := o.Pick(2, 24)
	for rd := 0; rd < rounds; rd++ {
		in := inproc.New()
		key := fmt.Sprintf("bq:inproc:%d:%d", o.Seed, rd)
		const producers, plain, blocking = 2, 2, 48
		stopAt := time.Now().Add(1500 * time.Millisecond)
		var mu sync.Mutex
		pushed := 0
		popped := map[string]int{}
		blockTaken := 0
		var wg sync.WaitGroup
		exec := func(args ...string) inproc.Result {
			cmd := make([][]byte, len(args))
			for i, a := range args {
				cmd[i] = []byte(a)
			}
			r := in.Exec(cmd, nil)
			if r.Panic != "" {
				mu.Lock()
				if len(out.Panics) < 3 {
					out.Panics = append(out.Panics, strings.Join(args, " ")+": "+r.Panic)
				}
				mu.Unlock()
			}
			return r
		}
		for p := 0; p < producers; p++ {
			wg.Add(1)
			go func(p int) {
				defer wg.Done()
				n := 0
				for i := 0; time.Now().Before(stopAt); i++ {
					op := "RPUSH"
					if (i+p)%3 == 0 {
						op = "LPUSH"
					}
					if r := exec(op, key, fmt.Sprintf("r%d-p%d-%d", rd, p, i)); r.V.Kind == ':' {
						n++
					}
					time.Sleep(time.Duration(150+(i*37)%400) * time.Microsecond)
				}
				mu.Lock()
				pushed += n
				mu.Unlock()
			}(p)
		}
		consumer := func(c int, block bool) {
			defer wg.Done()
			mine := map[string]int{}
			for i := 0; time.Now().Before(stopAt.Add(250 * time.Millisecond)); i++ {
				if block {
					op := "BLPOP"
					if (i+c)%2 == 0 {
						op = "BRPOP"
					}
					if r := exec(op, key, "1"); r.V.Kind == '*' && len(r.V.Arr) == 2 {
						mine[string(r.V.Arr[1].Str)]++
					}
					continue
				}
				op := "LPOP"
				if (i+c)%2 == 0 {
					op = "RPOP"
				}
				if r := exec(op, key); r.V.Kind == '$' && !r.V.Nil {
					mine[string(r.V.Str)]++
				} else {
					time.Sleep(300 * time.Microsecond)
				}
			}
			mu.Lock()
			for e, n := range mine {
				popped[e] += n
				if block {
					blockTaken += n
				}
			}
			mu.Unlock()
		}
		for i := 0; i < plain; i++ {
			wg.Add(1)
			go consumer(i, false)
		}
		for i := 0; i < blocking; i++ {
			wg.Add(1)
			go consumer(i, true)
		}
		wg.Wait()
		left := map[string]int{}
		nLeft := 0
		for _, e := range exec("LRANGE", key, "0", "-1").V.Arr {
			left[string(e.Str)]++
			nLeft++
		}
		accounted, dup, total := 0, 0, 0
		var dups []string
		for e, n := range popped {
			total += n
			if n+left[e] > 1 {
				dup++
				dups = append(dups, e)
			}
			accounted++
		}
		for e := range left {
			if popped[e] == 0 {
				accounted++
			}
		}
		lost := pushed - accounted
		out.Rounds++
		out.Pushed += pushed
		out.Popped += total
		out.Left += nLeft
		out.BlockPops += blockTaken
		if lost > 0 {
			out.Lost += lost
			out.Details = append(out.Details, fmt.Sprintf("round %d, queue %q, %d producers (LPUSH/RPUSH), %d LPOP/RPOP and %d BLPOP/BRPOP consumers: %d of %d acknowledged elements were neither popped by anybody nor left in the list", rd, key, producers, plain, blocking, lost, pushed))
		}
		if dup > 0 {
			sort.Strings(dups)
			out.Dup += dup
			out.Details = append(out.Details, fmt.Sprintf("round %d, queue %q: %d elements were delivered more than once (e.g. %q)", rd, key, dup, dups[0]))
		}
		in.Stop()
	}
	out.Stretched = stretched.Load()
	b, _ := json.Marshal(out)
	_ = os.WriteFile(*fOut, b, 0o644)
}

// churnPhase runs churnWorker in a child process and turns its result into divergences.
func churnPhase(o *common.Opts) (out churnOut, divs []seqrun.Div, note string) {
	outFile := filepath.Join(o.Work, "churn.json")
	logFile := filepath.Join(o.Work, "churn.log")
	lf, _ := os.Create(logFile)
	defer lf.Close()
	cmd := exec.Command(os.Args[0], "-churn", "-prop", "C09", "-seed", fmt.Sprint(o.Seed), "-tier", o.Tier, "-out", outFile, "-work", o.Work)
	cmd.Stdout, cmd.Stderr = lf, lf
	cmd.Env = append(os.Environ(), "GOTRACEBACK=all")
	if err := cmd.Start(); err != nil {
		return out, nil, "in-process churn did not start: " + err.Error()
	}
	done := make(chan error, 1)
	go func() { done <- cmd.Wait() }()
	want := "each element to exactly one popper, or left in the list"
	select {
	case err := <-done:
		if err != nil {
			lg := tail(logFile, 1<<20)
			return out, []seqrun.Div{{Kind: "crash", Detail: "in-process queue churn: the process died: " + err.Error() + "\n" + inproc.TopFrames(lg, 8), Sig: "blocking|churn-inproc-crash", Want: want}}, ""
		}
	case <-time.After(time.Duration(o.Pick(120, 600)) * time.Second):
		_ = cmd.Process.Signal(syscall.SIGQUIT)
		select {
		case <-done:
		case <-time.After(10 * time.Second):
			_ = cmd.Process.Kill()
			<-done
		}
		lg := tail(logFile, 1<<20)
		if strings.Contains(inproc.TopFrames(lg, 8), "RedisGO") {
			return out, []seqrun.Div{{Kind: "hang", Detail: "in-process queue churn did not finish; goroutines:\n" + inproc.TopFrames(lg, 8), Sig: "blocking|churn-inproc-hang", Want: want}}, ""
		}
		return out, nil, "in-process churn exceeded its wall-clock limit"
	}
	b, err := os.ReadFile(outFile)
	if err != nil || json.Unmarshal(b, &out) != nil {
		return out, nil, "in-process churn left no result"
	}
	for _, p := range out.Panics {
		divs = append(divs, seqrun.Div{Kind: "panic", Detail: "in-process queue churn: " + p, Sig: "blocking|churn-inproc-panic", Want: want})
		break
	}
	if out.Lost > 0 || out.Dup > 0 {
		sig := "blocking|churn-inproc-element-lost"
		if out.Lost == 0 {
			sig = "blocking|churn-inproc-element-delivered-twice"
		}
		divs = append(divs, seqrun.Div{Kind: "blocking", Detail: strings.Join(out.Details, "\n") + fmt.Sprintf("\n(%d lock acquisitions were preceded by a pause of 0.2-2 ms)", out.Stretched), Sig: sig, Want: want})
	}
	if out.Rounds == 0 || out.BlockPops == 0 || out.Stretched == 0 {
		note = "in-process churn observed nothing (no element taken by a blocking pop, or no stretched lock acquisition)"
	}
	return out, divs, note
}
