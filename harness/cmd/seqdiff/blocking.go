//go:build verif

package main

import (
	"fmt"
	"math/rand"
	"path/filepath"
	"sort"
	"strings"
	"sync"
	"time"

	"rgverif/internal/common"
	"rgverif/internal/procs"
	"rgverif/internal/respc"
	"rgverif/internal/seqrun"
)

// blockingPhase checks the multi-client clauses of C09 against the real binary: each pushed element goes to
// exactly one blocking popper (or stays in the list), a blocked popper gets an element that stayed available,
// and nil comes at the timeout, not before.
func blockingPhase(o *common.Opts, scenarios int) (done, pops, pushes int, divs []seqrun.Div, note string) {
	if procs.Bin(false) == "" {
		return 0, 0, 0, nil, "server binary not available"
	}
	var srv *procs.Server
	var err error
	for try := 0; try < 5; try++ {
		srv, err = procs.Start(procs.Opts{Dir: filepath.Join(o.Work, fmt.Sprintf("bsrv-%d", try)), Port: procs.FreePorts(1)[0], ShardNum: 8, Databases: 1})
		if err == nil {
			break
		}
	}
	if err != nil {
		return 0, 0, 0, nil, "server start failed: " + err.Error()
	}
	defer srv.Kill()
	var mu sync.Mutex
	seen := map[string]bool{}
	report := func(sig, detail string, trace []string) {
		mu.Lock()
		defer mu.Unlock()
		if seen[sig] {
			return
		}
		seen[sig] = true
		divs = append(divs, seqrun.Div{Kind: "blocking", Cmd: trace, Detail: detail, Sig: sig, Want: "each element to exactly one popper; nil only at the timeout; a blocked popper served while an element stays available"})
	}
	start := time.Now()
	now := func() float64 { return time.Since(start).Seconds() }
	var wg sync.WaitGroup
	sem := make(chan struct{}, 24)
	for s := 0; s < scenarios; s++ {
		wg.Add(1)
		go func(s int) {
			defer wg.Done()
			sem <- struct{}{}
			defer func() { <-sem }()
			r := rand.New(rand.NewSource(o.Seed*7919 + int64(s)))
			nKeys := 1 + r.Intn(3)
			keys := make([]string, nKeys)
			for i := range keys {
				keys[i] = fmt.Sprintf("bq:%d:%d", s, i)
			}
			nPop := 1 + r.Intn(5)
			nPush := r.Intn(7)
			type popRes struct {
				cmd       []string
				call, ret float64
				timeout   int
				nilReply  bool
				key, elem string
				err       string
				keys      []string
			}
			type pushRec struct {
				key, elem string
				at, acked float64
			}
			var pmu sync.Mutex
			var popsR []popRes
			var pushR []pushRec
			var swg sync.WaitGroup
			for p := 0; p < nPop; p++ {
				swg.Add(1)
				go func(p int) {
					defer swg.Done()
					pr := rand.New(rand.NewSource(o.Seed*31 + int64(s)*101 + int64(p)))
					time.Sleep(time.Duration(pr.Intn(400)) * time.Millisecond)
					c, err := respc.Dial(srv.Addr, 30*time.Second)
					if err != nil {
						return
					}
					defer c.Close()
					name := []string{"BLPOP", "BRPOP"}[pr.Intn(2)]
					var ks []string
					for _, i := range pr.Perm(nKeys)[:1+pr.Intn(nKeys)] {
						ks = append(ks, keys[i])
					}
					timeout := 1 + pr.Intn(2)
					cmd := append(append([]string{name}, ks...), fmt.Sprint(timeout))
					res := popRes{cmd: cmd, timeout: timeout, keys: ks, call: now()}
					v, err := c.Do(cmd...)
					res.ret = now()
					switch {
					case err != nil:
						res.err = err.Error()
					case v.Nil:
						res.nilReply = true
					case v.Kind == '*' && len(v.Arr) == 2:
						res.key, res.elem = string(v.Arr[0].Str), string(v.Arr[1].Str)
					default:
						res.err = "unexpected reply " + v.String()
					}
					pmu.Lock()
					popsR = append(popsR, res)
					pmu.Unlock()
				}(p)
			}
			swg.Add(1)
			go func() {
				defer swg.Done()
				c, err := respc.Dial(srv.Addr, 30*time.Second)
				if err != nil {
					return
				}
				defer c.Close()
				for i := 0; i < nPush; i++ {
					time.Sleep(time.Duration(r.Intn(500)) * time.Millisecond)
					k := keys[r.Intn(nKeys)]
					e := fmt.Sprintf("e%d-%d", s, i)
					rec := pushRec{key: k, elem: e, at: now()}
					if _, err := c.Do("RPUSH", k, e); err != nil {
						return
					}
					rec.acked = now()
					pmu.Lock()
					pushR = append(pushR, rec)
					pmu.Unlock()
				}
			}()
			swg.Wait()
			// what is left
			c, err := respc.Dial(srv.Addr, 30*time.Second)
			if err != nil {
				return
			}
			defer c.Close()
			left := map[string]int{}
			for _, k := range keys {
				v, err := c.Do("LRANGE", k, "0", "-1")
				if err != nil {
					return
				}
				for _, e := range v.Arr {
					left[string(e.Str)]++
				}
				if ex, err := c.Do("EXISTS", k); err == nil && ex.Int == 1 && len(v.Arr) == 0 {
					report("blocking|emptied-list-still-exists", fmt.Sprintf("key %q exists although its list is empty after blocking pops", k), nil)
				}
			}
			var trace []string
			for _, p := range popsR {
				out := "nil"
				if !p.nilReply {
					out = "[" + p.key + " " + p.elem + "]"
				}
				if p.err != "" {
					out = "error: " + p.err
				}
				trace = append(trace, fmt.Sprintf("%.3f..%.3f %s -> %s", p.call, p.ret, strings.Join(p.cmd, " "), out))
			}
			for _, p := range pushR {
				trace = append(trace, fmt.Sprintf("%.3f..%.3f RPUSH %s %s", p.at, p.acked, p.key, p.elem))
			}
			sort.Strings(trace)
			got := map[string]int{}
			poppedAt := map[string]float64{}
			for _, p := range popsR {
				if p.err != "" {
					report("blocking|pop-error", "blocking pop failed: "+p.err+" "+srv.CrashLine(), trace)
					continue
				}
				if !p.nilReply {
					got[p.elem]++
					poppedAt[p.elem] = p.ret
				}
			}
			pushed := map[string]pushRec{}
			for _, p := range pushR {
				pushed[p.elem] = p
			}
			for e, n := range got {
				if n > 1 {
					report("blocking|element-delivered-twice", fmt.Sprintf("element %q was delivered to %d poppers", e, n), trace)
				}
				if _, ok := pushed[e]; !ok {
					report("blocking|phantom-element", fmt.Sprintf("element %q was never pushed", e), trace)
				}
			}
			for e, p := range pushed {
				if got[e]+left[e] != 1 {
					report("blocking|element-lost-or-duplicated", fmt.Sprintf("element %q (pushed to %s): delivered %d times, %d copies left in the lists", e, p.key, got[e], left[e]), trace)
				}
				if got[e] == 1 {
					for _, pp := range popsR {
						if pp.elem == e && pp.key != p.key {
							report("blocking|wrong-key-name", fmt.Sprintf("element %q was pushed to %q but the pop reply names key %q", e, p.key, pp.key), trace)
						}
					}
				}
			}
			for _, p := range popsR {
				if !p.nilReply || p.err != "" {
					continue
				}
				if p.ret-p.call < float64(p.timeout)-0.15 {
					report("blocking|nil-before-timeout", fmt.Sprintf("%s returned nil after %.3fs, before its timeout of %ds", strings.Join(p.cmd, " "), p.ret-p.call, p.timeout), trace)
				}
				// an element that was available on one of its keys for a whole second while it was blocked, and that nobody took
				for _, e := range pushR {
					onKey := false
					for _, k := range p.keys {
						if k == e.key {
							onKey = true
						}
					}
					takenAt, taken := poppedAt[e.elem]
					availableUntil := p.ret
					if taken && takenAt < availableUntil {
						availableUntil = takenAt
					}
					from := e.acked
					if p.call > from {
						from = p.call
					}
					if onKey && availableUntil-from > 1.0 && (!taken || takenAt > p.ret) {
						report("blocking|blocked-while-element-available", fmt.Sprintf("%s was blocked from %.3f to %.3f and returned nil although %q sat in %q from %.3f on and nobody took it before %.3f", strings.Join(p.cmd, " "), p.call, p.ret, e.elem, e.key, e.acked, availableUntil), trace)
					}
				}
			}
			mu.Lock()
			done++
			pops += len(popsR)
			pushes += len(pushR)
			mu.Unlock()
		}(s)
	}
	wg.Wait()
	// one queue that keeps running empty: producers, plain poppers and many blocking poppers (which re-examine the
	// list every 100 ms while they wait) all at once. Every acknowledged element must be popped exactly once or be
	// left in the list.
	if !srv.Exited() {
		const producers, plain, blocking = 2, 4, 128
		key := fmt.Sprintf("bq:churn:%d", o.Seed)
		stopAt := time.Now().Add(time.Duration(o.Pick(3500, 15000)) * time.Millisecond)
		var cmu sync.Mutex
		pushedN := 0
		popped := map[string]int{}
		var cwg sync.WaitGroup
		connErr := ""
		for p := 0; p < producers; p++ {
			cwg.Add(1)
			go func(p int) {
				defer cwg.Done()
				c, err := respc.Dial(srv.Addr, 30*time.Second)
				if err != nil {
					return
				}
				defer c.Close()
				n := 0
				for i := 0; time.Now().Before(stopAt); i++ {
					if v, err := c.Do("RPUSH", key, fmt.Sprintf("p%d-%d", p, i)); err != nil || v.Kind != ':' {
						cmu.Lock()
						connErr = fmt.Sprintf("RPUSH failed: %v %s", err, v.String())
						cmu.Unlock()
						break
					}
					n++
					if i%8 == 7 {
						time.Sleep(300 * time.Microsecond) // let the consumers drain the queue
					}
				}
				cmu.Lock()
				pushedN += n
				cmu.Unlock()
			}(p)
		}
		consumer := func(block bool) {
			defer cwg.Done()
			c, err := respc.Dial(srv.Addr, 30*time.Second)
			if err != nil {
				return
			}
			defer c.Close()
			mine := map[string]int{}
			for time.Now().Before(stopAt.Add(300 * time.Millisecond)) {
				var v respc.Value
				var err error
				if block {
					v, err = c.Do("BLPOP", key, "1")
				} else {
					v, err = c.Do("LPOP", key)
				}
				if err != nil {
					break
				}
				switch {
				case v.Nil:
					if !block {
						time.Sleep(200 * time.Microsecond)
					}
				case block && v.Kind == '*' && len(v.Arr) == 2:
					mine[string(v.Arr[1].Str)]++
				case !block && v.Kind == '$':
					mine[string(v.Str)]++
				}
			}
			cmu.Lock()
			for e, n := range mine {
				popped[e] += n
			}
			cmu.Unlock()
		}
		for i := 0; i < plain; i++ {
			cwg.Add(1)
			go consumer(false)
		}
		for i := 0; i < blocking; i++ {
			cwg.Add(1)
			go consumer(true)
		}
		cwg.Wait()
		if c, err := respc.Dial(srv.Addr, 30*time.Second); err == nil && connErr == "" && !srv.Exited() {
			left := map[string]int{}
			if v, err := c.Do("LRANGE", key, "0", "-1"); err == nil {
				for _, e := range v.Arr {
					left[string(e.Str)]++
				}
			}
			c.Close()
			lost, dup, total := 0, 0, 0
			example := ""
			for e, n := range popped {
				total += n
				if n+left[e] > 1 {
					dup++
					example = e
				}
			}
			accounted := 0
			for e := range popped {
				if popped[e]+left[e] >= 1 {
					accounted++
				}
			}
			for e := range left {
				if popped[e] == 0 {
					accounted++
				}
			}
			lost = pushedN - accounted
			mu.Lock()
			pops += total
			pushes += pushedN
			done++
			mu.Unlock()
			if lost > 0 {
				report("blocking|churn-element-lost", fmt.Sprintf("queue %q with %d producers, %d LPOP and %d BLPOP consumers: %d of %d acknowledged elements were neither popped by anybody nor left in the list", key, producers, plain, blocking, lost, pushedN), nil)
			}
			if dup > 0 {
				report("blocking|churn-element-delivered-twice", fmt.Sprintf("queue %q: %d elements were delivered more than once (e.g. %q)", key, dup, example), nil)
			}
		}
	}
	if srv.Exited() {
		report("blocking|server-exited", "server exited: "+srv.CrashLine(), nil)
	}
	return done, pops, pushes, divs, ""
}
