//go:build verif

// Command seqdiff decides the sequential command-semantics properties
// (C01, C09, C10, C11, C12, C18): seeded single-client programs run step by
// step against the real executors (in-process, through Manager.ExecCommand)
// and against the reference model; reply, keyspace and structural invariants
// are compared after every step. It is its own supervisor: batches run in
// child processes (a panic in a goroutine or a fatal error cannot be
// recovered), each journalling every command before issuing it.
package main

import (
	"bufio"
	"encoding/json"
	"flag"
	"fmt"
	"math/rand"
	"os"
	"os/exec"
	"path/filepath"
	"runtime"
	"sort"
	"strings"
	"sync"
	"sync/atomic"
	"syscall"
	"time"

	"rgverif/internal/common"
	"rgverif/internal/evidence"
	"rgverif/internal/findings"
	"rgverif/internal/gen"
	"rgverif/internal/inproc"
	"rgverif/internal/procs"
	"rgverif/internal/seqrun"
)

type propCfg struct {
	family     string
	maxSteps   int
	quick      int
	thorough   int
	floorTuple int
	rule       string
}

var props = map[string]propCfg{
	"C01": {gen.FString, 60, 3000, 120000, 150, "string/key command programs"},
	"C09": {gen.FList, 80, 4000, 150000, 120, "list command programs"},
	"C10": {gen.FHash, 60, 3000, 100000, 100, "hash command programs"},
	"C11": {gen.FSet, 60, 3000, 100000, 100, "set command programs"},
	"C12": {gen.FZSet, 120, 4000, 150000, 80, "sorted-set command programs"},
	"C18": {gen.FStream, 60, 3000, 100000, 40, "stream command programs"},
	"C03": {gen.FMixed, 40, 3000, 100000, 200, "programs mixing every command family with frame-breaking payloads and key names; strict framing"},
}

var (
	fProp    = flag.String("prop", "C01", "property id")
	fWorker  = flag.Bool("worker", false, "run as batch worker")
	fChurn   = flag.Bool("churn", false, "run as the in-process queue churn worker (C09)")
	fFrom    = flag.Int("from", 0, "first program index")
	fTo      = flag.Int("to", 0, "one past the last program index")
	fOut     = flag.String("out", "", "worker result file")
	fJournal = flag.String("journal", "", "worker journal file")
	fN       = flag.Int("n", 0, "override the number of programs")
)

func progRand(seed int64, idx int) *rand.Rand {
	return rand.New(rand.NewSource(seed*1000003 + int64(idx)*7919 + 17))
}

type workerOut struct {
	Divs   []seqrun.Div   `json:"divs"`
	Steps  int            `json:"steps"`
	Progs  int            `json:"progs"`
	Unspec int            `json:"unspec"`
	Dead   int            `json:"dead"`
	Tuples map[string]int `json:"tuples"`
	Sample [][]string     `json:"sample"`
}

func hasBlocking(prog []gen.Cmd) bool {
	for _, c := range prog {
		if len(c) > 0 {
			n := strings.ToUpper(string(c[0]))
			if n == "BLPOP" || n == "BRPOP" {
				return true
			}
		}
	}
	return false
}

// shrink greedily removes earlier steps while the same signature still shows at the last step.
func shrink(prog []gen.Cmd, sig string) []gen.Cmd {
	if hasBlocking(prog) || len(prog) > 200 {
		return prog
	}
	same := func(p []gen.Cmd) bool {
		divs, _ := seqrun.Run(p, seqrun.Opts{Strict: *fProp == "C03"})
		for _, d := range divs {
			if d.Step == len(p)-1 && d.Sig == sig {
				return true
			}
		}
		return false
	}
	cur := prog
	if !same(cur) {
		return prog
	}
	for i := len(cur) - 2; i >= 0; i-- {
		cand := append(append([]gen.Cmd{}, cur[:i]...), cur[i+1:]...)
		if same(cand) {
			cur = cand
		}
	}
	return cur
}

func worker(o *common.Opts, cfg propCfg) {
	inproc.Setup(8, 1, filepath.Join(o.Work, "log"))
	var j *os.File
	if *fJournal != "" {
		j, _ = os.OpenFile(*fJournal, os.O_CREATE|os.O_WRONLY|os.O_APPEND, 0o644)
	}
	out := workerOut{Tuples: map[string]int{}}
	seenSig := map[string]bool{}
	// a program that makes no progress for a minute hangs (blocking pops wait a few seconds at most): dump the
	// goroutines and end the batch at once instead of waiting for the batch limit
	var progress atomic.Int64
	go func() {
		last, since := int64(-1), time.Now()
		for {
			time.Sleep(time.Second)
			if p := progress.Load(); p != last {
				last, since = p, time.Now()
			} else if time.Since(since) > 60*time.Second {
				buf := make([]byte, 4<<20)
				buf = buf[:runtime.Stack(buf, true)]
				os.Stderr.Write(buf)
				os.Exit(7)
			}
		}
	}()
	for idx := *fFrom; idx < *fTo; idx++ {
		progress.Add(1)
		prog := gen.Program(progRand(o.Seed, idx), cfg.family, cfg.maxSteps)
		divs, st := seqrun.Run(prog, seqrun.Opts{Journal: j, Prog: idx, Strict: *fProp == "C03"})
		out.Progs++
		out.Steps += st.Steps
		out.Unspec += st.Unspecified
		out.Dead += st.DeadSteps
		for k, v := range st.Tuples {
			out.Tuples[k] += v
		}
		if len(out.Sample) < 2 && len(prog) >= 3 {
			for _, c := range prog[:3] {
				out.Sample = append(out.Sample, seqrun.Quote(c))
			}
		}
		for _, d := range divs {
			if seenSig[d.Sig] {
				continue
			}
			seenSig[d.Sig] = true
			p := shrink(prog[:d.Step+1], d.Sig)
			for _, c := range p {
				d.Program = append(d.Program, seqrun.QuoteFull(c))
			}
			out.Divs = append(out.Divs, d)
		}
	}
	b, _ := json.Marshal(out)
	_ = os.WriteFile(*fOut, b, 0o644)
}

type batch struct {
	from, to int
	out      string
	journal  string
	log      string
	err      error
	timedOut bool
}

func lastJournal(path string) string {
	f, err := os.Open(path)
	if err != nil {
		return ""
	}
	defer f.Close()
	last := ""
	sc := bufio.NewScanner(f)
	sc.Buffer(make([]byte, 1<<20), 1<<26)
	for sc.Scan() {
		if len(sc.Text()) > 0 {
			last = sc.Text()
		}
	}
	return last
}

func tail(path string, n int) string {
	b, err := os.ReadFile(path)
	if err != nil {
		return ""
	}
	if len(b) > n {
		b = b[len(b)-n:]
	}
	return string(b)
}

func replay(o *common.Opts, prop string) int {
	b, err := os.ReadFile(o.Replay)
	if err != nil {
		fmt.Println("cannot read replay file:", err)
		return common.ExitInconclusive
	}
	var d seqrun.Div
	if err := json.Unmarshal(b, &d); err != nil {
		fmt.Println("bad replay file:", err)
		return common.ExitInconclusive
	}
	inproc.Setup(8, 1, filepath.Join(o.Work, "log"))
	var prog []gen.Cmd
	for _, q := range d.Program {
		c, err := seqrun.Unquote(q)
		if err != nil {
			fmt.Println("bad replay program:", err)
			return common.ExitInconclusive
		}
		prog = append(prog, c)
	}
	divs, _ := seqrun.Run(prog, seqrun.Opts{Strict: prop == "C03"})
	for _, x := range divs {
		fmt.Printf("step %d %v: %s want %s got %s %s\n", x.Step, x.Cmd, x.Kind, x.Want, x.Got, x.Detail)
		if x.Sig == d.Sig {
			common.Violation(prop, o.Replay)
			return common.ExitViolation
		}
	}
	fmt.Println("replay: signature not reproduced")
	return common.ExitHeld
}

func main() {
	flag.CommandLine.Init(os.Args[0], flag.ExitOnError)
	// the property flag is needed before common.Parse registers its own flags
	prop := "C01"
	for i, a := range os.Args {
		if (a == "-prop" || a == "--prop") && i+1 < len(os.Args) {
			prop = os.Args[i+1]
		} else if strings.HasPrefix(a, "-prop=") {
			prop = strings.TrimPrefix(a, "-prop=")
		}
	}
	o := common.Parse(prop)
	cfg, ok := props[prop]
	if !ok {
		fmt.Println("unknown property", prop)
		os.Exit(common.ExitInconclusive)
	}
	if *fWorker {
		worker(o, cfg)
		return
	}
	if *fChurn {
		churnWorker(o)
		return
	}
	defer o.Cleanup()
	if o.Replay != "" {
		code := replay(o, prop)
		o.Cleanup()
		os.Exit(code)
	}
	kf, err := findings.Load(findings.DefaultPath)
	if err != nil {
		fmt.Println("cannot load known findings:", err)
		os.Exit(common.ExitInconclusive)
	}
	total := o.Pick(cfg.quick, cfg.thorough)
	if *fN > 0 {
		total = *fN
	}
	nb := runtime.NumCPU()
	if o.Thorough() {
		nb *= 4
	}
	if nb > total {
		nb = total
	}
	per := (total + nb - 1) / nb
	var batches []*batch
	for i := 0; i*per < total; i++ {
		to := (i + 1) * per
		if to > total {
			to = total
		}
		batches = append(batches, &batch{from: i * per, to: to,
			out:     filepath.Join(o.Work, fmt.Sprintf("out-%d.json", i)),
			journal: filepath.Join(o.Work, fmt.Sprintf("journal-%d.log", i)),
			log:     filepath.Join(o.Work, fmt.Sprintf("worker-%d.log", i))})
	}
	limit := time.Duration(o.Pick(240, 2400)) * time.Second
	sem := make(chan struct{}, runtime.NumCPU())
	var wg sync.WaitGroup
	for _, b := range batches {
		wg.Add(1)
		go func(b *batch) {
			defer wg.Done()
			sem <- struct{}{}
			defer func() { <-sem }()
			lf, _ := os.Create(b.log)
			defer lf.Close()
			cmd := exec.Command(os.Args[0], "-worker", "-prop", prop, "-from", fmt.Sprint(b.from), "-to", fmt.Sprint(b.to),
				"-seed", fmt.Sprint(o.Seed), "-tier", o.Tier, "-out", b.out, "-journal", b.journal, "-work", o.Work)
			cmd.Stdout, cmd.Stderr = lf, lf
			cmd.Env = append(os.Environ(), "GOTRACEBACK=all")
			if err := cmd.Start(); err != nil {
				b.err = err
				return
			}
			done := make(chan error, 1)
			go func() { done <- cmd.Wait() }()
			select {
			case b.err = <-done:
				if ee, ok := b.err.(*exec.ExitError); ok && ee.ExitCode() == 7 {
					b.timedOut = true // the worker's own watchdog: a program stopped making progress
				}
			case <-time.After(limit):
				b.timedOut = true
				_ = cmd.Process.Signal(syscall.SIGQUIT)
				select {
				case <-done:
				case <-time.After(10 * time.Second):
					_ = cmd.Process.Kill()
					<-done
				}
			}
		}(b)
	}
	wg.Wait()

	agg := workerOut{Tuples: map[string]int{}}
	bySig := map[string]seqrun.Div{}
	inconclusive := ""
	for _, b := range batches {
		if b.timedOut {
			dump := tail(b.log, 1<<20)
			last := lastJournal(b.journal)
			if strings.Contains(dump, "innovationb1ue/RedisGO/memdb.") && last != "" {
				d := seqrun.Div{Kind: "hang", Detail: "command never returned; goroutine dump shows first-party frames\nlast journalled: " + last + "\n" + inproc.TopFrames(dump, 8),
					Sig: "hang|" + strings.Join(strings.Fields(last)[:1], "")}
				if f := strings.Fields(last); len(f) > 4 {
					d.Sig = "hang|" + strings.ToUpper(strings.Trim(f[4], `"`))
				}
				bySig[d.Sig] = d
			} else {
				inconclusive = "worker batch timed out without evidence of a first-party hang"
			}
			continue
		}
		raw, rerr := os.ReadFile(b.out)
		if b.err != nil || rerr != nil {
			// abnormal exit: the journal pins the input
			last := lastJournal(b.journal)
			lg := tail(b.log, 1<<16)
			kind := "crash"
			frame := ""
			for _, l := range strings.Split(lg, "\n") {
				if strings.HasPrefix(l, "panic:") || strings.HasPrefix(l, "fatal error:") {
					frame = l
					break
				}
			}
			name := "?"
			if f := strings.Fields(last); len(f) > 4 {
				name = strings.ToUpper(strings.Trim(f[4], `"`))
			}
			bySig["crash|"+name+"|"+seqrun.Generalise(frame)] = seqrun.Div{Kind: kind, Detail: "worker process died: " + frame + "\nlast journalled: " + last + "\n" + inproc.TopFrames(lg, 8),
				Sig: "crash|" + name + "|" + seqrun.Generalise(frame)}
			continue
		}
		var w workerOut
		if err := json.Unmarshal(raw, &w); err != nil {
			inconclusive = "unreadable worker output"
			continue
		}
		agg.Progs += w.Progs
		agg.Steps += w.Steps
		agg.Unspec += w.Unspec
		agg.Dead += w.Dead
		for k, v := range w.Tuples {
			agg.Tuples[k] += v
		}
		if len(agg.Sample) < 6 {
			agg.Sample = append(agg.Sample, w.Sample...)
		}
		for _, d := range w.Divs {
			if old, ok := bySig[d.Sig]; !ok || len(d.Program) < len(old.Program) {
				bySig[d.Sig] = d
			}
		}
	}

	// the same programs over TCP against the real binary (sample): replies and verif.dump as seen by a client
	tcpProgs, tcpSteps := 0, 0
	if procs.Bin(false) != "" && prop != "C03" {
		ex, err := seqrun.NewTCPExec(filepath.Join(o.Work, "tcpsrv"))
		if err != nil {
			inconclusive = "TCP replay: " + err.Error()
		} else {
			n := o.Pick(total/10, total/10)
			if n > 4000 {
				n = 4000
			}
			for i := 0; i < n; i++ {
				idx := total + i // programs of their own, still a function of the seed
				prog := gen.Program(progRand(o.Seed, idx), cfg.family, cfg.maxSteps)
				if hasBlocking(prog) {
					continue
				}
				divs, st := seqrun.Run(prog, seqrun.Opts{Prog: idx, Exec: ex})
				tcpProgs++
				tcpSteps += st.Steps
				for _, d := range divs {
					d.Sig = "tcp-" + d.Sig
					if _, ok := bySig[d.Sig]; !ok {
						for _, c := range prog[:d.Step+1] {
							d.Program = append(d.Program, seqrun.QuoteFull(c))
						}
						bySig[d.Sig] = d
					}
				}
				if !ex.Hung && ex.Srv.Exited() {
					bySig["tcp-crash"] = seqrun.Div{Kind: "crash", Detail: "server exited during TCP replay: " + ex.Srv.CrashLine(), Sig: "tcp-crash"}
					break
				}
				if ex.Hung { // (taking the goroutine dump ends the server process)
					d := seqrun.Div{Kind: "hang", Detail: "TCP replay: the server process is alive but a command of this program got no reply within the client's timeout; its goroutines:\n" + ex.HungDump, Sig: "tcp-hang"}
					for _, c := range prog {
						d.Program = append(d.Program, seqrun.QuoteFull(c))
					}
					bySig[d.Sig] = d
					break
				}
			}
			ex.Close()
		}
	}
	blkDone, blkPops, blkPushes := 0, 0, 0
	var churn churnOut
	if prop == "C09" {
		var bdivs []seqrun.Div
		var bnote string
		blkDone, blkPops, blkPushes, bdivs, bnote = blockingPhase(o, o.Pick(40, 800))
		for _, d := range bdivs {
			if _, ok := bySig[d.Sig]; !ok {
				bySig[d.Sig] = d
			}
		}
		if bnote != "" {
			inconclusive = bnote
		}
		var cdivs []seqrun.Div
		var cnote string
		churn, cdivs, cnote = churnPhase(o)
		for _, d := range cdivs {
			if _, ok := bySig[d.Sig]; !ok {
				bySig[d.Sig] = d
			}
		}
		if cnote != "" && inconclusive == "" {
			inconclusive = cnote
		}
	}
	tcpNote := ""
	tcpPipes, tcpCmds := 0, 0
	tcpNames := map[string]int{}
	if prop == "C03" {
		// only framing matters here; behavioural divergences belong to C01/C09-C12/C18
		for s, d := range bySig {
			if d.Kind != "framing" {
				delete(bySig, s)
			}
		}
		var mdivs []seqrun.Div
		tcpPipes, tcpCmds, tcpNames, mdivs, tcpNote = markerPhase(o, o.Pick(400, 12000))
		for _, d := range mdivs {
			if _, ok := bySig[d.Sig]; !ok {
				bySig[d.Sig] = d
			}
		}
		if tcpNote != "" {
			inconclusive = tcpNote
		}
	}
	sigs := make([]string, 0, len(bySig))
	for s := range bySig {
		sigs = append(sigs, s)
	}
	sort.Strings(sigs)
	violations := 0
	knownHits := map[string]int{}
	var vioSamples []any
	for _, s := range sigs {
		d := bySig[s]
		if k := kf.MatchSig(prop, s); k != nil {
			knownHits[k.ID]++
			continue
		}
		violations++
		path := filepath.Join(o.Replays, fmt.Sprintf("%s-%d-%03d.json", prop, o.Seed, violations))
		b, _ := json.MarshalIndent(d, "", " ")
		if violations <= 40 {
			_ = os.WriteFile(path, b, 0o644)
		}
		fmt.Printf("--- %s %s step %d: %v\n    want: %s\n    got:  %s\n    %s\n    sig: %s\n", prop, d.Kind, d.Step, d.Cmd, d.Want, d.Got, strings.ReplaceAll(d.Detail, "\n", "\n    "), d.Sig)
		common.Violation(prop, path)
		if len(vioSamples) < 3 {
			vioSamples = append(vioSamples, d)
		}
	}
	for _, k := range kf.Known(prop) {
		if knownHits[k.ID] > 0 {
			common.Known(prop, k.ID+" "+k.What)
		} else if k.Matcher == "sig_regex" {
			fmt.Printf("KNOWN-FINDING-GONE: property=%s %s not observed in this run\n", prop, k.ID)
		}
	}

	cmds := map[string]bool{}
	for t := range agg.Tuples {
		cmds[strings.SplitN(t, "|", 2)[0]] = true
	}
	samples := []any{}
	for _, s := range agg.Sample {
		samples = append(samples, s)
	}
	if len(samples) == 0 {
		samples = append(samples, "none")
	}
	ev := &evidence.Evidence{PropertyID: prop, Tier: o.Tier, Seed: o.Seed, Level: "exploration", WallS: o.Elapsed(), Violations: violations,
		Coverage: map[string]any{
			"evaluations":         agg.Progs,
			"distinct_nontrivial": len(agg.Tuples),
			"rule": cfg.rule + ": program i is a function of (seed, i); every step is executed by the real executor and by the reference model; " +
				"distinct = distinct (command, arity+option set, type of the first key before the step, reply kind) tuples observed",
			"samples":                    samples,
			"commands_executed":          agg.Steps,
			"steps_unspecified_resynced": agg.Unspec,
			"keys_put_past_their_deadline_between_commands": agg.Dead,
			"distinct_commands":                             len(cmds),
			"divergence_signatures":                         len(sigs),
			"known_finding_hits":                            knownHits,
			"violation_samples":                             vioSamples,
			"state_compared_after_every_step":               true,
		},
		Assumptions: []string{
			"reference model written from the Redis command reference; open corners are accepted either way or re-synchronised (counted as steps_unspecified_resynced)",
			"in-process execution through server.Manager.ExecCommand with hooks of build tag verif (VerifDump/VerifCheck/VerifStripesFree)",
			"deadlines used in these programs are far in the future or invalid, so no verdict depends on the clock",
		}}
	if prop == "C09" {
		ev.Coverage["blocking_scenarios"] = blkDone
		ev.Coverage["blocking_pops"] = blkPops
		ev.Coverage["blocking_pushes"] = blkPushes
		ev.Coverage["inprocess_queue_churn"] = churn
	}
	ev.Coverage["tcp_replayed_programs"] = tcpProgs
	ev.Coverage["tcp_replayed_commands"] = tcpSteps
	if prop == "C03" {
		ev.Coverage["tcp_marker_pipelines"] = tcpPipes
		ev.Coverage["tcp_marker_commands_in_sync"] = tcpCmds
		ev.Coverage["tcp_marker_commands_by_name"] = tcpNames
		ev.Coverage["strict_framing"] = true
	}
	if inconclusive != "" {
		ev.Coverage["inconclusive"] = inconclusive
	}
	_ = evidence.Write(o.Evidence, ev)
	fmt.Printf("%s %s seed=%d: %d programs, %d commands, %d coverage tuples, %d divergence signatures (%d unmatched), %.1fs\n",
		prop, o.Tier, o.Seed, agg.Progs, agg.Steps, len(agg.Tuples), len(sigs), violations, o.Elapsed())
	if violations > 0 {
		o.Cleanup()
		os.Exit(common.ExitViolation)
	}
	if inconclusive != "" || len(agg.Tuples) < cfg.floorTuple || agg.Progs < total {
		common.Inconclusive(prop, fmt.Sprintf("%s (programs %d/%d, tuples %d, floor %d)", inconclusive, agg.Progs, total, len(agg.Tuples), cfg.floorTuple))
		o.Cleanup()
		os.Exit(common.ExitInconclusive)
	}
}
