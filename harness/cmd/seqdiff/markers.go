//go:build verif

package main

import (
	"bytes"
	"fmt"
	"net"
	"os"
	"path/filepath"
	"strings"
	"sync"
	"time"

	"rgverif/internal/common"
	"rgverif/internal/gen"
	"rgverif/internal/procs"
	"rgverif/internal/respc"
	"rgverif/internal/seqrun"
)

// markerPhase drives pipelines "cmd_1, PING m_1, cmd_2, PING m_2, ..." against the
// real server binary. The reply stream must decode (strictly) as
// v_1, bulk(m_1), v_2, bulk(m_2), ...: a command that produced zero or two
// values, or an unframed payload, shifts or breaks the markers at a known index.
func markerPhase(o *common.Opts, pipelines int) (done, cmds int, cmdNames map[string]int, divs []seqrun.Div, note string) {
	cmdNames = map[string]int{}
	if procs.Bin(false) == "" {
		return 0, 0, cmdNames, nil, "server binary not available"
	}
	perServer := 200
	var srv *procs.Server
	defer func() {
		if srv != nil {
			srv.Kill()
		}
	}()
	seen := map[string]bool{}
	for p := 0; p < pipelines; p++ {
		if srv == nil || p%perServer == 0 {
			if srv != nil {
				srv.Kill()
				_ = os.RemoveAll(srv.Opts.Dir)
			}
			var err error
			for try := 0; try < 5; try++ {
				srv, err = procs.Start(procs.Opts{Dir: filepath.Join(o.Work, fmt.Sprintf("msrv-%d-%d", p, try)), Port: procs.FreePorts(1)[0], ShardNum: 8, Databases: 1})
				if err == nil {
					break
				}
			}
			if err != nil {
				return done, cmds, cmdNames, divs, "server start failed: " + err.Error()
			}
		}
		prog := gen.Program(progRand(o.Seed+77, p), gen.FMixed, 20)
		var keep []gen.Cmd
		for _, c := range prog {
			n := strings.ToUpper(string(c[0]))
			if n == "BLPOP" || n == "BRPOP" {
				continue // would delay the pipeline by its timeout; covered in-process
			}
			keep = append(keep, c)
		}
		prog = keep
		var buf bytes.Buffer
		for i, c := range prog {
			buf.Write(respc.EncodeCommand(c))
			buf.Write(respc.EncodeCommand(respc.Cmd("PING", fmt.Sprintf("m-%d-%d", p, i))))
		}
		c, err := respc.Dial(srv.Addr, 15*time.Second)
		if err != nil {
			if srv.Exited() {
				return done, cmds, cmdNames, divs, "server exited (C04 matter): " + srv.CrashLine()
			}
			return done, cmds, cmdNames, divs, "dial failed: " + err.Error()
		}
		// one write, or a few arbitrary chunks
		raw := buf.Bytes()
		r := progRand(o.Seed+78, p)
		if r.Intn(2) == 0 {
			_ = c.SendRaw(raw)
		} else {
			for len(raw) > 0 {
				n := 1 + r.Intn(len(raw))
				_ = c.SendRaw(raw[:n])
				raw = raw[n:]
			}
		}
		// a third of the pipelines end with a half-close (shutdown of the sending side, as "printf ... | nc" does):
		// the commands were read, so each of them is still owed its reply before the server closes
		halfClosed := r.Intn(3) == 0
		if halfClosed {
			if tc, ok := c.Conn.(interface{ CloseWrite() error }); ok {
				_ = tc.CloseWrite()
				cmdNames["(pipelines ended by half-close)"]++
			}
		}
		for i, cmd := range prog {
			name := strings.ToUpper(string(cmd[0]))
			if halfClosed {
				name += "(half-closed)"
			}
			bad := func(why string, got string) {
				sig := "marker|" + name + "|" + why
				if !seen[sig] {
					seen[sig] = true
					d := seqrun.Div{Kind: "framing", Prog: p, Step: i, Cmd: seqrun.Quote(cmd), Want: "exactly one well-formed value, then the marker", Got: got, Sig: sig, Detail: "TCP pipeline against the real binary"}
					for _, pc := range prog[:i+1] {
						d.Program = append(d.Program, seqrun.QuoteFull(pc))
					}
					divs = append(divs, d)
				}
			}
			v, err := c.Recv()
			if err != nil {
				bad("reply does not decode", err.Error())
				break
			}
			m, err := c.Recv()
			want := fmt.Sprintf("m-%d-%d", p, i)
			if err != nil {
				bad("marker missing", v.String()+" then "+err.Error())
				break
			}
			if m.Kind != '$' || string(m.Str) != want {
				bad("out of sync", v.String()+" then "+m.String()+" instead of marker "+want)
				break
			}
			cmds++
			cmdNames[name]++
		}
		c.Close()
		done++
		if srv.Exited() {
			return done, cmds, cmdNames, divs, "server exited (C04 matter): " + srv.CrashLine()
		}
	}
	// short pipelines followed at once by end of input: the last replies race with the connection teardown
	if srv != nil && !srv.Exited() {
		r := progRand(o.Seed+79, 0)
		n := o.Pick(300, 5000)
		lost := 0
		firstBad := ""
		for k := 0; k < n; k++ {
			c, err := respc.Dial(srv.Addr, 15*time.Second)
			if err != nil {
				break
			}
			m := 1 + r.Intn(12)
			var buf bytes.Buffer
			for i := 0; i < m; i++ {
				switch r.Intn(3) {
				case 0:
					buf.Write(respc.EncodeCommand(respc.Cmd("PING", fmt.Sprintf("e-%d-%d", k, i))))
				case 1:
					buf.Write(respc.EncodeCommand(respc.Cmd("SET", fmt.Sprintf("eof:%d", k%7), fmt.Sprint(i))))
				default:
					buf.Write(respc.EncodeCommand(respc.Cmd("INCR", "eof:counter")))
				}
			}
			_ = c.SendRaw(buf.Bytes())
			if tc, ok := c.Conn.(interface{ CloseWrite() error }); ok {
				_ = tc.CloseWrite()
			}
			got := 0
			for {
				if _, err := c.RecvTimeout(15 * time.Second); err != nil {
					break
				}
				got++
			}
			c.Close()
			cmds += got
			if got != m {
				lost++
				if firstBad == "" {
					firstBad = fmt.Sprintf("connection %d: %d commands pipelined and the sending side closed, %d replies received before the server closed", k, m, got)
				}
			}
		}
		cmdNames["(short pipelines ended by half-close)"] += n
		if lost > 0 {
			divs = append(divs, seqrun.Div{Kind: "framing", Cmd: []string{"PING/SET/INCR x m", "<half-close>"}, Want: "one reply per command that was read, then the close", Got: fmt.Sprintf("%d of %d connections lost replies; %s", lost, n, firstBad),
				Detail: "TCP pipelines ended by a half-close against the real binary", Sig: "marker|replies lost at end of input"})
		}
	}
	// several connections fetch large, different array replies at the same time and read them late, so that the
	// server's writes park half-way while other replies are being encoded: every connection must still decode
	// exactly its own elements (reply buffers must not be shared between connections)
	if srv != nil && !srv.Exited() {
		const conns, elems, elemLen, rounds = 8, 8000, 500, 3
		type cl struct {
			c    *respc.Client
			want [][]byte
		}
		var cls []*cl
		for i := 0; i < conns; i++ {
			c, err := respc.Dial(srv.Addr, 60*time.Second)
			if err != nil {
				break
			}
			if tc, ok := c.Conn.(*net.TCPConn); ok {
				_ = tc.SetReadBuffer(32 << 10) // a small window: the server cannot hand the whole reply to the kernel
			}
			x := &cl{c: c}
			args := [][]byte{[]byte("RPUSH"), []byte(fmt.Sprintf("big:%d", i))}
			for j := 0; j < elems; j++ {
				e := bytes.Repeat([]byte(fmt.Sprintf("c%d-e%d\r\n", i, j)), elemLen/8)
				x.want = append(x.want, e)
				args = append(args, e)
			}
			if v, err := c.DoB(args); err != nil || v.Kind != ':' {
				c.Close()
				break
			}
			cls = append(cls, x)
		}
		var wg sync.WaitGroup
		var mu sync.Mutex
		firstBad := ""
		for i, x := range cls {
			wg.Add(1)
			go func(i int, x *cl) {
				defer wg.Done()
				for rd := 0; rd < rounds; rd++ {
					time.Sleep(time.Duration(i*15) * time.Millisecond)
					_ = x.c.Send(respc.Cmd("LRANGE", fmt.Sprintf("big:%d", i), "0", "-1"))
					_ = x.c.Send(respc.Cmd("PING", fmt.Sprintf("big-marker-%d-%d", i, rd)))
					time.Sleep(300 * time.Millisecond) // the reply does not fit the socket buffers: the server's write waits for us
					v, err := x.c.RecvTimeout(60 * time.Second)
					bad := ""
					if err != nil {
						bad = fmt.Sprintf("connection %d round %d: the %d-element reply does not decode: %v", i, rd, elems, err)
					} else if v.Kind != '*' || len(v.Arr) != elems {
						bad = fmt.Sprintf("connection %d round %d: reply kind %c with %d elements instead of an array of %d", i, rd, v.Kind, len(v.Arr), elems)
					} else {
						for j := range v.Arr {
							if v.Arr[j].Kind != '$' || !bytes.Equal(v.Arr[j].Str, x.want[j]) {
								got := v.Arr[j].Str
								if len(got) > 24 {
									got = got[:24]
								}
								bad = fmt.Sprintf("connection %d round %d: element %d is %q..., stored %q...", i, rd, j, got, x.want[j][:16])
								break
							}
						}
					}
					if bad == "" {
						if m, err := x.c.RecvTimeout(60 * time.Second); err != nil || m.Kind != '$' || string(m.Str) != fmt.Sprintf("big-marker-%d-%d", i, rd) {
							bad = fmt.Sprintf("connection %d round %d: marker after the large reply missing or out of sync: %v %s", i, rd, err, m.String())
						}
					}
					mu.Lock()
					if bad != "" && firstBad == "" {
						firstBad = bad
					}
					mu.Unlock()
					if bad != "" {
						return
					}
				}
			}(i, x)
		}
		wg.Wait()
		for _, x := range cls {
			x.c.Close()
		}
		if len(cls) > 0 {
			cmds += len(cls) * rounds
			cmdNames["LRANGE(4 MB, 8 connections at once, late readers)"] += len(cls) * rounds
		}
		if firstBad != "" {
			divs = append(divs, seqrun.Div{Kind: "framing", Cmd: []string{"LRANGE big:<i> 0 -1", "PING marker"}, Want: "each connection decodes exactly the elements stored in its own list, then its marker", Got: firstBad,
				Detail: "TCP concurrent large replies against the real binary", Sig: "marker|concurrent large replies"})
		}
	}
	// many connections read short values of the same length at the same moment: each must decode its own bytes
	// (reply buffers or header tables shared between connections would hand one connection another one's payload)
	if srv != nil && !srv.Exited() {
		const conns, rounds = 8, 6000
		var wg sync.WaitGroup
		var mu sync.Mutex
		firstBad := ""
		total := 0
		for i := 0; i < conns; i++ {
			wg.Add(1)
			go func(i int) {
				defer wg.Done()
				c, err := respc.Dial(srv.Addr, 30*time.Second)
				if err != nil {
					return
				}
				defer c.Close()
				vals := []string{string([]byte{byte('A' + i), byte('a' + i)}), string([]byte{byte('0' + i)}), string([]byte{byte('A' + i), '\r', '\n', byte('a' + i)}), ""}
				for j, v := range vals {
					_, _ = c.Do("SET", fmt.Sprintf("short:%d:%d", i, j), v)
				}
				_, _ = c.Do("HSET", fmt.Sprintf("shorth:%d", i), "f", vals[0])
				n := 0
				for rd := 0; rd < rounds; rd++ {
					j := rd % len(vals)
					var v respc.Value
					var err error
					if rd%5 == 4 {
						v, err = c.Do("HGET", fmt.Sprintf("shorth:%d", i), "f")
						j = 0
					} else {
						v, err = c.Do("GET", fmt.Sprintf("short:%d:%d", i, j))
					}
					if err != nil {
						break
					}
					n++
					if v.Kind != '$' || v.Nil || string(v.Str) != vals[j] {
						mu.Lock()
						if firstBad == "" {
							firstBad = fmt.Sprintf("connection %d, read %d: decoded %s, stored %q", i, rd, v.String(), vals[j])
						}
						mu.Unlock()
						break
					}
				}
				mu.Lock()
				total += n
				mu.Unlock()
			}(i)
		}
		wg.Wait()
		cmds += total
		cmdNames["GET/HGET(1-4 byte values, 8 connections at once)"] += total
		if firstBad != "" {
			divs = append(divs, seqrun.Div{Kind: "framing", Cmd: []string{"GET short:<i>:<j>"}, Want: "each connection decodes the bytes stored under its own key", Got: firstBad,
				Detail: "TCP concurrent short replies against the real binary", Sig: "marker|concurrent short replies"})
		}
	}
	// a connection that has subscribed to a channel keeps sending commands with large array replies while two
	// publishers publish to that channel: pushes and replies share the socket, and every value on it must still be
	// either a whole push or a whole reply (a push must never land inside a reply)
	var quiet *respc.Client
	var quietSince time.Time
	defer func() {
		// a connection that received pushes and then nothing for a while still gets its replies: whatever the
		// server arranged on the socket for a push (a write deadline, say) must not outlive the push
		if quiet == nil {
			return
		}
		defer quiet.Close()
		if srv == nil || srv.Exited() {
			return
		}
		if d := 4*time.Second - time.Since(quietSince); d > 0 {
			time.Sleep(d)
		}
		for i := 0; i < 2; i++ {
			_ = quiet.Send(respc.Cmd("LLEN", "pushmix:list"))
			v, err := quiet.RecvTimeout(10 * time.Second)
			cmds++
			cmdNames["LLEN(on a subscribed connection, seconds after its last push)"]++
			if err != nil || v.Kind != ':' {
				got := v.String()
				if err != nil {
					got = err.Error()
				}
				divs = append(divs, seqrun.Div{Kind: "framing", Cmd: []string{"SUBSCRIBE pushmix:ch", "(pushes received)", fmt.Sprintf("(%.1f s without traffic)", time.Since(quietSince).Seconds()), "LLEN pushmix:list"}, Want: "one integer reply",
					Got: got, Detail: "TCP: a subscribed connection that is silent for a few seconds after its last push, then sends a command", Sig: "marker|no reply on a subscribed connection after a quiet spell"})
				return
			}
		}
	}()
	if srv != nil && !srv.Exited() {
		const elems, rounds = 3000, 60
		sub, err := respc.Dial(srv.Addr, 60*time.Second)
		if err == nil {
			args := [][]byte{[]byte("RPUSH"), []byte("pushmix:list")}
			var want [][]byte
			for j := 0; j < elems; j++ {
				e := []byte(fmt.Sprintf("el-%d\r\n", j))
				want = append(want, e)
				args = append(args, e)
			}
			_, _ = sub.DoB(args)
			_ = sub.Send(respc.Cmd("SUBSCRIBE", "pushmix:ch"))
			_, _ = sub.RecvTimeout(10 * time.Second) // the confirmation
			stop := make(chan struct{})
			var pwg sync.WaitGroup
			for p := 0; p < 2; p++ {
				pwg.Add(1)
				go func(p int) {
					defer pwg.Done()
					c, err := respc.Dial(srv.Addr, 30*time.Second)
					if err != nil {
						return
					}
					defer c.Close()
					for i := 0; ; i++ {
						select {
						case <-stop:
							return
						default:
						}
						if _, err := c.Do("PUBLISH", "pushmix:ch", fmt.Sprintf("push-%d-%d", p, i)); err != nil {
							return
						}
					}
				}(p)
			}
			bad := ""
			pushes, replies := 0, 0
			for rd := 0; rd < rounds && bad == ""; rd++ {
				_ = sub.Send(respc.Cmd("LRANGE", "pushmix:list", "0", "-1"))
				for bad == "" {
					v, err := sub.RecvTimeout(30 * time.Second)
					if err != nil {
						bad = fmt.Sprintf("round %d: the stream of pushes and replies does not decode: %v", rd, err)
						break
					}
					if v.Kind == '*' && len(v.Arr) == 3 && string(v.Arr[0].Str) == "message" {
						pushes++
						if string(v.Arr[1].Str) != "pushmix:ch" || !strings.HasPrefix(string(v.Arr[2].Str), "push-") {
							bad = fmt.Sprintf("round %d: damaged push %s", rd, v.String())
						}
						continue
					}
					if v.Kind != '*' || len(v.Arr) != elems {
						bad = fmt.Sprintf("round %d: a value that is neither a push nor the %d-element reply: kind %c, %d elements", rd, elems, v.Kind, len(v.Arr))
						break
					}
					for j := range v.Arr {
						if !bytes.Equal(v.Arr[j].Str, want[j]) {
							bad = fmt.Sprintf("round %d: element %d of the reply is %q, stored %q", rd, j, v.Arr[j].Str, want[j])
							break
						}
					}
					replies++
					break
				}
			}
			close(stop)
			pwg.Wait()
			// the connection stays open and silent: it is asked again at the end of the phase (below)
			for {
				if _, err := sub.RecvTimeout(300 * time.Millisecond); err != nil {
					break
				}
			}
			quiet, quietSince = sub, time.Now()
			cmds += replies
			cmdNames["LRANGE(3000 elements, on a subscribed connection, pushes arriving)"] += replies
			cmdNames["(pushes decoded between those replies)"] += pushes
			if bad != "" {
				divs = append(divs, seqrun.Div{Kind: "framing", Cmd: []string{"SUBSCRIBE pushmix:ch", "LRANGE pushmix:list 0 -1 (repeated)", "PUBLISH pushmix:ch ... (two other connections)"}, Want: "every value on the socket is a whole push or a whole reply",
					Got: bad, Detail: "TCP large replies on a subscribed connection against the real binary", Sig: "marker|push inside a reply"})
			}
		}
	}
	// slow reader: replies larger than the socket buffers are left unread for a while; afterwards the
	// stream must still be exactly one well-formed value per command (no truncated or dropped reply)
	if srv != nil && !srv.Exited() {
		pause := time.Duration(o.Pick(7, 35)) * time.Second
		c, err := respc.Dial(srv.Addr, 120*time.Second)
		if err == nil {
			big := bytes.Repeat([]byte("0123456789abcdef"), 1<<19) // 8 MiB
			if v, err := c.DoB([][]byte{[]byte("SET"), []byte("slow:big"), big}); err == nil && v.Kind == '+' {
				var buf bytes.Buffer
				const gets = 4
				for i := 0; i < gets; i++ {
					buf.Write(respc.EncodeCommand(respc.Cmd("GET", "slow:big")))
				}
				buf.Write(respc.EncodeCommand(respc.Cmd("PING", "slow-marker")))
				_ = c.SendRaw(buf.Bytes())
				time.Sleep(pause)
				bad := ""
				for i := 0; i < gets && bad == ""; i++ {
					v, err := c.RecvTimeout(120 * time.Second)
					if err != nil {
						bad = fmt.Sprintf("reply %d of %d GETs of an 8 MiB value does not decode after the reader paused %s: %v", i+1, gets, pause, err)
					} else if v.Kind != '$' || !bytes.Equal(v.Str, big) {
						bad = fmt.Sprintf("reply %d differs from the stored 8 MiB value (kind %c, %d bytes)", i+1, v.Kind, len(v.Str))
					}
				}
				if bad == "" {
					if m, err := c.RecvTimeout(120 * time.Second); err != nil || m.Kind != '$' || string(m.Str) != "slow-marker" {
						bad = fmt.Sprintf("marker after the large replies missing or out of sync: %v %s", err, m.String())
					}
				}
				if bad != "" {
					divs = append(divs, seqrun.Div{Kind: "framing", Cmd: []string{"GET slow:big x4", "PING slow-marker"}, Want: "one complete bulk reply per GET, then the marker", Got: bad,
						Detail: "TCP slow-reader scenario against the real binary", Sig: "marker|slow-reader"})
				}
				cmds += gets + 1
				cmdNames["GET(8MiB,slow reader)"] += gets
			}
			c.Close()
		}
	}
	return done, cmds, cmdNames, divs, ""
}
