//go:build verif

// Command c04 decides C04 (no client input can crash, wedge or hang the
// server): (1) bounded-exhaustive in-process sweep of every registered
// command x arity x adversarial argument alphabet x key of every type, each
// call under recover, followed by a try-lock sweep of all stripes; batches
// run in child processes with journals, so panics in server-started
// goroutines and non-terminating commands are pinned to their input;
// (2) sampled inputs against the real server binary over TCP with liveness
// probes on the same connection, the same key, every stripe and a fresh
// connection.
package main

import (
	"encoding/json"
	"flag"
	"fmt"
	"math/rand"
	"os"
	"os/exec"
	"path/filepath"
	"runtime"
	"sort"
	"strconv"
	"strings"
	"sync"
	"sync/atomic"
	"time"

	"rgverif/internal/cluster"
	"rgverif/internal/common"
	"rgverif/internal/evidence"
	"rgverif/internal/findings"
	"rgverif/internal/inproc"
	"rgverif/internal/procs"
	"rgverif/internal/respc"
	"rgverif/internal/seqrun"
	"rgverif/internal/super"
)

const prop = "C04"

var (
	fWorker  = flag.Bool("worker", false, "run as batch worker")
	fBatch   = flag.Int("batch", 0, "batch index")
	fBatches = flag.Int("batches", 1, "number of batches")
	fOut     = flag.String("out", "", "worker result file")
	fJournal = flag.String("journal", "", "worker journal file")
	fSkip    = flag.Int("skip", 0, "number of this batch's inputs to skip (resume after a hang)")
	fConc    = flag.Bool("conc", false, "run as the concurrent-clients worker")
)

var sigMu sync.Mutex

var alphabet = []string{"", "0", "1", "-1", "2", "a", "k", "*", "(1", "nx", "xx", "ch", "incr", "ex", "px",
	"limit", "byscore", "withscores", "count", "rank", "maxlen", "minid", "left", "right",
	"~", "=", "5-1", "9223372036854775807", "-9223372036854775808", "1e400", "nan", "\x00", "get", "9223372036854775808", "18446744073709551615",
	// large but accepted magnitudes (a count or a size that is validated and then used to allocate)
	"4611686018427387903", "17592186044416"}

// per-command option words used beyond arity 3
var optionWords = map[string][]string{
	"set":        {"nx", "xx", "get", "ex", "px", "exat", "keepttl", "10", "0"},
	"zadd":       {"nx", "xx", "gt", "lt", "ch", "incr", "1", "m", "nan"},
	"zrange":     {"rev", "withscores", "byscore", "bylex", "limit", "0", "-1", "(1", "a"},
	"xadd":       {"nomkstream", "maxlen", "minid", "limit", "~", "=", "*", "5-1", "f", "0"},
	"xrange":     {"count", "-", "+", "5", "(5-1", "0"},
	"lpos":       {"rank", "count", "maxlen", "0", "-1", "1"},
	"hrandfield": {"withvalues", "-1", "0", "2"},
	"expire":     {"nx", "xx", "gt", "lt", "0", "100000"},
	"lmove":      {"left", "right", "kl", "k2"},
}

// commands whose first argument is not a key name get the whole alphabet in that position
var nonKeyFirst = map[string]bool{"select": true, "ping": true, "keys": true, "rconf": true, "member": true, "publish": true, "subscribe": true}

// patterns aimed at the glob matcher's index arithmetic (the keyspace holds keys of several lengths)
var globHostile = []string{"*\\", "h*\\", "**\\", "?*\\", "\\", "k\\", "[", "[a-", "[^", "*[", "k[", "[\\", "[]", "[a-]", "[]-a]", "*?", "*??*", "*[a-", "k*[^", "?\\", "*\\\\", "[[]", "*]", "*k*\\"}

var common5 = []string{"", "0", "-1", "a", "9223372036854775807"}

// keys of every type present in the preset keyspace
var presetKeys = []string{"nokey", "ks", "kl", "kset", "kh", "kz", "kx", "kxe"}

// typed follow-up probes (a write, then a read) for the preset keys: a command may leave a value unusable without
// holding any stripe (a lock inside the value, a broken link), which only the next command on that value meets
var typedProbes = map[string][][]string{
	"ks":   {{"APPEND", "ks", "1"}, {"GET", "ks"}},
	"kl":   {{"RPUSH", "kl", "p"}, {"LRANGE", "kl", "0", "-1"}, {"LPOP", "kl"}},
	"kset": {{"SADD", "kset", "p"}, {"SMEMBERS", "kset"}},
	"kh":   {{"HSET", "kh", "p", "1"}, {"HGETALL", "kh"}},
	"kz":   {{"ZADD", "kz", "3", "p"}, {"ZRANGE", "kz", "0", "-1"}},
	"kx":   {{"XADD", "kx", "*", "p", "1"}, {"XRANGE", "kx", "-", "+"}},
	"kxe":  {{"XADD", "kxe", "*", "p", "1"}, {"XRANGE", "kxe", "-", "+"}},
}

var preset = [][]string{
	{"SET", "ks", "10"},
	{"RPUSH", "kl", "a", "b", "a"},
	{"SADD", "kset", "a", "b"},
	{"HSET", "kh", "f", "1", "g", "x"},
	{"ZADD", "kz", "1", "a", "1", "b", "2", "c"},
	{"XADD", "kx", "5-1", "f", "v"},
	{"XADD", "kxe", "MAXLEN", "0", "5-1", "f", "v"}, // a stream that exists and holds nothing
}

func skip(name string) bool {
	return strings.HasPrefix(name, "verif.")
}

// sanitize rewrites inputs that block by definition or whose reference output is huge.
func sanitize(name string, argv []string) []string {
	if name == "blpop" || name == "brpop" {
		if n := len(argv); n >= 2 {
			if f, err := strconv.ParseFloat(argv[n-1], 64); err == nil && (f == 0 || f > 1) {
				argv[n-1] = "1"
			}
		}
	}
	// outputs the reference legitimately makes larger than 10^5 elements are not generated
	if name == "srandmember" || name == "hrandfield" {
		if len(argv) >= 3 {
			if n, err := strconv.ParseInt(argv[2], 10, 64); err == nil && (n < -100000) && n > -4611686018427387904 {
				argv[2] = "-1000"
			}
		}
	}
	return argv
}

// enumerate calls f for every input of the command inside the box.
// quick:    key(7) x alphabet(33) x 20 x 5 [x 5 for option-heavy commands]
// thorough: key(7) x alphabet(33) x alphabet(33) x tail(<=19) x 8 [x 8 for option-heavy commands]
func enumerate(name string, thorough bool, f func(argv []string)) {
	_, heavy := optionWords[name]
	maxAr := 4
	if thorough {
		maxAr = 5
	}
	if heavy {
		maxAr++
	}
	tail := append(append([]string{}, optionWords[name]...), common5...)
	var rec func(argv []string, depth int)
	rec = func(argv []string, depth int) {
		f(argv)
		if depth >= maxAr {
			return
		}
		var choices []string
		switch {
		case depth == 0:
			choices = presetKeys
			if nonKeyFirst[name] {
				choices = append(append([]string{}, presetKeys...), alphabet...)
			}
			if name == "keys" {
				choices = append(choices, globHostile...)
			}
		case depth == 1 || (thorough && depth == 2):
			choices = alphabet
		case depth == 2:
			choices = append(append([]string{}, alphabet[:6]...), tail...)
		case depth == 3 && thorough:
			choices = tail
		default:
			choices = tail
			lim := 5
			if thorough {
				lim = 8
			}
			if len(choices) > lim {
				choices = choices[:lim]
			}
		}
		for _, c := range choices {
			rec(append(append([]string{}, argv...), c), depth+1)
		}
	}
	rec([]string{name}, 0)
}

type witness struct {
	Kind   string   `json:"kind"` // panic | wedge | hang | crash | tcp-dead | tcp-hang
	Argv   []string `json:"argv"`
	Detail string   `json:"detail"`
	Sig    string   `json:"sig"`
}

type workerOut struct {
	Inputs   int            `json:"inputs"`
	PerCmd   map[string]int `json:"per_cmd"`
	Kinds    map[string]int `json:"kinds"` // command|reply kind
	Wits     []witness      `json:"wits"`
	Blocking int            `json:"blocking"`
	Done     int            `json:"done"`    // inputs of this batch consumed so far (incl. skipped)
	HungAt   int            `json:"hung_at"` // >0: the input with this ordinal never returned; resume after it
	// inputs not explored because an earlier input of the same command hung in this batch
	SkippedAfterHang int `json:"skipped_after_hang"`
	// inputs run against keys that are dead but still stored
	DeadState     int `json:"dead_state"`
	DeadlineState int `json:"deadline_state"`
}

func newInst() *inproc.Inst {
	in := inproc.New()
	for _, c := range preset {
		in.Exec(respc.Cmd(c...), nil)
	}
	return in
}

func worker(o *common.Opts) {
	inproc.Setup(4, 1, filepath.Join(o.Work, "log"))
	j, _ := os.OpenFile(*fJournal, os.O_CREATE|os.O_WRONLY|os.O_APPEND, 0o644)
	out := workerOut{PerCmd: map[string]int{}, Kinds: map[string]int{}}
	seen := map[string]bool{}
	hungCmds := map[string]bool{}
	names := inproc.Commands()
	sort.Strings(names)
	n := 0
	mine := 0
	for _, name := range names {
		if skip(name) {
			continue
		}
		enumerate(name, o.Thorough(), func(argv []string) {
			n++
			if n%*fBatches != *fBatch {
				return
			}
			argv = sanitize(name, append([]string{}, argv...))
			if (name == "blpop" || name == "brpop") && n%(*fBatches*23) != *fBatch {
				return // blocking pops cost a wall-clock second when they time out: sampled
			}
			mine++
			out.Done = mine
			if mine <= *fSkip {
				return
			}
			if hungCmds[name] {
				out.SkippedAfterHang++
				return
			}
			cmd := respc.Cmd(argv...)
			fmt.Fprintf(j, "%s\n", strings.Join(seqrun.QuoteFull(cmd), " "))
			in := newInst()
			// every fifth input meets the preset keys dead but still stored (deadline passed, timer not fired yet)
			dead := mine%5 == 0
			withDeadlines := false
			if dead {
				in.ForceDead(presetKeys...)
				out.DeadState++
			} else if mine%7 == 3 || mine%7 == 5 {
				// every preset key carries a deadline - one that lies centuries ahead, or an ordinary one -, so the
				// command and the follow-ups run through the paths that replace, keep or drop an existing deadline
				ttl := "10000000000"
				if mine%7 == 5 {
					// a few seconds, not hours: the runtime keeps a timer until it fires even when the goroutine waiting
					// for it was cancelled, and a sweep of 10^8 inputs would hold 10^8 of them (the thorough tier's
					// workers were killed for their memory twice before this was understood)
					ttl = "5"
				}
				for _, k := range presetKeys[1:] {
					in.Exec(respc.Cmd("EXPIRE", k, ttl), nil)
				}
				out.DeadlineState++
				withDeadlines = true
			}
			var res inproc.Result
			done := make(chan struct{})
			began := time.Now()
			probePanic := ""
			stage := "the command"
			go func() {
				if name == "subscribe" {
					res = in.Exec(cmd, newPipeConn())
				} else {
					res = in.Exec(cmd, nil)
				}
				// the next commands on the same value (under the same watchdog)
				if res.Panic == "" && len(argv) > 1 {
					stage = "a follow-up command on the same key"
					for _, pr := range typedProbes[argv[1]] {
						if r := in.Exec(respc.Cmd(pr...), nil); r.Panic != "" && probePanic == "" {
							probePanic = strings.Join(pr, " ") + ": " + r.Panic
						}
					}
				}
				if withDeadlines && res.Panic == "" {
					// every deadline set above has a goroutine waiting for it: deleting the keys ends them (one
					// instance per input - they would pile up by the million otherwise)
					if r := in.Exec(respc.Cmd(append([]string{"DEL"}, presetKeys[1:]...)...), nil); r.Panic != "" && probePanic == "" {
						probePanic = "DEL of the preset keys: " + r.Panic
					}
				}
				close(done)
			}()
			select {
			case <-done:
			case <-time.After(30 * time.Second):
				// positive evidence: the stack of the goroutine still inside the executor
				buf := make([]byte, 1<<20)
				buf = buf[:runtime.Stack(buf, true)]
				stack := ""
				for _, g := range strings.Split(string(buf), "\n\n") {
					if strings.Contains(g, "inproc.(*Inst).Exec") {
						stack = inproc.TopFrames(g, 8)
					}
				}
				detail := stage + " did not return within 30s; its goroutine:\n" + stack
				if dead {
					detail = "(preset keys dead but still stored) " + detail
				}
				out.Wits = append(out.Wits, witness{Kind: "hang", Argv: seqrun.QuoteFull(cmd), Detail: detail, Sig: "hang|" + strings.ToUpper(name)})
				// every input runs on its own database, so the stuck goroutine is simply left behind; the remaining
				// inputs of this command in this batch are not explored (the violation is already established)
				hungCmds[name] = true
				out.SkippedAfterHang++
				return
			}
			out.Inputs++
			out.PerCmd[name]++
			if name == "blpop" || name == "brpop" {
				out.Blocking++
				// a blocking pop may wait, but not beyond its timeout (at most 1 s here; 5 s of head-room for a loaded machine)
				if el := time.Since(began); el > 6*time.Second && !seen["late|"+name] {
					seen["late|"+name] = true
					out.Wits = append(out.Wits, witness{Kind: "hang", Argv: seqrun.QuoteFull(cmd), Detail: fmt.Sprintf("blocking pop with a timeout of at most 1 s answered after %.1f s", el.Seconds()), Sig: "late|" + strings.ToUpper(name)})
				}
			}
			shape := strconv.Itoa(len(argv))
			if res.Panic != "" {
				top := strings.Split(res.Panic, "\n")
				frame := ""
				if len(top) > 1 && len(strings.Fields(top[1])) > 0 {
					frame = strings.Fields(top[1])[0]
				}
				sig := "panic|" + strings.ToUpper(name) + "|" + frame
				if !seen[sig] {
					seen[sig] = true
					out.Wits = append(out.Wits, witness{Kind: "panic", Argv: seqrun.QuoteFull(cmd), Detail: res.Panic, Sig: sig})
				}
				in.Stop()
				return
			}
			out.Kinds[name+"|"+res.V.KindName()]++
			if held := in.Held(); len(held) > 0 {
				sig := "wedge|" + strings.ToUpper(name) + "|" + shape
				if !seen[sig] {
					seen[sig] = true
					out.Wits = append(out.Wits, witness{Kind: "wedge", Argv: seqrun.QuoteFull(cmd), Detail: fmt.Sprintf("stripes held at quiescence: %v", held), Sig: sig})
				}
			}
			if probePanic != "" {
				sig := "probe-panic|" + strings.ToUpper(name)
				if !seen[sig] {
					seen[sig] = true
					out.Wits = append(out.Wits, witness{Kind: "panic", Argv: seqrun.QuoteFull(cmd), Detail: "follow-up command on the same key panicked: " + probePanic, Sig: sig})
				}
			}
			// follow-up probes on the same key and on another key must still work
			if len(argv) > 1 {
				p1 := in.Exec(respc.Cmd("TYPE", argv[1]), nil)
				p2 := in.Exec(respc.Cmd("SET", "probe:other", "1"), nil)
				if p1.Panic != "" || p2.Panic != "" {
					sig := "probe-panic|" + strings.ToUpper(name)
					if !seen[sig] {
						seen[sig] = true
						out.Wits = append(out.Wits, witness{Kind: "panic", Argv: seqrun.QuoteFull(cmd), Detail: "follow-up probe panicked: " + p1.Panic + p2.Panic, Sig: sig})
					}
				}
			}
			in.Stop()
		})
	}
	// give TTL timers started by the inputs the chance to fire (a panic there kills the process)
	time.Sleep(1200 * time.Millisecond)
	b, _ := json.Marshal(out)
	_ = os.WriteFile(*fOut, b, 0o644)
}

// tcpVehicle drives sampled inputs against the real binary.
func tcpVehicle(o *common.Opts, nInputs int, report func(witness)) (sent int, servers int, note string) {
	if procs.Bin(false) == "" {
		return 0, 0, "server binary not available"
	}
	r := rand.New(rand.NewSource(o.Seed))
	names := inproc.Commands()
	sort.Strings(names)
	var pool [][]string
	for _, name := range names {
		if skip(name) || name == "subscribe" {
			continue
		}
		var all [][]string
		enumerate(name, false, func(argv []string) { all = append(all, append([]string{}, argv...)) })
		per := nInputs / len(names)
		if per < 4 {
			per = 4
		}
		if name == "blpop" || name == "brpop" {
			per = 3
		}
		for i := 0; i < per && len(all) > 0; i++ {
			pool = append(pool, sanitize(name, all[r.Intn(len(all))]))
		}
	}
	r.Shuffle(len(pool), func(i, j int) { pool[i], pool[j] = pool[j], pool[i] })
	batch := 200
	for start := 0; start < len(pool); start += batch {
		end := start + batch
		if end > len(pool) {
			end = len(pool)
		}
		port := procs.FreePorts(1)[0]
		dir := filepath.Join(o.Work, fmt.Sprintf("srv-%d", start))
		srv, err := procs.Start(procs.Opts{Dir: dir, Port: port, ShardNum: 4, Databases: 1})
		if err != nil {
			if srv != nil && srv.BindError() {
				continue
			}
			return sent, servers, "server start failed: " + err.Error()
		}
		servers++
		c, err := respc.Dial(srv.Addr, 10*time.Second)
		if err != nil {
			srv.Kill()
			return sent, servers, "dial failed"
		}
		for _, p := range preset {
			_, _ = c.Do(p...)
		}
		for _, argv := range pool[start:end] {
			name := argv[0]
			sent++
			_, err := c.Do(argv...)
			dead := func(kind, detail string) {
				report(witness{Kind: kind, Argv: seqrun.QuoteFull(respc.Cmd(argv...)), Detail: detail, Sig: kind + "|" + strings.ToUpper(name)})
			}
			if err != nil {
				if srv.WaitExit(500 * time.Millisecond) {
					dead("tcp-dead", "server process exited: "+srv.CrashLine()+"\n"+tailOf(srv.Output(), 1500))
					break
				}
				if ne, ok := err.(interface{ Timeout() bool }); ok && ne.Timeout() {
					dump := srv.Dump()
					dead("tcp-hang", "no reply within 10s; goroutine dump:\n"+inproc.TopFrames(dump, 10))
					break
				}
				c.Close()
				c, err = respc.Dial(srv.Addr, 10*time.Second)
				if err != nil {
					dead("tcp-dead", "cannot reconnect: "+err.Error())
					break
				}
				continue
			}
			// same connection still answers
			if v, err := c.Do("PING"); err != nil || string(v.Str) != "PONG" {
				if srv.WaitExit(500 * time.Millisecond) {
					dead("tcp-dead", "server process exited: "+srv.CrashLine())
				} else {
					dump := srv.Dump()
					dead("tcp-hang", "PING after the input not answered; dump:\n"+inproc.TopFrames(dump, 10))
				}
				break
			}
			// fresh connection: same key and one key per stripe still writable
			c2, err := respc.Dial(srv.Addr, 10*time.Second)
			if err != nil {
				dead("tcp-dead", "fresh connection refused: "+err.Error())
				break
			}
			ok := true
			probes := [][]string{{"EXISTS", "nokey"}}
			if len(argv) > 1 {
				probes = append(probes, []string{"TYPE", argv[1]})
			}
			for i := 0; i < 8; i++ {
				probes = append(probes, []string{"SET", "stripe-probe-" + strconv.Itoa(i), "1"})
			}
			for _, pr := range probes {
				if _, err := c2.Do(pr...); err != nil {
					ok = false
					if srv.WaitExit(500 * time.Millisecond) {
						dead("tcp-dead", "server exited during probes: "+srv.CrashLine())
					} else {
						dump := srv.Dump()
						dead("tcp-hang", fmt.Sprintf("probe %v not answered within 10s; dump:\n%s", pr, inproc.TopFrames(dump, 10)))
					}
					break
				}
			}
			c2.Close()
			if !ok {
				break
			}
		}
		c.Close()
		if !srv.Exited() {
			// one TTL second for timers started by the inputs
			time.Sleep(1100 * time.Millisecond)
			if srv.Exited() {
				report(witness{Kind: "tcp-dead", Detail: "server exited after the batch (timer goroutine?): " + srv.CrashLine() + "\n" + tailOf(srv.Output(), 1500), Sig: "tcp-dead|after-batch"})
			}
		}
		srv.Kill()
		_ = os.RemoveAll(dir)
	}
	return sent, servers, ""
}

// rawInputs are byte strings no argv encodes: the empty command, the empty command name, null elements.
var rawInputs = []string{"*0\r\n", "*0\r\n*1\r\n$4\r\nPING\r\n", "*1\r\n$0\r\n\r\n", "*1\r\n$-1\r\n", "*-1\r\n", "*2\r\n$3\r\nGET\r\n$-1\r\n",
	"*1\r\n*0\r\n", "$4\r\nPING\r\n", "+PING\r\n", ":1\r\n", "-ERR x\r\n", "PING\r\n", "\r\n", "*1\r\n$1\r\n \r\n", "*2\r\n$0\r\n\r\n$0\r\n\r\n"}

// clusterRconf are membership commands that must not change the membership of a one-node cluster (malformed, or
// naming no member), so the node has to keep serving after each of them.
var clusterRconf = [][]string{{"rconf"}, {"rconf", "add"}, {"rconf", "add", "x"}, {"rconf", "add", "x", "y"}, {"rconf", "add", "-1", "http://127.0.0.1:1"},
	{"rconf", "add", "18446744073709551616", "u"}, {"rconf", "bogus", "1"}, {"rconf", "delete", "x"}, {"rconf", "delete", ""}, {"rconf", "delete", "-1"},
	{"RCONF", "DELETE", "1e3"}, {"rconf", "update"}, {"rconf", "update", "x"}, {"member"}, {"member", "list"}, {"MEMBER", "LIST", "x"}, {"member", "x"}, {"member", ""}}

// clusterVehicle drives sampled inputs through one-node clusters (HandleCluster, the command filter, the proposal
// round trip and the apply loop are a second connection loop with its own failure modes): after every input the
// node process must be alive, the same connection (when the input is a well-formed command) and a fresh connection
// must get answers, and a write must still commit.
func clusterVehicle(o *common.Opts, nInputs int, report func(witness)) (sent int, nodes int, note string) {
	if procs.Bin(false) == "" {
		return 0, 0, "server binary not available"
	}
	r := rand.New(rand.NewSource(o.Seed + 77))
	names := inproc.Commands()
	sort.Strings(names)
	type input struct {
		argv []string
		raw  string
	}
	var pool []input
	for _, name := range names {
		if skip(name) || name == "rconf" {
			continue
		}
		var all [][]string
		enumerate(name, false, func(argv []string) { all = append(all, append([]string{}, argv...)) })
		per := nInputs / len(names)
		if per < 3 {
			per = 3
		}
		if name == "blpop" || name == "brpop" {
			per = 2
		}
		for i := 0; i < per && len(all) > 0; i++ {
			pool = append(pool, input{argv: sanitize(name, all[r.Intn(len(all))])})
		}
	}
	r.Shuffle(len(pool), func(i, j int) { pool[i], pool[j] = pool[j], pool[i] })
	for _, a := range clusterRconf {
		pool = append(pool, input{argv: a})
	}
	for _, raw := range rawInputs {
		pool = append(pool, input{raw: raw})
	}
	const lanes = 4
	var mu sync.Mutex
	var wg sync.WaitGroup
	notes := map[string]bool{}
	for lane := 0; lane < lanes; lane++ {
		wg.Add(1)
		go func(lane int) {
			defer wg.Done()
			var mine []input
			for i := lane; i < len(pool); i += lanes {
				mine = append(mine, pool[i])
			}
			for len(mine) > 0 {
				dir := filepath.Join(o.Work, fmt.Sprintf("cl-%d-%d", lane, len(mine)))
				cl, err := cluster.New(dir, 1, false, nil)
				if err != nil {
					mu.Lock()
					notes["cluster layout failed: "+err.Error()] = true
					mu.Unlock()
					return
				}
				if err := cl.StartAll(); err != nil || !cl.WaitAllWritable(90*time.Second) {
					cl.Stop()
					_ = os.RemoveAll(dir)
					mu.Lock()
					notes["one-node cluster did not become writable"] = true
					mu.Unlock()
					return
				}
				mu.Lock()
				nodes++
				mu.Unlock()
				nd := cl.Nodes[0]
				c, err := respc.Dial(nd.Addr(), 10*time.Second)
				if err != nil {
					cl.Stop()
					_ = os.RemoveAll(dir)
					return
				}
				for _, p := range preset {
					_, _ = c.Do(p...)
				}
				consumed := 0
				for _, in := range mine {
					consumed++
					mu.Lock()
					sent++
					mu.Unlock()
					var shown []string
					name := "RAW"
					if in.raw != "" {
						shown = []string{strconv.Quote(in.raw)}
					} else {
						shown = seqrun.QuoteFull(respc.Cmd(in.argv...))
						name = strings.ToUpper(in.argv[0])
					}
					dead := func(kind, detail string) {
						report(witness{Kind: kind, Argv: shown, Detail: "one-node cluster: " + detail, Sig: kind + "|cluster|" + name})
					}
					gone := func() bool { return nd.Srv.WaitExit(500 * time.Millisecond) }
					stop := false
					if in.raw != "" {
						// damaged or unusual bytes on their own connection: any reply, an error or a close is fine
						rc, err := respc.Dial(nd.Addr(), 10*time.Second)
						if err == nil {
							_ = rc.SendRaw([]byte(in.raw))
							_, _ = rc.RecvTimeout(300 * time.Millisecond)
							rc.Close()
						}
					} else {
						_, err := c.Do(in.argv...)
						if err != nil {
							if gone() {
								dead("tcp-dead", "node process exited: "+nd.Srv.CrashBlock(24))
								stop = true
							} else if ne, ok := err.(interface{ Timeout() bool }); ok && ne.Timeout() {
								dead("tcp-hang", "no reply within 10s; goroutine dump:\n"+inproc.TopFrames(nd.Srv.Dump(), 10))
								stop = true
							} else {
								c.Close()
								if c, err = respc.Dial(nd.Addr(), 10*time.Second); err != nil {
									dead("tcp-dead", "cannot reconnect: "+err.Error())
									stop = true
								}
							}
						} else if v, err := c.Do("PING"); err != nil || string(v.Str) != "PONG" {
							if gone() {
								dead("tcp-dead", "node process exited: "+nd.Srv.CrashBlock(24))
							} else {
								dead("tcp-hang", "PING after the input not answered on the same connection; dump:\n"+inproc.TopFrames(nd.Srv.Dump(), 10))
							}
							stop = true
						}
					}
					if !stop {
						// fresh connection: the node answers and a write still commits
						c2, err := respc.Dial(nd.Addr(), 10*time.Second)
						if err != nil {
							if gone() {
								dead("tcp-dead", "node process exited: "+nd.Srv.CrashBlock(24))
							} else {
								dead("tcp-dead", "fresh connection refused: "+err.Error())
							}
							stop = true
						} else {
							for _, pr := range [][]string{{"EXISTS", "nokey"}, {"SET", "probe-" + strconv.Itoa(consumed%8), "1"}} {
								if _, err := c2.Do(pr...); err != nil {
									if gone() {
										dead("tcp-dead", "node process exited: "+nd.Srv.CrashBlock(24))
									} else {
										dead("tcp-hang", fmt.Sprintf("probe %v on a fresh connection not answered within 10s; dump:\n%s", pr, inproc.TopFrames(nd.Srv.Dump(), 10)))
									}
									stop = true
									break
								}
							}
							c2.Close()
						}
					}
					if stop {
						break
					}
				}
				mine = mine[consumed:]
				c.Close()
				cl.Stop()
				_ = os.RemoveAll(dir)
			}
		}(lane)
	}
	wg.Wait()
	for n := range notes {
		note += n + "; "
	}
	return sent, nodes, note
}

// hostileMembership are membership commands with arguments no administrator would send on purpose but any client can:
// a peer address that is not a URL, ids that name nobody, an id that is already a member. A three-node cluster keeps
// its quorum whatever they do to the configuration (one phantom member more still leaves 3 of 4), so after each of
// them every node has to be alive and has to commit a write.
var hostileMembership = [][]string{
	{"rconf", "add", "4", "garbage"}, {"rconf", "add", "4", "http://127.0.0.1:1\r\nx"}, {"rconf", "add", "4", "127.0.0.1:9999"}, {"rconf", "add", "4", "ftp://127.0.0.1:21"},
	{"rconf", "add", "4", "http://127.0.0.1"}, {"rconf", "add", "4", "http://[::1"}, {"rconf", "add", "4", ""}, {"rconf", "add", "0", "http://127.0.0.1:1"},
	{"rconf", "add", "1", "http://127.0.0.1:1"}, {"rconf", "delete", "99"}, {"rconf", "delete", "0"}, {"rconf", "update", "1", "x"}, {"rconf", "update", "9", "http://127.0.0.1:1"},
	{"rconf", "add", "18446744073709551615", "http://127.0.0.1:1"},
}

func membershipVehicle(o *common.Opts, n int, report func(witness)) (done int, note string) {
	if procs.Bin(false) == "" {
		return 0, "server binary not available"
	}
	r := rand.New(rand.NewSource(o.Seed + 991))
	idx := r.Perm(len(hostileMembership))
	if n > len(idx) {
		n = len(idx)
	}
	// the class "peer address that is not a URL" is in every run
	picks := [][]string{hostileMembership[r.Intn(6)]}
	for _, i := range idx {
		if len(picks) >= n {
			break
		}
		if i >= 6 || n == len(hostileMembership) {
			dup := false
			for _, p := range picks {
				if strings.Join(p, " ") == strings.Join(hostileMembership[i], " ") {
					dup = true
				}
			}
			if !dup {
				picks = append(picks, hostileMembership[i])
			}
		}
	}
	var mu sync.Mutex
	var wg sync.WaitGroup
	sem := make(chan struct{}, 4)
	notes := map[string]bool{}
	for k, argv := range picks {
		wg.Add(1)
		go func(k int, argv []string) {
			defer wg.Done()
			sem <- struct{}{}
			defer func() { <-sem }()
			shown := seqrun.QuoteFull(respc.Cmd(argv...))
			for try := 0; try < 3; try++ {
				dir := filepath.Join(o.Work, fmt.Sprintf("mb-%d-%d", k, try))
				cl, err := cluster.New(dir, 3, false, nil)
				if err != nil {
					continue
				}
				if err := cl.StartAll(); err != nil || !cl.WaitAllWritable(90*time.Second) {
					cl.Stop()
					_ = os.RemoveAll(dir)
					if try == 2 {
						mu.Lock()
						notes["three-node cluster did not become writable"] = true
						mu.Unlock()
					}
					continue
				}
				c, err := respc.Dial(cl.Nodes[k%3].Addr(), 10*time.Second)
				if err == nil {
					_, _ = c.Do(argv...)
					c.Close()
				}
				time.Sleep(1500 * time.Millisecond)
				bad := ""
				for _, nd := range cl.Nodes {
					if nd.Srv.WaitExit(10 * time.Millisecond) {
						bad = fmt.Sprintf("node %d exited: %s", nd.ID, nd.Srv.CrashBlock(16))
						break
					}
				}
				if bad == "" {
					for _, nd := range cl.Nodes {
						if !cl.WaitWritable(nd.ID, 30*time.Second) {
							if nd.Srv.WaitExit(10 * time.Millisecond) {
								bad = fmt.Sprintf("node %d exited: %s", nd.ID, nd.Srv.CrashBlock(16))
							} else {
								bad = fmt.Sprintf("node %d is alive but no write commits through it within 30 s; its goroutines:\n%s", nd.ID, inproc.TopFrames(nd.Srv.Dump(), 10))
							}
							break
						}
					}
				}
				if bad != "" {
					kind := "tcp-dead"
					if strings.Contains(bad, "is alive but") {
						kind = "tcp-hang"
					}
					report(witness{Kind: kind, Argv: shown, Detail: "three-node cluster, command sent to node " + strconv.Itoa(k%3+1) + ": " + bad, Sig: kind + "|membership|" + strings.ToUpper(strings.Join(argv[:2], " ")) + "|" + seqrun.Generalise(firstLineOf(bad))})
				}
				cl.Stop()
				_ = os.RemoveAll(dir)
				mu.Lock()
				done++
				mu.Unlock()
				return
			}
		}(k, argv)
	}
	wg.Wait()
	for n := range notes {
		note += n + "; "
	}
	return done, note
}

func firstLineOf(s string) string {
	if i := strings.IndexByte(s, '\n'); i > 0 {
		return s[:i]
	}
	return s
}

func tailOf(s string, n int) string {
	if len(s) > n {
		return s[len(s)-n:]
	}
	return s
}

// ---- concurrent clients on one keyspace ------------------------------------------------------------------------------
//
// None of the commands sampled here blocks by definition, so with several clients sending them at once every one of
// them still has to return. What a single client can never show: a command that takes a lock twice (harmless until a
// writer queues up in between), two commands that take two locks in opposite orders, a value left half-written by an
// interrupted neighbour.

type concOut struct {
	Clients  int      `json:"clients"`
	Commands int64    `json:"commands"`
	Panics   []string `json:"panics,omitempty"`
	Hang     string   `json:"hang,omitempty"`
	HangCmds []string `json:"hang_cmds,omitempty"`
}

func concWorker(o *common.Opts) {
	inproc.Setup(4, 1, filepath.Join(o.Work, "log"))
	out := concOut{Clients: 8}
	// a sample of the sweep's inputs: every command, all arities, the preset keys and two more of each type
	var sample [][]string
	n := 0
	for _, name := range inproc.Commands() {
		if skip(name) || name == "blpop" || name == "brpop" || name == "subscribe" || name == "publish" || name == "unsubscribe" {
			continue
		}
		enumerate(name, false, func(argv []string) {
			n++
			if n%97 != int(o.Seed)%97 {
				return
			}
			argv = sanitize(name, append([]string{}, argv...))
			for _, a := range argv {
				if len(a) > 12 { // huge numbers ask for huge outputs or offsets: the sequential sweep covers them
					return
				}
			}
			sample = append(sample, argv)
		})
	}
	in := newInst()
	for _, k := range []string{"ks2", "ks3"} {
		in.Exec(respc.Cmd("SET", k, "v"), nil)
	}
	var done int64
	current := make([]atomic.Value, out.Clients)
	var pmu sync.Mutex
	var wg sync.WaitGroup
	rounds := o.Pick(3, 20)
	for c := 0; c < out.Clients; c++ {
		wg.Add(1)
		go func(c int) {
			defer wg.Done()
			r := rand.New(rand.NewSource(o.Seed*131 + int64(c)))
			for i := 0; i < rounds*len(sample)/out.Clients; i++ {
				argv := sample[r.Intn(len(sample))]
				if i%9 == 0 {
					// keep the preset values alive: the others delete and retype them all the time
					argv = preset[r.Intn(len(preset))]
				}
				current[c].Store(strings.Join(argv, " "))
				res := in.Exec(respc.Cmd(argv...), nil)
				if res.Panic != "" {
					pmu.Lock()
					if len(out.Panics) < 5 {
						out.Panics = append(out.Panics, strings.Join(seqrun.QuoteFull(respc.Cmd(argv...)), " ")+": "+res.Panic)
					}
					pmu.Unlock()
				}
				atomic.AddInt64(&done, 1)
			}
			current[c].Store("")
		}(c)
	}
	fin := make(chan struct{})
	go func() { wg.Wait(); close(fin) }()
	last, since := int64(-1), time.Now()
	for finished := false; !finished; {
		select {
		case <-fin:
			finished = true
		case <-time.After(500 * time.Millisecond):
			if d := atomic.LoadInt64(&done); d != last {
				last, since = d, time.Now()
			} else if time.Since(since) > 25*time.Second {
				buf := make([]byte, 4<<20)
				buf = buf[:runtime.Stack(buf, true)]
				var stuck []string
				for _, g := range strings.Split(string(buf), "\n\n") {
					if strings.Contains(g, "inproc.(*Inst).Exec") {
						stuck = append(stuck, inproc.TopFrames(g, 6))
					}
				}
				for c := range current {
					if v, _ := current[c].Load().(string); v != "" {
						out.HangCmds = append(out.HangCmds, v)
					}
				}
				out.Hang = fmt.Sprintf("%d clients sent non-blocking commands at once; after %d commands none of them made progress for 25 s. Goroutines inside an executor:\n%s", out.Clients, last, strings.Join(stuck, "\n--\n"))
				finished = true
			}
		}
	}
	out.Commands = atomic.LoadInt64(&done)
	b, _ := json.Marshal(out)
	_ = os.WriteFile(*fOut, b, 0o644)
}

// concVehicle runs concWorker in a child process.
func concVehicle(o *common.Opts, report func(witness)) (cmds int64, note string) {
	outFile := filepath.Join(o.Work, "conc.json")
	logFile := filepath.Join(o.Work, "conc.log")
	lf, _ := os.Create(logFile)
	defer lf.Close()
	cmd := exec.Command(os.Args[0], "-conc", "-seed", fmt.Sprint(o.Seed), "-tier", o.Tier, "-out", outFile, "-work", o.Work)
	cmd.Stdout, cmd.Stderr = lf, lf
	cmd.Env = append(os.Environ(), "GOTRACEBACK=all")
	if err := cmd.Start(); err != nil {
		return 0, "concurrent vehicle did not start: " + err.Error()
	}
	errc := make(chan error, 1)
	go func() { errc <- cmd.Wait() }()
	select {
	case err := <-errc:
		if err != nil {
			b, _ := os.ReadFile(logFile)
			if len(b) > 1<<20 {
				b = b[len(b)-(1<<20):]
			}
			line := "exit: " + err.Error()
			for _, l := range strings.Split(string(b), "\n") {
				if strings.HasPrefix(l, "fatal error:") || strings.HasPrefix(l, "panic:") {
					line = l
					break
				}
			}
			report(witness{Kind: "crash", Detail: "concurrent clients: the process died: " + line + "\n" + inproc.TopFrames(string(b), 8), Sig: "crash|concurrent|" + seqrun.Generalise(line)})
			return 0, ""
		}
	case <-time.After(time.Duration(o.Pick(240, 1200)) * time.Second):
		_ = cmd.Process.Kill()
		<-errc
		return 0, "concurrent vehicle exceeded its wall-clock limit"
	}
	var w concOut
	b, err := os.ReadFile(outFile)
	if err != nil || json.Unmarshal(b, &w) != nil {
		return 0, "concurrent vehicle left no result"
	}
	for _, p := range w.Panics {
		name := strings.ToUpper(strings.Trim(strings.Fields(p)[0], `"`))
		report(witness{Kind: "panic", Detail: "concurrent clients: " + p, Sig: "panic|concurrent|" + name})
	}
	if w.Hang != "" && len(w.Panics) == 0 {
		var names []string
		seen := map[string]bool{}
		for _, c := range w.HangCmds {
			n := strings.ToUpper(strings.Fields(c + " ?")[0])
			if !seen[n] {
				seen[n] = true
				names = append(names, n)
			}
		}
		sort.Strings(names)
		report(witness{Kind: "hang", Argv: w.HangCmds, Detail: w.Hang, Sig: "hang|concurrent|" + strings.Join(names, "+")})
	}
	return w.Commands, ""
}

func main() {
	o := common.Parse(prop)
	if *fWorker {
		worker(o)
		return
	}
	if *fConc {
		concWorker(o)
		return
	}
	defer o.Cleanup()
	kf, err := findings.Load(findings.DefaultPath)
	if err != nil {
		fmt.Println("cannot load known findings:", err)
		os.Exit(common.ExitInconclusive)
	}
	if o.Replay != "" {
		b, _ := os.ReadFile(o.Replay)
		var w witness
		_ = json.Unmarshal(b, &w)
		cmd, err := seqrun.Unquote(w.Argv)
		if err != nil {
			os.Exit(common.ExitInconclusive)
		}
		inproc.Setup(4, 1, filepath.Join(o.Work, "log"))
		in := newInst()
		res := in.Exec(cmd, nil)
		fmt.Printf("%v -> %s panic=%q held=%v\n", w.Argv, res.V.String(), res.Panic, in.Held())
		if res.Panic != "" || len(in.Held()) > 0 {
			common.Violation(prop, o.Replay)
			o.Cleanup()
			os.Exit(common.ExitViolation)
		}
		return
	}
	nb := 16
	limit := time.Duration(o.Pick(300, 3000)) * time.Second
	agg := workerOut{PerCmd: map[string]int{}, Kinds: map[string]int{}}
	bySig := map[string]witness{}
	inconclusive := ""
	skipOf := make([]int, nb) // resume point per batch
	pending := make([]int, nb)
	for i := range pending {
		pending[i] = i
	}
	var batches []*super.Batch
	for round := 0; round < 25 && len(pending) > 0; round++ {
		cur := pending
		rs := super.Run(filepath.Join(o.Work, fmt.Sprintf("round-%d", round)), len(cur), 0, limit, nil, func(k int, out, journal string) []string {
			i := cur[k]
			return []string{"-worker", "-batch", strconv.Itoa(i), "-batches", strconv.Itoa(nb), "-skip", strconv.Itoa(skipOf[i]), "-tier", o.Tier, "-seed", fmt.Sprint(o.Seed), "-out", out, "-journal", journal, "-work", o.Work}
		})
		pending = nil
		for k, b := range rs {
			var w workerOut
			if b.Result != nil && json.Unmarshal(b.Result, &w) == nil && w.HungAt > 0 {
				// a hang was recorded with its witness: resume this batch after that input
				skipOf[cur[k]] = w.HungAt
				pending = append(pending, cur[k])
				b.Err = nil
			}
			batches = append(batches, b)
		}
	}
	if len(pending) > 0 {
		inconclusive = "more than 25 hanging inputs in one batch"
	}
	for _, b := range batches {
		if b.TimedOut {
			dump := b.LogTail(1 << 20)
			last := b.LastJournal()
			if strings.Contains(dump, "innovationb1ue/RedisGO/") && last != "" {
				name := strings.ToUpper(strings.Trim(strings.Fields(last)[0], `"`))
				bySig["hang|"+name] = witness{Kind: "hang", Argv: strings.Fields(last), Detail: "command never returned; dump:\n" + inproc.TopFrames(dump, 10), Sig: "hang|" + name}
			} else {
				inconclusive = "batch timed out without first-party frames in the dump"
			}
			continue
		}
		if b.Died() {
			last := b.LastJournal()
			name := "?"
			if f := strings.Fields(last); len(f) > 0 {
				name = strings.ToUpper(strings.Trim(f[0], `"`))
			}
			sig := "crash|" + name + "|" + seqrun.Generalise(b.CrashLine())
			bySig[sig] = witness{Kind: "crash", Argv: strings.Fields(last), Detail: "worker process died: " + b.CrashLine() + "\n" + inproc.TopFrames(b.LogTail(1<<16), 8), Sig: sig}
			continue
		}
		var w workerOut
		if err := json.Unmarshal(b.Result, &w); err != nil {
			inconclusive = "unreadable worker output"
			continue
		}
		agg.Inputs += w.Inputs
		agg.Blocking += w.Blocking
		agg.SkippedAfterHang += w.SkippedAfterHang
		agg.DeadState += w.DeadState
		agg.DeadlineState += w.DeadlineState
		for k, v := range w.PerCmd {
			agg.PerCmd[k] += v
		}
		for k, v := range w.Kinds {
			agg.Kinds[k] += v
		}
		for _, x := range w.Wits {
			if _, ok := bySig[x.Sig]; !ok {
				bySig[x.Sig] = x
			}
		}
	}
	// the three process-level vehicles wait on sockets most of the time: they run side by side
	inproc.Setup(4, 1, filepath.Join(o.Work, "log")) // once, for the command table they enumerate
	addWit := func(w witness) {
		sigMu.Lock()
		defer sigMu.Unlock()
		if _, ok := bySig[w.Sig]; !ok {
			bySig[w.Sig] = w
		}
	}
	var tcpSent, tcpServers, clSent, clNodes, mbDone int
	var tcpNote, clNote, mbNote string
	var vwg sync.WaitGroup
	var concCmds int64
	var concNote string
	vwg.Add(4)
	go func() { defer vwg.Done(); concCmds, concNote = concVehicle(o, addWit) }()
	go func() { defer vwg.Done(); tcpSent, tcpServers, tcpNote = tcpVehicle(o, o.Pick(2000, 60000), addWit) }()
	go func() { defer vwg.Done(); clSent, clNodes, clNote = clusterVehicle(o, o.Pick(500, 12000), addWit) }()
	go func() {
		defer vwg.Done()
		mbDone, mbNote = membershipVehicle(o, o.Pick(6, len(hostileMembership)), addWit)
	}()
	vwg.Wait()
	if clNote != "" {
		tcpNote += " cluster vehicle: " + clNote
	}
	if mbNote != "" {
		tcpNote += " membership vehicle: " + mbNote
	}
	if concNote != "" {
		tcpNote += " " + concNote
	}
	sigs := make([]string, 0, len(bySig))
	for s := range bySig {
		sigs = append(sigs, s)
	}
	sort.Strings(sigs)
	violations := 0
	knownHits := map[string]int{}
	var vsamples []any
	for _, s := range sigs {
		w := bySig[s]
		if k := kf.MatchSig(prop, s); k != nil {
			knownHits[k.ID]++
			continue
		}
		violations++
		path := filepath.Join(o.Replays, fmt.Sprintf("%s-%d-%03d.json", prop, o.Seed, violations))
		b, _ := json.MarshalIndent(w, "", " ")
		_ = os.WriteFile(path, b, 0o644)
		fmt.Printf("--- %s %s %v\n    %s\n    sig: %s\n", prop, w.Kind, w.Argv, strings.ReplaceAll(w.Detail, "\n", "\n    "), w.Sig)
		common.Violation(prop, path)
		if len(vsamples) < 3 {
			vsamples = append(vsamples, w)
		}
	}
	for _, k := range kf.Known(prop) {
		if knownHits[k.ID] > 0 {
			common.Known(prop, k.ID+" "+k.What)
		}
	}
	ev := &evidence.Evidence{PropertyID: prop, Tier: o.Tier, Seed: o.Seed, Level: "exploration", WallS: o.Elapsed(), Violations: violations,
		Coverage: map[string]any{
			"evaluations":         agg.Inputs + tcpSent + clSent + mbDone,
			"distinct_nontrivial": len(agg.Kinds),
			"rule": "every registered command (from memdb.CmdTable, minus verif.*) x arity 0..N x first argument in {missing key, one key of each of the six types} x adversarial alphabet " +
				"(full 35-symbol alphabet up to arity 3, command option words + extremes beyond); each input on a fresh preset keyspace under recover, then try-lock sweep of all stripes and probes on the same and another key; " +
				"distinct = distinct (command, reply kind) pairs observed; TCP: sampled inputs against the real binary with same-connection, same-key, per-stripe and fresh-connection probes; " +
				"cluster: sampled inputs, malformed membership commands and raw byte strings (empty command, null elements, non-array values) through one-node clusters with same-connection, fresh-connection and commit probes; hostile membership commands (peer address that is not a URL, ids that name nobody or an existing member), each on its own three-node cluster, after which every node must be alive and commit a write",
			"samples":            []any{[]string{"SETRANGE", "ks", "9223372036854775807", "a"}, []string{"ZADD", "kz", "ch", "incr", "nan", "m"}, []string{"XADD", "kx", "maxlen"}},
			"exhaustive":         inconclusive == "",
			"inputs_per_command": agg.PerCmd,
			"commands_by_8_concurrent_clients_on_one_keyspace":                  concCmds,
			"inputs_meeting_dead_but_stored_keys":                               agg.DeadState,
			"inputs_meeting_keys_with_a_deadline_(ordinary_or_centuries_ahead)": agg.DeadlineState,
			"commands":               len(agg.PerCmd),
			"blocking_pop_inputs":    agg.Blocking,
			"tcp_inputs":             tcpSent,
			"tcp_server_processes":   tcpServers,
			"tcp_note":               tcpNote,
			"cluster_inputs":         clSent,
			"cluster_node_processes": clNodes,
			"signatures":             len(sigs),
			"known_finding_hits":     knownHits,
			"violation_samples":      vsamples,
		},
		Assumptions: []string{"exhaustive only inside the stated arity/alphabet box (blocking pops sampled 1 in 23)", "BLPOP/BRPOP are issued with timeout 1 (timeout 0 blocks by definition)",
			"inputs whose reference output exceeds 10^5 elements are not generated", "a fifth of the in-process inputs meet the preset keys dead but still stored; deadlines that pass during a command are C06's subject"}}
	if inconclusive != "" {
		ev.Coverage["inconclusive"] = inconclusive
	}
	_ = evidence.Write(o.Evidence, ev)
	fmt.Printf("%s %s seed=%d: %d in-process inputs over %d commands, %d TCP inputs on %d server processes, %d inputs through %d one-node clusters, %d signatures (%d unmatched), %.1fs %s\n",
		prop, o.Tier, o.Seed, agg.Inputs, len(agg.PerCmd), tcpSent, tcpServers, clSent, clNodes, len(sigs), violations, o.Elapsed(), tcpNote)
	if violations > 0 {
		o.Cleanup()
		os.Exit(common.ExitViolation)
	}
	if inconclusive != "" || agg.Inputs < 10000 || tcpNote != "" {
		common.Inconclusive(prop, inconclusive+" "+tcpNote)
		o.Cleanup()
		os.Exit(common.ExitInconclusive)
	}
}
