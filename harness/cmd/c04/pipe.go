//go:build verif

package main

import (
	"net"
	"time"
)

// pipeConn is a net.Conn that swallows writes (stands for a subscriber socket in-process).
type pipeConn struct{}

func newPipeConn() *pipeConn { return &pipeConn{} }

func (p *pipeConn) Read(b []byte) (int, error)         { select {} }
func (p *pipeConn) Write(b []byte) (int, error)        { return len(b), nil }
func (p *pipeConn) Close() error                       { return nil }
func (p *pipeConn) LocalAddr() net.Addr                { return &net.TCPAddr{} }
func (p *pipeConn) RemoteAddr() net.Addr               { return &net.TCPAddr{} }
func (p *pipeConn) SetDeadline(t time.Time) error      { return nil }
func (p *pipeConn) SetReadDeadline(t time.Time) error  { return nil }
func (p *pipeConn) SetWriteDeadline(t time.Time) error { return nil }
