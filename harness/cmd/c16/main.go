// Command c16 checks property C16 (WAL / snapshot crash and corruption
// tolerance) by fault enumeration against the real etcd wal and snap packages.
package main

import (
	"flag"
	"os"

	"rgverif/internal/common"
	"rgverif/internal/walfault"
)

func main() {
	child := flag.String("c16-child", "", "internal: run one batch described by this params file")
	record := flag.String("c16-record", "", "internal: run a recorder child described by this spec file")
	o := common.Parse("C16")
	switch {
	case *record != "":
		os.Exit(walfault.ChildRecord(*record))
	case *child != "":
		os.Exit(walfault.ChildBatch(*child))
	}
	code := walfault.Parent(o)
	o.Cleanup()
	os.Exit(code)
}
