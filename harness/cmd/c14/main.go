// Command c14 decides C14 (cluster mode does not change what a command
// means): the same programs are driven in lock-step over TCP against a
// standalone server and against cluster deployments of the same binary (a
// single-node cluster for volume, a three-node cluster with commands spread
// round-robin over the nodes); every reply is compared byte for byte with the
// standalone server's reply (the oracle is the standalone execution itself),
// and at the end the keyspace dump of every replica is compared with the
// standalone dump.
package main

import (
	"bytes"
	"encoding/json"
	"fmt"
	"math/rand"
	"os"
	"path/filepath"
	"sort"
	"strconv"
	"strings"
	"sync"
	"time"

	"rgverif/internal/cluster"
	"rgverif/internal/common"
	"rgverif/internal/evidence"
	"rgverif/internal/findings"
	"rgverif/internal/gen"
	"rgverif/internal/procs"
	"rgverif/internal/respc"
)

const prop = "C14"

type witness struct {
	Kind    string     `json:"kind"`
	Detail  string     `json:"detail"`
	Program [][]string `json:"program,omitempty"`
	Sig     string     `json:"sig"`
}

var bySig = map[string]witness{}

func report(w witness) {
	if _, ok := bySig[w.Sig]; !ok {
		bySig[w.Sig] = w
	}
}

func quote(c [][]byte) []string {
	out := make([]string, len(c))
	for i, a := range c {
		if len(a) > 80 {
			out[i] = strconv.Quote(string(a[:60])) + fmt.Sprintf("...(%d bytes)", len(a))
		} else {
			out[i] = strconv.Quote(string(a))
		}
	}
	return out
}

// excluded commands: rejected in cluster mode by design, clock- or randomness-dependent replies, blocking.
func excluded(name string, cmd [][]byte) string {
	switch name {
	case "PUBLISH", "SUBSCRIBE":
		return "pub/sub is rejected in cluster mode by design"
	case "SELECT":
		return "cluster mode is single-database by configuration"
	case "TTL":
		return "reply depends on the local clock second"
	case "SPOP", "SRANDMEMBER", "HRANDFIELD":
		return "reply depends on map iteration order (replica divergence is C07's finding)"
	case "BLPOP", "BRPOP":
		return "blocks the single apply loop"
	case "RCONF", "MEMBER":
		return "cluster administration"
	case "XADD":
		for _, a := range cmd[1:] {
			if string(a) == "*" || strings.HasSuffix(string(a), "-*") {
				return "auto ids depend on the local clock"
			}
		}
	}
	return ""
}

var unordered = map[string]bool{"KEYS": true, "SMEMBERS": true, "SUNION": true, "SINTER": true, "SDIFF": true, "HKEYS": true, "HVALS": true}

// normalise makes replies of unordered collections comparable.
func normalise(name string, v respc.Value) string {
	if v.Kind == '*' && !v.Nil {
		if unordered[name] {
			el := make([]string, len(v.Arr))
			for i, e := range v.Arr {
				el[i] = string(e.Encode())
			}
			sort.Strings(el)
			return "*" + strings.Join(el, "")
		}
		if name == "HGETALL" && len(v.Arr)%2 == 0 {
			var pairs []string
			for i := 0; i < len(v.Arr); i += 2 {
				pairs = append(pairs, string(v.Arr[i].Encode())+string(v.Arr[i+1].Encode()))
			}
			sort.Strings(pairs)
			return "*" + strings.Join(pairs, "")
		}
	}
	return string(v.Encode())
}

func classOf(a []byte) string {
	switch {
	case len(a) == 0:
		return "empty"
	case bytes.ContainsAny(a, " \t"):
		return "space"
	case bytes.ContainsAny(a, "\r\n"):
		return "crlf"
	case !isUTF8(a):
		return "nonutf8"
	case bytes.ContainsAny(a, "\"\\"):
		return "quote"
	case len(a) > 1000:
		return "large"
	}
	for _, b := range a {
		if b >= 0x80 {
			return "utf8"
		}
	}
	return "plain"
}

func isUTF8(b []byte) bool { return strings.ToValidUTF8(string(b), "\x00\x00") == string(b) }

type dumpEntry struct {
	Key      []byte
	Type     string
	Str      []byte
	List     [][]byte
	Set      [][]byte
	Hash     [][2][]byte
	ZSet     []json.RawMessage
	Stream   []json.RawMessage
	Deadline int64
}

func dumpOf(c *respc.Client) (map[string]string, error) {
	v, err := c.Do("verif.dump")
	if err != nil {
		return nil, err
	}
	if v.Kind != '$' {
		return nil, fmt.Errorf("verif.dump replied %s", v.String())
	}
	var es []dumpEntry
	if err := json.Unmarshal(v.Str, &es); err != nil {
		return nil, err
	}
	out := map[string]string{}
	for _, e := range es {
		if strings.HasPrefix(string(e.Key), "__ready") {
			continue
		}
		dl := "none"
		if e.Deadline != 0 {
			dl = "deadline" // the second itself may differ between two processes
			if strings.HasPrefix(string(e.Key), "snapabs:") {
				dl = fmt.Sprint(e.Deadline) // given as an absolute time: the same number everywhere
			}
		}
		b, _ := json.Marshal([]any{e.Type, e.Str, e.List, e.Set, e.Hash, e.ZSet, e.Stream, dl})
		out[string(e.Key)] = string(b)
	}
	return out, nil
}

func compareDumps(label string, want, got map[string]string, prog [][]string) {
	for k, w := range want {
		g, ok := got[k]
		if !ok {
			report(witness{Kind: "state", Detail: fmt.Sprintf("%s: key %q exists on the standalone server but not on the replica", label, k), Program: prog, Sig: "state|missing-on-replica"})
			return
		}
		if g != w {
			report(witness{Kind: "state", Detail: fmt.Sprintf("%s: key %q differs:\n standalone %s\n replica    %s", label, k, trunc(w), trunc(g)), Program: prog, Sig: "state|differs"})
			return
		}
	}
	for k := range got {
		if _, ok := want[k]; !ok {
			report(witness{Kind: "state", Detail: fmt.Sprintf("%s: key %q exists only on the replica", label, k), Program: prog, Sig: "state|only-on-replica"})
			return
		}
	}
}

func interesting(log string) string {
	var out []string
	for _, l := range strings.Split(log, "\n") {
		low := strings.ToLower(l)
		if len(l) < 400 && (strings.Contains(low, "fatal") || strings.Contains(low, "panic") || strings.Contains(low, "bind") || strings.Contains(low, "listen") || strings.Contains(low, "error") || strings.Contains(low, "stopp") || strings.Contains(low, "removed")) {
			out = append(out, l)
		}
	}
	if len(out) > 12 {
		out = out[len(out)-12:]
	}
	return strings.Join(out, "\n")
}

func trunc(s string) string {
	if len(s) > 300 {
		return s[:300] + "..."
	}
	return s
}

func reset(c *respc.Client) {
	v, err := c.Do("KEYS", "*")
	if err != nil {
		return
	}
	for _, k := range v.Arr {
		_, _ = c.DoB([][]byte{[]byte("DEL"), k.Str})
	}
}

func main() {
	o := common.Parse(prop)
	defer o.Cleanup()
	kf, err := findings.Load(findings.DefaultPath)
	if err != nil {
		fmt.Println("cannot load known findings:", err)
		os.Exit(common.ExitInconclusive)
	}
	if o.Replay != "" {
		fmt.Println("re-run with the same VERIF_SEED; witness:", o.Replay)
		return
	}
	fail := func(why string) {
		common.Inconclusive(prop, why)
		o.Cleanup()
		os.Exit(common.ExitInconclusive)
	}
	var alone *procs.Server
	for try := 0; try < 5; try++ {
		alone, err = procs.Start(procs.Opts{Dir: filepath.Join(o.Work, fmt.Sprintf("alone-%d", try)), Port: procs.FreePorts(1)[0], ShardNum: 16, Databases: 1})
		if err == nil {
			break
		}
	}
	if err != nil {
		fail("standalone start failed: " + err.Error())
	}
	defer alone.Kill()
	c1, err := cluster.New(filepath.Join(o.Work, "c1"), 1, false, nil)
	if err != nil {
		fail(err.Error())
	}
	defer c1.Stop()
	c3, err := cluster.New(filepath.Join(o.Work, "c3"), 3, false, nil)
	if err != nil {
		fail(err.Error())
	}
	defer c3.Stop()
	if err := c1.StartAll(); err != nil {
		fail("1-node cluster: " + err.Error())
	}
	if err := c3.StartAll(); err != nil {
		fail("3-node cluster: " + err.Error())
	}
	if !c1.WaitAllWritable(60*time.Second) || !c3.WaitAllWritable(90*time.Second) {
		fail("clusters did not become writable")
	}
	ca, err := respc.Dial(alone.Addr, 30*time.Second)
	if err != nil {
		fail("dial standalone")
	}
	cc1, err := respc.Dial(c1.Nodes[0].Addr(), 30*time.Second)
	if err != nil {
		fail("dial 1-node cluster")
	}
	var cc3 []*respc.Client
	for _, nd := range c3.Nodes {
		c, err := respc.Dial(nd.Addr(), 30*time.Second)
		if err != nil {
			fail("dial 3-node cluster")
		}
		cc3 = append(cc3, c)
	}
	tuples := map[string]int{}
	skipped := map[string]int{}
	cmds, progs := 0, 0
	deploy := func(name string, conns []*respc.Client, nProg, maxSteps int, seedOff int64) {
		for p := 0; p < nProg; p++ {
			r := rand.New(rand.NewSource(o.Seed*1000003 + seedOff + int64(p)))
			prog := gen.Program(r, gen.FCluster, maxSteps)
			reset(ca)
			reset(conns[0])
			var trace [][]string
			okProg := true
			for i, cmd := range prog {
				nm := strings.ToUpper(string(cmd[0]))
				if why := excluded(nm, cmd); why != "" {
					skipped[nm+": "+why]++
					continue
				}
				trace = append(trace, quote(cmd))
				va, erra := ca.DoB(cmd)
				conn := conns[i%len(conns)]
				vc, errc := conn.DoB(cmd)
				if erra != nil {
					fail("standalone connection failed: " + erra.Error() + " " + alone.CrashLine())
				}
				if errc != nil {
					report(witness{Kind: "no-reply", Detail: fmt.Sprintf("%s: no reply to %v through the cluster: %v", name, quote(cmd), errc), Program: trace, Sig: "no-reply|" + nm})
					okProg = false
					break
				}
				cmds++
				for _, a := range cmd[1:] {
					tuples[nm+"|"+classOf(a)]++
				}
				if normalise(nm, va) != normalise(nm, vc) {
					cls := map[string]bool{}
					for _, a := range cmd[1:] {
						cls[classOf(a)] = true
					}
					var cl []string
					for k := range cls {
						cl = append(cl, k)
					}
					sort.Strings(cl)
					report(witness{Kind: "reply", Detail: fmt.Sprintf("%s: %v\n standalone: %s\n cluster:    %s", name, quote(cmd), va.String(), vc.String()), Program: trace,
						Sig: "reply|" + nm + "|args:" + strings.Join(cl, ",")})
					okProg = false
					break
				}
			}
			progs++
			if !okProg {
				continue
			}
			// every replica must hold what the standalone server holds (a barrier write through each node first)
			want, err := dumpOf(ca)
			if err != nil {
				fail("standalone dump: " + err.Error())
			}
			for ni, conn := range conns {
				if _, err := conn.Do("SET", "__ready:barrier", strconv.Itoa(p)); err != nil {
					report(witness{Kind: "no-reply", Detail: fmt.Sprintf("%s node %d: barrier write failed: %v", name, ni+1, err), Sig: "no-reply|barrier"})
					continue
				}
				got, err := dumpOf(conn)
				if err != nil {
					report(witness{Kind: "state", Detail: fmt.Sprintf("%s node %d: dump failed: %v", name, ni+1, err), Sig: "state|dump-failed"})
					continue
				}
				compareDumps(fmt.Sprintf("%s node %d", name, ni+1), want, got, trace)
			}
		}
	}
	deploy("1-node cluster", []*respc.Client{cc1}, o.Pick(1200, 20000), 20, 0)
	deploy("3-node cluster", cc3, o.Pick(150, 2500), 20, 500000)

	// Several connections at once: their commands reach the replicated log together and are committed, decoded and
	// applied in batches. Every connection works on keys of its own, so the standalone server running the same
	// programs one after the other is still the oracle for every reply and for the final state.
	clusterKeys := []string{"k", "a b", "", " ", "K", "k\r\n", "\xff\xfe", "\u00e9", "x  y", "tr "}
	batchRounds, batchCmds := 0, 0
	concurrent := func(name string, cl *cluster.Cluster, width, nProg int, seedOff int64) {
		var conns, all []*respc.Client
		for j := 0; j < width; j++ {
			c, err := respc.Dial(cl.Nodes[j%len(cl.Nodes)].Addr(), 30*time.Second)
			if err != nil {
				if lines := cl.CrashLines(); len(lines) > 0 {
					// not a harness problem: a node process ended by itself
					report(witness{Kind: "crash", Detail: fmt.Sprintf("%s: a node is not reachable because its process exited on its own: %v", name, lines), Sig: "crash|node exited"})
					return
				}
				fail("dial " + name)
			}
			defer c.Close()
			conns = append(conns, c)
		}
		for _, nd := range cl.Nodes {
			c, err := respc.Dial(nd.Addr(), 30*time.Second)
			if err != nil {
				if lines := cl.CrashLines(); len(lines) > 0 {
					report(witness{Kind: "crash", Detail: fmt.Sprintf("%s: a node is not reachable because its process exited on its own: %v", name, lines), Sig: "crash|node exited"})
					return
				}
				fail("dial " + name)
			}
			defer c.Close()
			all = append(all, c)
		}
		for p := 0; p < nProg; p++ {
			reset(ca)
			reset(all[0])
			progsJ := make([][][][]byte, width)
			var trace [][]string
			for j := 0; j < width; j++ {
				r := rand.New(rand.NewSource(o.Seed*1000003 + seedOff + int64(p)*64 + int64(j)))
				for _, cmd := range gen.Program(r, gen.FCluster, 12) {
					nm := strings.ToUpper(string(cmd[0]))
					if why := excluded(nm, cmd); why != "" {
						skipped[nm+": "+why]++
						continue
					}
					if nm == "KEYS" {
						skipped["KEYS: sees the keys of the other connections (concurrent phase only)"]++
						continue
					}
					c2 := make([][]byte, len(cmd))
					c2[0] = cmd[0]
					for i := 1; i < len(cmd); i++ {
						c2[i] = cmd[i]
						own := false
						for _, k := range clusterKeys {
							// the pool keys and the keys the generator derives from them ("<key>:al<n>")
							if string(cmd[i]) == k || strings.HasPrefix(string(cmd[i]), k+":al") {
								own = true
							}
						}
						// The connections must not meet on any key, or the two deployments may order them differently.
						// Whatever stands in the first position is (for nearly every command) the key, also when a
						// garbled command puts a number or an option word there; and the commands that write keys
						// named in later positions get all of those made private too. Then no connection can create a
						// key another one can see. (Both deployments receive the same rewritten command.)
						if i == 1 {
							own = true
						}
						switch nm {
						case "MSET", "RENAME", "SMOVE":
							own = true
						case "LMOVE":
							if i <= 2 {
								own = true
							}
						}
						if own {
							c2[i] = []byte(fmt.Sprintf("c%d:%s", j, cmd[i]))
						}
					}
					progsJ[j] = append(progsJ[j], c2)
				}
			}
			want := make([][]respc.Value, width)
			for j := range progsJ {
				for _, cmd := range progsJ[j] {
					v, err := ca.DoB(cmd)
					if err != nil {
						fail("standalone connection failed: " + err.Error() + " " + alone.CrashLine())
					}
					want[j] = append(want[j], v)
				}
			}
			okProg := true
			for i := 0; okProg; i++ {
				var live []int
				for j := range progsJ {
					if i < len(progsJ[j]) {
						live = append(live, j)
					}
				}
				if len(live) == 0 {
					break
				}
				batchRounds++
				for _, j := range live {
					trace = append(trace, append([]string{fmt.Sprintf("conn%d:", j)}, quote(progsJ[j][i])...))
					if err := conns[j].Send(progsJ[j][i]); err != nil {
						okProg = false
					}
				}
				for _, j := range live {
					cmd := progsJ[j][i]
					nm := strings.ToUpper(string(cmd[0]))
					vc, err := conns[j].Recv()
					if err != nil {
						report(witness{Kind: "no-reply", Detail: fmt.Sprintf("%s: no reply to %v sent together with %d other commands: %v", name, quote(cmd), len(live)-1, err), Program: trace, Sig: "no-reply|" + nm})
						okProg = false
						break
					}
					cmds++
					batchCmds++
					for _, a := range cmd[1:] {
						tuples[nm+"|"+classOf(a)]++
					}
					if normalise(nm, want[j][i]) != normalise(nm, vc) {
						report(witness{Kind: "reply", Detail: fmt.Sprintf("%s, %d connections sending at once: %v\n standalone: %s\n cluster:    %s", name, len(live), quote(cmd), want[j][i].String(), vc.String()), Program: trace,
							Sig: "reply|concurrent|" + nm})
						okProg = false
						break
					}
				}
			}
			progs++
			if !okProg {
				// the connections may be out of step now
				return
			}
			wantDump, err := dumpOf(ca)
			if err != nil {
				fail("standalone dump: " + err.Error())
			}
			for ni, conn := range all {
				if _, err := conn.Do("SET", "__ready:barrier", strconv.Itoa(p)); err != nil {
					report(witness{Kind: "no-reply", Detail: fmt.Sprintf("%s node %d: barrier write failed: %v", name, ni+1, err), Sig: "no-reply|barrier"})
					continue
				}
				got, err := dumpOf(conn)
				if err != nil {
					report(witness{Kind: "state", Detail: fmt.Sprintf("%s node %d: dump failed: %v", name, ni+1, err), Sig: "state|dump-failed"})
					continue
				}
				compareDumps(fmt.Sprintf("%s node %d (concurrent connections)", name, ni+1), wantDump, got, trace)
			}
		}
	}
	concurrent("1-node cluster", c1, 6, o.Pick(40, 600), 900000)
	concurrent("3-node cluster", c3, 6, o.Pick(40, 600), 950000)

	// A replica that was stopped for a while receives what it missed in one piece, and a restarted replica re-applies
	// its whole log: both must end with the standalone server's keyspace (the last concurrent program is still loaded).
	replays, lagSkipped := 0, 0
	slowCmds, slowProbes, slowSkipped := 0, 0, 0
	if len(bySig) == 0 {
		wantDump, err := dumpOf(ca)
		if err != nil {
			fail("standalone dump: " + err.Error())
		}
		lag := func(name string, cl *cluster.Cluster, id int, restart bool) {
			how := "stopped (SIGSTOP) during a program and continued"
			if restart {
				how = "killed and restarted (re-applies its log)"
				cl.Kill(id)
			} else {
				cl.Pause(id)
			}
			// more commands while the replica is away, the same ones on the standalone server
			uncertain := false
			if !cl.WaitWritable(id%len(cl.Nodes)+1, 60*time.Second) {
				uncertain = true
			}
			via, err := respc.Dial(cl.Nodes[id%len(cl.Nodes)].Addr(), 30*time.Second)
			if err != nil {
				return
			}
			via.Timeout = 8 * time.Second
			defer via.Close()
			r := rand.New(rand.NewSource(o.Seed*1000003 + 990000 + int64(id)))
			var trace [][]string
			if len(cl.Nodes) > 1 && !uncertain {
				for _, cmd := range gen.Program(r, gen.FCluster, 20) {
					nm := strings.ToUpper(string(cmd[0]))
					if excluded(nm, cmd) != "" {
						continue
					}
					trace = append(trace, quote(cmd))
					vc, errc := via.DoB(cmd)
					if errc != nil {
						// a proposal dropped during the leader change is never answered: whether it took effect is open
						uncertain = true
						break
					}
					va, erra := ca.DoB(cmd)
					if erra != nil {
						fail("standalone connection failed: " + erra.Error())
					}
					cmds++
					if normalise(nm, va) != normalise(nm, vc) {
						report(witness{Kind: "reply", Detail: fmt.Sprintf("%s: %v\n standalone: %s\n cluster:    %s", name, quote(cmd), va.String(), vc.String()), Program: trace, Sig: "reply|" + nm})
						uncertain = true
						break
					}
				}
				wantDump, err = dumpOf(ca)
				if err != nil {
					fail("standalone dump: " + err.Error())
				}
			}
			if restart {
				if err := cl.StartNode(id); err != nil {
					report(witness{Kind: "crash", Detail: fmt.Sprintf("%s node %d does not restart: %v", name, id, err), Sig: "crash|restart failed"})
					return
				}
			} else {
				cl.Resume(id)
			}
			if !cl.WaitWritable(id, 240*time.Second) {
				fail(fmt.Sprintf("%s node %d did not serve writes after it was %s", name, id, how))
			}
			conn, err := respc.Dial(cl.Nodes[id-1].Addr(), 30*time.Second)
			if err != nil {
				return
			}
			defer conn.Close()
			if _, err := conn.Do("SET", "__ready:barrier", "lag"); err != nil {
				report(witness{Kind: "no-reply", Detail: fmt.Sprintf("%s node %d: barrier write failed: %v", name, id, err), Sig: "no-reply|barrier"})
				return
			}
			got, err := dumpOf(conn)
			if err != nil {
				report(witness{Kind: "state", Detail: fmt.Sprintf("%s node %d: dump failed: %v", name, id, err), Sig: "state|dump-failed"})
				return
			}
			if uncertain {
				lagSkipped++
				return
			}
			replays++
			compareDumps(fmt.Sprintf("%s node %d after it was %s", name, id, how), wantDump, got, trace)
		}
		lag("3-node cluster", c3, 3, false)
		lag("3-node cluster", c3, 2, true)
	}
	// A commit that is merely slow: both followers are frozen for 6.5 s while non-idempotent commands wait on the
	// leader (one connection each), then continue. Each command was submitted once, so it acts once: replies and the
	// values on every replica are those of the standalone server.
	if len(bySig) == 0 {
		func() {
			if !c3.WaitAllWritable(120 * time.Second) {
				slowSkipped++
				return
			}
			lead := c3.Leader()
			if lead == 0 {
				slowSkipped++
				return
			}
			tag := fmt.Sprintf("slow:%d:", o.Seed)
			prep := [][]string{{"RPUSH", tag + "q", "a b", "c", "", "d"}, {"SET", tag + "n", "10"}, {"HSET", tag + "h", "f", "5"}, {"SADD", tag + "s", "m1", "m 2", "m3"}}
			pending := [][]string{{"INCR", tag + "ctr"}, {"APPEND", tag + "str", "ab cd"}, {"RPUSH", tag + "list", "x y", ""}, {"LPOP", tag + "q"},
				{"HINCRBY", tag + "h", "f", "3"}, {"DECRBY", tag + "n", "4"}, {"SPOP", tag + "s", "3"}, {"XADD", tag + "st", "7-1", "f", "v w"}, {"LPUSH", tag + "q2", "z"}, {"INCRBYFLOAT", tag + "fl", "1.5"}} // one key each: they are in flight together, their order is open
			probes := [][]string{{"GET", tag + "ctr"}, {"GET", tag + "str"}, {"LRANGE", tag + "list", "0", "-1"}, {"LRANGE", tag + "q", "0", "-1"}, {"LRANGE", tag + "q2", "0", "-1"}, {"HGET", tag + "h", "f"},
				{"GET", tag + "n"}, {"SCARD", tag + "s"}, {"XLEN", tag + "st"}, {"GET", tag + "fl"}}
			lc, err := respc.Dial(c3.Nodes[lead-1].Addr(), 30*time.Second)
			if err != nil {
				slowSkipped++
				return
			}
			defer lc.Close()
			lc.Timeout = 8 * time.Second
			for _, cmd := range prep {
				if _, err := lc.Do(cmd...); err != nil {
					slowSkipped++
					return
				}
				if _, err := ca.Do(cmd...); err != nil {
					fail("standalone connection failed: " + err.Error())
				}
			}
			type res struct {
				v   respc.Value
				err error
			}
			out := make([]res, len(pending))
			conns := make([]*respc.Client, len(pending))
			for i := range pending {
				c, err := respc.Dial(c3.Nodes[lead-1].Addr(), 30*time.Second)
				if err != nil {
					slowSkipped++
					return
				}
				c.Timeout = 40 * time.Second
				conns[i] = c
				defer c.Close()
			}
			for _, nd := range c3.Nodes {
				if nd.ID != lead {
					c3.Pause(nd.ID)
				}
			}
			var wg sync.WaitGroup
			for i := range pending {
				wg.Add(1)
				go func(i int) {
					defer wg.Done()
					out[i].v, out[i].err = conns[i].Do(pending[i]...)
				}(i)
			}
			time.Sleep(6500 * time.Millisecond)
			for _, nd := range c3.Nodes {
				if nd.ID != lead {
					c3.Resume(nd.ID)
				}
			}
			wg.Wait()
			var trace [][]string
			for _, cmd := range append(append([][]string{}, prep...), pending...) {
				trace = append(trace, cmd)
			}
			open := false
			for i := range pending {
				if out[i].err != nil {
					open = true // not answered (a leader change after all): whether it took effect is unknown
				}
			}
			if open {
				slowSkipped++
				return
			}
			for i, cmd := range pending {
				va, err := ca.Do(cmd...)
				if err != nil {
					fail("standalone connection failed: " + err.Error())
				}
				nm := strings.ToUpper(cmd[0])
				if nm == "SPOP" { // all three members: order is unspecified
					if len(va.Arr) != len(out[i].v.Arr) {
						report(witness{Kind: "reply", Detail: fmt.Sprintf("3-node cluster, commit delayed by 6.5 s: %v\n standalone: %s\n cluster:    %s", cmd, va.String(), out[i].v.String()), Program: trace, Sig: "reply|slow-commit|" + nm})
					}
					continue
				}
				if normalise(nm, va) != normalise(nm, out[i].v) {
					report(witness{Kind: "reply", Detail: fmt.Sprintf("3-node cluster, commit delayed by 6.5 s (both followers frozen, then continued): %v\n standalone: %s\n cluster:    %s", cmd, va.String(), out[i].v.String()), Program: trace, Sig: "reply|slow-commit|" + nm})
				}
				slowCmds++
			}
			if !c3.WaitAllWritable(120 * time.Second) {
				return
			}
			for _, nd := range c3.Nodes {
				conn, err := respc.Dial(nd.Addr(), 30*time.Second)
				if err != nil {
					continue
				}
				if _, err := conn.Do("SET", "__ready:barrier", "slow"); err == nil {
					for _, q := range probes {
						va, erra := ca.Do(q...)
						vc, errc := conn.Do(q...)
						if erra != nil || errc != nil {
							continue
						}
						slowProbes++
						if va.String() != vc.String() {
							report(witness{Kind: "state", Detail: fmt.Sprintf("3-node cluster node %d after a commit delayed by 6.5 s: %v\n standalone: %s\n cluster:    %s", nd.ID, q, va.String(), vc.String()), Program: trace, Sig: "state|slow-commit|" + strings.ToUpper(q[0])})
						}
					}
				}
				conn.Close()
			}
		}()
	}
	// Snapshots: a second three-node cluster takes a snapshot every 25 applied entries and keeps 3 entries behind it.
	// Programs of every value type accumulate state (no reset in between); one replica is killed, misses more than the
	// log keeps, comes back (its own snapshot + what the leader sends it), and finally all replicas are killed and
	// restarted. Every replica must then hold the standalone server's keyspace: what a snapshot stores and restores
	// is every key, value and deadline, unchanged.
	snapCompared, snapSkipped, snapCmds := 0, 0, 0
	if len(bySig) == 0 {
		func() {
			c3s, err := cluster.New(filepath.Join(o.Work, "c3s"), 3, false, []string{"VERIF_SNAPCOUNT=25", "VERIF_CATCHUP=3"})
			if err != nil {
				return
			}
			defer c3s.Stop()
			if err := c3s.StartAll(); err != nil || !c3s.WaitAllWritable(90*time.Second) {
				snapSkipped++
				return
			}
			reset(ca)
			down := map[int]bool{}
			var trace [][]string
			uncertain := false
			run := func(nProg int, seedOff int64) {
				conns := map[int]*respc.Client{}
				defer func() {
					for _, c := range conns {
						c.Close()
					}
				}()
				for p := 0; p < nProg && !uncertain; p++ {
					r := rand.New(rand.NewSource(o.Seed*1000003 + seedOff + int64(p)))
					for i, cmd := range gen.Program(r, gen.FCluster, 24) {
						nm := strings.ToUpper(string(cmd[0]))
						if excluded(nm, cmd) != "" || nm == "KEYS" { // KEYS would list the harness's own readiness keys
							continue
						}
						id := i%3 + 1
						for down[id] {
							id = id%3 + 1
						}
						conn := conns[id]
						if conn == nil {
							c, err := respc.Dial(c3s.Nodes[id-1].Addr(), 30*time.Second)
							if err != nil {
								uncertain = true
								return
							}
							c.Timeout = 8 * time.Second
							conns[id], conn = c, c
						}
						trace = append(trace, quote(cmd))
						vc, errc := conn.DoB(cmd)
						if errc != nil {
							uncertain = true // a proposal dropped during a leader change is never answered: effect unknown
							return
						}
						va, erra := ca.DoB(cmd)
						if erra != nil {
							fail("standalone connection failed: " + erra.Error())
						}
						cmds++
						snapCmds++
						if normalise(nm, va) != normalise(nm, vc) {
							report(witness{Kind: "reply", Detail: fmt.Sprintf("3-node cluster with snapshots: %v\n standalone: %s\n cluster:    %s", quote(cmd), va.String(), vc.String()), Program: trace, Sig: "reply|snapshots|" + nm})
							uncertain = true
							return
						}
					}
				}
			}
			compareAll := func(label string) {
				wantDump, err := dumpOf(ca)
				if err != nil {
					fail("standalone dump: " + err.Error())
				}
				for _, nd := range c3s.Nodes {
					conn, err := respc.Dial(nd.Addr(), 30*time.Second)
					if err != nil {
						report(witness{Kind: "crash", Detail: fmt.Sprintf("3-node cluster with snapshots, %s: node %d is not reachable: %v %s", label, nd.ID, err, nd.Srv.CrashLine()), Sig: "crash|snapshots|" + label})
						continue
					}
					conn.Timeout = 30 * time.Second
					if _, err := conn.Do("SET", "__ready:barrier", label); err != nil {
						report(witness{Kind: "no-reply", Detail: fmt.Sprintf("3-node cluster with snapshots, %s: node %d: barrier write failed: %v", label, nd.ID, err), Sig: "no-reply|barrier"})
						conn.Close()
						continue
					}
					got, err := dumpOf(conn)
					conn.Close()
					if err != nil {
						report(witness{Kind: "state", Detail: fmt.Sprintf("node %d: dump failed: %v", nd.ID, err), Sig: "state|dump-failed"})
						continue
					}
					snapCompared++
					tail := trace
					if len(tail) > 60 {
						tail = tail[len(tail)-60:]
					}
					compareDumps(fmt.Sprintf("3-node cluster with snapshots every 25 entries, node %d, %s", nd.ID, label), wantDump, got, tail)
				}
			}
			// keys whose deadline was given as an absolute time: every replica, whatever it went through, holds that number
			if c0, err := respc.Dial(c3s.Nodes[0].Addr(), 30*time.Second); err == nil {
				c0.Timeout = 8 * time.Second
				for i := 0; i < 6; i++ {
					cmd := respc.Cmd("SET", fmt.Sprintf("snapabs:%d", i), fmt.Sprintf("v %d", i), "EXAT", strconv.Itoa(99990000000+i*1000+int(o.Seed)))
					if _, err := c0.DoB(cmd); err != nil {
						uncertain = true
						break
					}
					if _, err := ca.DoB(cmd); err != nil {
						fail("standalone connection failed: " + err.Error())
					}
					trace = append(trace, quote(cmd))
				}
				c0.Close()
			}
			run(4, 2000000)
			victim := 1 + int(o.Seed)%3
			c3s.Kill(victim)
			down[victim] = true
			for id := 1; id <= 3; id++ {
				if !down[id] && !c3s.WaitWritable(id, 60*time.Second) {
					uncertain = true
				}
			}
			run(4, 2100000)
			time.Sleep(1200 * time.Millisecond) // the leader's newest snapshot, which the victim will be sent, has an age too
			if err := c3s.StartNode(victim); err != nil {
				report(witness{Kind: "crash", Detail: fmt.Sprintf("3-node cluster with snapshots: node %d does not restart: %v\n%s", victim, err, c3s.NodeLog(victim, 3000)), Sig: "crash|snapshots|restart failed"})
				return
			}
			down[victim] = false
			if !c3s.WaitAllWritable(240 * time.Second) {
				if len(c3s.Alive()) < 3 {
					report(witness{Kind: "crash", Detail: fmt.Sprintf("3-node cluster with snapshots: a node exited after node %d came back: %v", victim, c3s.CrashLines()), Sig: "crash|snapshots|node exited"})
					return
				}
				snapSkipped++
				return
			}
			run(2, 2200000)
			if uncertain {
				snapSkipped++
				return
			}
			compareAll("after a replica missed more than the log keeps")
			for _, nd := range c3s.Nodes {
				c3s.Kill(nd.ID)
			}
			// the snapshots the nodes come back from are more than a second old by then: whatever a snapshot stores,
			// it must mean the same at a later time
			time.Sleep(1200 * time.Millisecond)
			for _, nd := range c3s.Nodes {
				if err := c3s.StartNode(nd.ID); err != nil {
					report(witness{Kind: "crash", Detail: fmt.Sprintf("3-node cluster with snapshots: node %d does not restart from its snapshot and log: %v\n%s", nd.ID, err, c3s.NodeLog(nd.ID, 3000)), Sig: "crash|snapshots|restart failed"})
					return
				}
			}
			if !c3s.WaitAllWritable(240 * time.Second) {
				if len(c3s.Alive()) < 3 {
					report(witness{Kind: "crash", Detail: fmt.Sprintf("3-node cluster with snapshots: a node exited after the full restart: %v", c3s.CrashLines()), Sig: "crash|snapshots|node exited"})
					return
				}
				snapSkipped++
				return
			}
			compareAll("after all replicas were killed and restarted")
		}()
	}
	// the cluster command filter must reject exactly PUBLISH/SUBSCRIBE, in any letter case
	for _, w := range []string{"publish", "PUBLISH", "PubLish", "subscribe", "SUBSCRIBE"} {
		args := []string{w, "ch", "m"}
		if strings.ToLower(w) == "subscribe" {
			args = args[:2]
		}
		v, err := cc1.Do(args...)
		if err != nil || v.Kind != '-' {
			report(witness{Kind: "filter", Detail: fmt.Sprintf("cluster mode answered %s to %v (expected the documented refusal)", v.String(), args), Sig: "filter|pubsub not refused"})
		}
	}
	crashed := ""
	for _, cl := range []*cluster.Cluster{c1, c3} {
		for _, nd := range cl.Nodes {
			if nd.Srv.Exited() {
				crashed = fmt.Sprintf("node %d exited: %s\n%s", nd.ID, nd.Srv.CrashLine(), strings.Join(cl.Grep(nd.ID, []string{"fatal", "panic:", "goroutine ", "bind", "stopp", "removed", "exit", "raft"}, 400, 25), "\n"))
			}
		}
	}
	if crashed != "" {
		report(witness{Kind: "crash", Detail: crashed, Sig: "crash|node exited"})
	}
	sigs := make([]string, 0, len(bySig))
	for s := range bySig {
		sigs = append(sigs, s)
	}
	sort.Strings(sigs)
	violations := 0
	knownHits := map[string]int{}
	var vs []any
	for _, s := range sigs {
		w := bySig[s]
		if k := kf.MatchSig(prop, s); k != nil {
			knownHits[k.ID]++
			continue
		}
		violations++
		path := filepath.Join(o.Replays, fmt.Sprintf("%s-%d-%03d.json", prop, o.Seed, violations))
		b, _ := json.MarshalIndent(w, "", " ")
		_ = os.WriteFile(path, b, 0o644)
		fmt.Printf("--- %s %s: %s\n    sig: %s\n", prop, w.Kind, strings.ReplaceAll(w.Detail, "\n", "\n    "), w.Sig)
		common.Violation(prop, path)
		if len(vs) < 3 {
			vs = append(vs, w)
		}
	}
	for _, k := range kf.Known(prop) {
		if knownHits[k.ID] > 0 {
			common.Known(prop, k.ID+" "+k.What)
		}
	}
	ev := &evidence.Evidence{PropertyID: prop, Tier: o.Tier, Seed: o.Seed, Level: "exploration", WallS: o.Elapsed(), Violations: violations,
		Coverage: map[string]any{
			"evaluations":         progs,
			"distinct_nontrivial": len(tuples),
			"rule": "programs mixing every command family with arguments a lossy re-encoding would damage (empty, spaces, tabs, CR/LF, quotes, backslashes, valid and invalid UTF-8, NUL, 64 KiB) and command names in any letter case, sent in lock-step to a standalone server and to a 1-node / 3-node cluster of the same binary; " +
				"replies compared byte for byte (unordered collections as multisets), replica dumps compared with the standalone dump after a barrier write through every node; distinct = (command, argument byte class) pairs that went through the replicated log",
			"samples":                                   []any{[]string{"SET", "a b", ""}, []string{"RPUSH", "k", " lead", "\xff\xfe"}, []string{"hSeT", "", "a  b", "\t"}},
			"commands_compared":                         cmds,
			"excluded_with_reason":                      skipped,
			"deployments":                               []string{"standalone vs 1-node cluster", "standalone vs 3-node cluster (commands round-robin over the nodes, every replica dumped)", "6 connections sending at once on keys of their own (batched commit/apply), replies and every replica's dump compared", "a replica stopped and continued, a replica killed and restarted (log re-applied): dump compared"},
			"concurrent_rounds":                         batchRounds,
			"concurrent_commands":                       batchCmds,
			"lagging_or_restarted_replicas_compared":    replays,
			"snapshot_phase_commands":                   snapCmds,
			"snapshot_phase_replica_dumps_compared":     snapCompared,
			"snapshot_phase_skipped_open_command":       snapSkipped,
			"lagging_or_restarted_skipped_open_command": lagSkipped,
			"slow_commit_commands_compared":             slowCmds,
			"slow_commit_replica_values_compared":       slowProbes,
			"slow_commit_skipped_open_command":          slowSkipped,
			"known_finding_hits":                        knownHits,
			"violation_samples":                         vs,
		},
		Assumptions: []string{"the oracle is the standalone execution of the same binary, so nothing is demanded beyond the statement", "excluded: commands refused in cluster mode by design, SELECT, commands whose reply depends on the local clock or on map iteration order, blocking pops"}}
	_ = evidence.Write(o.Evidence, ev)
	fmt.Printf("%s %s seed=%d: %d programs, %d commands compared, %d (command, byte-class) tuples, %d signatures (%d unmatched), %.1fs\n", prop, o.Tier, o.Seed, progs, cmds, len(tuples), len(sigs), violations, o.Elapsed())
	if violations > 0 {
		o.Cleanup()
		os.Exit(common.ExitViolation)
	}
	if cmds < 1000 || len(tuples) < 100 {
		fail("too few commands went through")
	}
}
