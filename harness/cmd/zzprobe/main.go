//go:build verif

package main

import (
	"fmt"
	"os"
	"strconv"
	"sync"
	"time"

	"rgverif/internal/cluster"
	"rgverif/internal/respc"
)

func main() {
	n, _ := strconv.Atoi(os.Args[1])
	dir := "/dev/shm/zzprobe"
	os.RemoveAll(dir)
	c, err := cluster.New(dir, 3, false, nil)
	if err != nil {
		panic(err)
	}
	defer c.Stop()
	if err := c.StartAll(); err != nil {
		panic(err)
	}
	fmt.Println("writable", c.WaitAllWritable(90*time.Second))
	var wg sync.WaitGroup
	t0 := time.Now()
	for k := 0; k < 6; k++ {
		wg.Add(1)
		go func(k int) {
			defer wg.Done()
			cl, _ := respc.Dial(c.Nodes[k%3].Addr(), 5*time.Second)
			cl.Timeout = 10 * time.Second
			for i := 0; i < n/6; i++ {
				if _, err := cl.Do("SET", fmt.Sprintf("k%d", k), fmt.Sprint(i)); err != nil {
					fmt.Println("err", err)
					return
				}
			}
		}(k)
	}
	wg.Wait()
	fmt.Println("load", time.Since(t0))
	c.Kill(2)
	time.Sleep(time.Second)
	t0 = time.Now()
	c.StartNode(2)
	fmt.Println("restart writable", c.WaitWritable(2, 600*time.Second), time.Since(t0))
	st, _ := os.Stat(dir + "/node2/server.out")
	fmt.Println("server.out", st.Size())
}
