//go:build verif

package main

import (
	"fmt"
	"net"
	"os"
	"os/exec"
	"strings"
	"time"

	"rgverif/internal/cluster"
)

func main() {
	dir := "/dev/shm/zzprobe"
	os.RemoveAll(dir)
	c, err := cluster.New(dir, 3, false, nil)
	if err != nil {
		panic(err)
	}
	defer c.Stop()
	if err := c.StartAll(); err != nil {
		panic(err)
	}
	fmt.Println("writable", c.WaitAllWritable(90*time.Second))
	for round := 0; round < 6; round++ {
		for id := 1; id <= 3; id++ {
			nd := c.Nodes[id-1]
			c.Kill(id)
			t0 := time.Now()
			for _, port := range []int{nd.Port, nd.RaftPort} {
				for k := 0; k < 200; k++ {
					l, err := net.Listen("tcp", fmt.Sprintf("127.0.0.1:%d", port))
					if err == nil {
						l.Close()
						if k > 0 {
							fmt.Printf("node %d port %d (raft=%v) free after %v (%d tries)\n", id, port, port == nd.RaftPort, time.Since(t0), k)
						}
						break
					}
					if k == 0 {
						out, _ := exec.Command("ss", "-tanpH").Output()
						for _, ln := range strings.Split(string(out), "\n") {
							if strings.Contains(ln, fmt.Sprintf(":%d", port)) {
								fmt.Println("   ", ln)
							}
						}
					}
					time.Sleep(5 * time.Millisecond)
				}
			}
			if err := c.StartNode(id); err != nil {
				fmt.Println("start", id, err)
			}
			time.Sleep(1500 * time.Millisecond)
		}
	}
}
