//go:build verif

// Command zzprobe is a scratch probe (not part of any check): hostile RCONF arguments on a three-node cluster.
package main

import (
	"fmt"
	"os"
	"strconv"
	"time"

	"rgverif/internal/cluster"
	"rgverif/internal/respc"
)

func main() {
	for i, argv := range [][]string{{"rconf", "add", "4", "garbage"}, {"rconf", "add", "0", "http://127.0.0.1:1"}, {"rconf", "delete", "99"}, {"rconf", "update", "1", "x"}, {"rconf", "add", "4", ""}, {"rconf", "delete", "0"}} {
		dir := "/dev/shm/zzprobe-dir" + strconv.Itoa(i)
		os.RemoveAll(dir)
		c, err := cluster.New(dir, 3, false, nil)
		if err != nil {
			panic(err)
		}
		if err := c.StartAll(); err != nil {
			panic(err)
		}
		fmt.Println("writable", c.WaitAllWritable(90*time.Second))
		a, _ := respc.Dial(c.Nodes[0].Addr(), 5*time.Second)
		v, err := a.Do(argv...)
		fmt.Println(argv, "->", v.String(), err)
		time.Sleep(3 * time.Second)
		fmt.Println("alive:", c.Alive(), "crash:", c.CrashLines())
		for id := 1; id <= 3; id++ {
			if cl, err := respc.Dial(c.Nodes[id-1].Addr(), 3*time.Second); err == nil {
				cl.Timeout = 8 * time.Second
				v, err := cl.Do("SET", "after", "1")
				fmt.Println("  node", id, "SET ->", v.String(), err)
				v, err = cl.Do("MEMBER", "LIST")
				fmt.Println("  node", id, "MEMBER LIST ->", v.String(), err)
				cl.Close()
			} else {
				fmt.Println("  node", id, "dial:", err)
			}
		}
		c.Stop()
		os.RemoveAll(dir)
	}
}
