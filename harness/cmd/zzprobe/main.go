//go:build verif

// Command zzprobe is a scratch probe (not part of any check): a one-node cluster fed raw byte strings.
package main

import (
	"fmt"
	"net"
	"os"
	"strconv"
	"time"

	"rgverif/internal/cluster"
)

func main() {
	dir := "/dev/shm/zzprobe-dir"
	os.RemoveAll(dir)
	c, err := cluster.New(dir, 1, false, nil)
	if err != nil {
		panic(err)
	}
	defer c.Stop()
	defer os.RemoveAll(dir)
	if err := c.StartAll(); err != nil {
		panic(err)
	}
	fmt.Println("writable", c.WaitAllWritable(90*time.Second))
	for _, raw := range os.Args[1:] {
		s, err := strconv.Unquote(`"` + raw + `"`)
		if err != nil {
			fmt.Println("bad arg", raw, err)
			continue
		}
		conn, err := net.DialTimeout("tcp", c.Nodes[0].Addr(), 5*time.Second)
		if err != nil {
			fmt.Println("dial:", err, "alive:", c.Alive())
			fmt.Println(c.CrashLines()); for _, l := range c.Grep(1, []string{"panic", "fatal", "runtime error", "goroutine ", "server/", "logger"}, 300, 40) { fmt.Println(l) }
			return
		}
		conn.Write([]byte(s))
		conn.SetReadDeadline(time.Now().Add(3 * time.Second))
		buf := make([]byte, 4096)
		n, err := conn.Read(buf)
		fmt.Printf("%q -> %q err=%v alive=%v\n", s, buf[:n], err, c.Alive())
		conn.Close()
	}
	if len(c.Alive()) == 0 {
		fmt.Println(c.NodeLog(1, 40))
	}
}
