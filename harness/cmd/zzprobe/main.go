//go:build verif

// Command zzprobe is a scratch probe (not part of any check): forwarded proposals in lossy-posts mode.
package main

import (
	"fmt"
	"os"
	"time"

	"rgverif/internal/cluster"
	"rgverif/internal/respc"
)

func main() {
	dir := "/dev/shm/zzprobe-dir"
	os.RemoveAll(dir)
	defer os.RemoveAll(dir)
	c, err := cluster.New(dir, 3, false, nil)
	if err != nil {
		panic(err)
	}
	defer c.Stop()
	if err := c.StartAll(); err != nil {
		panic(err)
	}
	fmt.Println("writable", c.WaitAllWritable(90*time.Second))
	time.Sleep(time.Second)
	dropped := c.LossyPosts()
	time.Sleep(500 * time.Millisecond)
	for id := 1; id <= 3; id++ {
		cl, err := respc.Dial(c.Nodes[id-1].Addr(), 3*time.Second)
		if err != nil {
			fmt.Println("dial", id, err)
			continue
		}
		cl.Timeout = 5 * time.Second
		for k := 0; k < 3; k++ {
			t0 := time.Now()
			v, err := cl.Do("INCR", "probe")
			fmt.Printf("node %d INCR -> %s %v after %v; dropped responses %d, proposals %d\n", id, v.String(), err, time.Since(t0).Round(time.Millisecond), dropped(), c.DroppedProposals())
			if err != nil {
				break
			}
		}
		cl.Close()
	}
	for _, l := range c.LinkStats() {
		fmt.Println(l)
	}
	for id := 1; id <= 3; id++ {
		for _, l := range c.Grep(id, []string{"became leader", "dropped", "no leader", "lost leader"}, 200, 4) {
			fmt.Println(id, l)
		}
	}
}
