//go:build verif

// Command zzprobe is a scratch probe (not part of any check): stalled subscribers on two channels, publishers with quotas around the filling point.
package main

import (
	"fmt"
	"math/rand"
	"os"
	"strings"
	"sync"
	"time"

	"rgverif/internal/procs"
	"rgverif/internal/respc"
)

func main() {
	dir := "/dev/shm/zzprobe-dir"
	os.RemoveAll(dir)
	defer os.RemoveAll(dir)
	srv, err := procs.Start(procs.Opts{Dir: dir, Port: procs.FreePorts(1)[0], ShardNum: 8, Databases: 1})
	if err != nil {
		panic(err)
	}
	defer srv.Kill()
	pad := strings.Repeat("x", 256*1024)
	var wg sync.WaitGroup
	var mu sync.Mutex
	hung := 0
	var keep []*respc.Client
	for round := 0; round < 24; round++ {
		s, _ := respc.Dial(srv.Addr, 10*time.Second)
		keep = append(keep, s)
		for i := 0; i < 2; i++ {
			_ = s.Send(respc.Cmd("SUBSCRIBE", fmt.Sprintf("r%d-ch%d", round, i)))
			_, _ = s.RecvTimeout(2 * time.Second)
		}
		for p := 0; p < 2; p++ {
			wg.Add(1)
			go func(round, p int) {
				defer wg.Done()
				r := rand.New(rand.NewSource(int64(round*7 + p)))
				c, _ := respc.Dial(srv.Addr, 15*time.Second)
				defer c.Close()
				quota := 1 + round + r.Intn(1)
				if p == 1 {
					quota = 2000
				}
				for i := 0; i < quota; i++ {
					v, err := c.Do("PUBLISH", fmt.Sprintf("r%d-ch%d", round, p), pad)
					if err == nil && v.Int == 0 {
						return
					}
					if err != nil {
						mu.Lock()
						hung++
						mu.Unlock()
						fmt.Printf("round %d publisher %d message %d of %d: %v\n", round, p, i, quota, err)
						return
					}
				}
			}(round, p)
		}
	}
	wg.Wait()
	fmt.Println("hung publishers:", hung)
	for _, s := range keep {
		s.Close()
	}
}
