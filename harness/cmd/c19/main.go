// Command c19 decides C19 (published messages reach exactly the current
// subscribers, once, in order) against the real server binary (race build)
// over TCP: subscribers that join, leave, read slowly or stop reading,
// publishers with unique CR/LF-carrying payloads and recorded call/return
// times, and an offline checker over the per-connection receive logs that
// reasons with definite/possible subscription windows, so that concurrent
// subscribe/publish is never over-demanded.
package main

import (
	"bufio"
	"bytes"
	"encoding/json"
	"fmt"
	"math/rand"
	"net"
	"os"
	"path/filepath"
	"runtime"
	"sort"
	"strings"
	"sync"
	"sync/atomic"
	"syscall"
	"time"

	"github.com/innovationb1ue/RedisGO/memdb"

	"rgverif/internal/common"
	"rgverif/internal/evidence"
	"rgverif/internal/findings"
	"rgverif/internal/inproc"
	"rgverif/internal/procs"
	"rgverif/internal/respc"
)

const prop = "C19"

type witness struct {
	Kind   string   `json:"kind"`
	Detail string   `json:"detail"`
	Trace  []string `json:"trace,omitempty"`
	Sig    string   `json:"sig"`
}

var (
	wmu   sync.Mutex
	bySig = map[string]witness{}
	// dumped is set once a goroutine dump was taken from the server as evidence (taking it ends the process, which
	// is then not a crash of the server)
	dumped atomic.Bool
)

func report(w witness) {
	wmu.Lock()
	if _, ok := bySig[w.Sig]; !ok {
		bySig[w.Sig] = w
	}
	wmu.Unlock()
}

type recvMsg struct {
	ch, payload string
	at          int64
}

type subLog struct {
	id        int
	chans     []string
	sentAt    map[string]int64 // SUBSCRIBE written
	confAt    map[string]int64 // confirmation read
	closedAt  int64            // 0 = stayed until the end
	stopRead  bool             // stops reading entirely (never closes)
	slow      bool
	msgs      []recvMsg
	readErr   string
	mu        sync.Mutex
	doubleSub bool
}

type pubRec struct {
	chSeq     int // sequence number per (publisher, channel)
	pub, seq  int
	ch        string
	payload   string
	call, ret int64
	count     int64
	err       string
}

type scenario struct {
	seed      int64
	nChan     int
	nSub      int
	nPub      int
	perPub    int
	churn     bool
	stuck     bool // one subscriber stops reading; payloads are 4 KiB
	doubleSub bool
}

type stats struct {
	scenarios, published, delivered, windows, countChecked int
	slow                                                   int // scenarios given up without a verdict: publishers still progressing after 15 minutes, or stalled without a goroutine parked in the channel
	patterns                                               map[string]int
}

func run(o *common.Opts, srv *procs.Server, sc scenario, st *stats) {
	r := rand.New(rand.NewSource(sc.seed))
	start := time.Now()
	now := func() int64 { return time.Since(start).Nanoseconds() }
	chans := make([]string, sc.nChan)
	for i := range chans {
		chans[i] = fmt.Sprintf("ch%d:%d", sc.seed%1000, i)
		if i == 1 {
			chans[i] = fmt.Sprintf("ch %d\r\n:%d", sc.seed%1000, i) // channel names are binary safe too
		}
	}
	subs := make([]*subLog, sc.nSub)
	var wg sync.WaitGroup
	stopAll := make(chan struct{})
	var pubsDone int32
	for i := 0; i < sc.nSub; i++ {
		sl := &subLog{id: i, sentAt: map[string]int64{}, confAt: map[string]int64{}}
		subs[i] = sl
		nch := 1 + r.Intn(minInt(3, sc.nChan))
		for _, ci := range r.Perm(sc.nChan)[:nch] {
			sl.chans = append(sl.chans, chans[ci])
		}
		sl.slow = r.Intn(5) == 0
		if sc.stuck && i == 0 {
			sl.stopRead = true
			// on every channel: deliveries from different channels then meet on its socket (each channel has a lock of
			// its own, the socket's write deadline is shared)
			sl.chans = append([]string{}, chans...)
		}
		if sc.doubleSub && i == 1 {
			sl.doubleSub = true
		}
		joinDelay := time.Duration(0)
		leaveAfter := time.Duration(0)
		if sc.churn && i%2 == 1 {
			joinDelay = time.Duration(r.Intn(150)) * time.Millisecond
			if r.Intn(2) == 0 {
				leaveAfter = time.Duration(50+r.Intn(200)) * time.Millisecond
			}
		}
		wg.Add(1)
		go func(sl *subLog, joinDelay, leaveAfter time.Duration) {
			defer wg.Done()
			time.Sleep(joinDelay)
			c, err := respc.Dial(srv.Addr, 30*time.Second)
			if err != nil {
				sl.readErr = "dial: " + err.Error()
				return
			}
			defer c.Close()
			for _, ch := range sl.chans {
				reps := 1
				if sl.doubleSub {
					reps = 2
				}
				for k := 0; k < reps; k++ {
					sl.mu.Lock()
					if _, ok := sl.sentAt[ch]; !ok {
						sl.sentAt[ch] = now()
					}
					sl.mu.Unlock()
					if err := c.Send(respc.Cmd("SUBSCRIBE", ch)); err != nil {
						sl.readErr = "send: " + err.Error()
						return
					}
					// the confirmation may be preceded by pushes of channels subscribed earlier
					for {
						v, err := c.RecvTimeout(30 * time.Second)
						if err != nil {
							sl.readErr = "confirm: " + err.Error()
							return
						}
						if isPush(v) {
							sl.mu.Lock()
							sl.msgs = append(sl.msgs, recvMsg{string(v.Arr[1].Str), string(v.Arr[2].Str), now()})
							sl.mu.Unlock()
							continue
						}
						break
					}
					sl.mu.Lock()
					if _, ok := sl.confAt[ch]; !ok {
						sl.confAt[ch] = now()
					}
					sl.mu.Unlock()
				}
			}
			if sl.stopRead {
				<-stopAll // keeps the socket open and never reads again
				return
			}
			// a blocking read is only ever interrupted at the end (or when this subscriber leaves): a read
			// deadline that fires in the middle of a large message would desynchronise the decoder
			var leaving int32
			stopped := make(chan struct{})
			defer close(stopped)
			go func() {
				var leave <-chan time.Time
				if leaveAfter > 0 {
					leave = time.After(leaveAfter)
				}
				select {
				case <-stopAll:
				case <-leave:
					sl.mu.Lock()
					sl.closedAt = now()
					sl.mu.Unlock()
				case <-stopped:
					return
				}
				atomic.StoreInt32(&leaving, 1)
				_ = c.Conn.SetReadDeadline(time.Now().Add(-time.Second))
			}()
			_ = c.Conn.SetReadDeadline(time.Time{})
			for {
				// no per-read deadline here: only the watcher above may set one (to end the loop)
				v, err := respc.Decode(c.Reader())
				if err != nil {
					if atomic.LoadInt32(&leaving) == 1 {
						return
					}
					sl.readErr = "read: " + err.Error()
					return
				}
				if isPush(v) {
					sl.mu.Lock()
					sl.msgs = append(sl.msgs, recvMsg{string(v.Arr[1].Str), string(v.Arr[2].Str), now()})
					sl.mu.Unlock()
				} else {
					sl.mu.Lock()
					sl.msgs = append(sl.msgs, recvMsg{"?", "unexpected value on a subscriber connection: " + v.String(), now()})
					sl.mu.Unlock()
				}
				if sl.slow {
					time.Sleep(time.Duration(200+r.Intn(300)) * time.Microsecond)
				}
			}
		}(sl, joinDelay, leaveAfter)
	}
	// let the early subscribers get in
	time.Sleep(60 * time.Millisecond)
	var pmu sync.Mutex
	var recs []pubRec
	var pwg sync.WaitGroup
	pad := ""
	if sc.stuck {
		pad = strings.Repeat("x", 64*1024) // enough volume to fill the socket buffers of the subscriber that stopped reading
	}
	for p := 0; p < sc.nPub; p++ {
		pwg.Add(1)
		go func(p int) {
			defer pwg.Done()
			pr := rand.New(rand.NewSource(sc.seed*31 + int64(p)))
			c, err := respc.Dial(srv.Addr, 45*time.Second) // a subscriber that stopped reading costs a publisher 3 s, once
			if err != nil {
				pmu.Lock()
				recs = append(recs, pubRec{pub: p, err: "dial: " + err.Error()})
				pmu.Unlock()
				return
			}
			defer c.Close()
			chSeq := map[string]int{}
			for s := 0; s < sc.perPub; s++ {
				ch := chans[pr.Intn(len(chans))]
				chSeq[ch]++
				payload := fmt.Sprintf("p%d:%d:\r\n%x%s", p, s, pr.Int63(), pad)
				rec := pubRec{pub: p, seq: s, chSeq: chSeq[ch], ch: ch, payload: payload, call: now()}
				v, err := c.Do("PUBLISH", ch, payload)
				rec.ret = now()
				if err != nil {
					rec.err = err.Error()
				} else if v.Kind != ':' {
					rec.err = "PUBLISH replied " + v.String()
				} else {
					rec.count = v.Int
				}
				pmu.Lock()
				recs = append(recs, rec)
				pmu.Unlock()
				if rec.err != "" {
					return
				}
				if sc.churn && pr.Intn(4) == 0 {
					time.Sleep(time.Duration(pr.Intn(2000)) * time.Microsecond)
				}
			}
		}(p)
	}
	pubDone := make(chan struct{})
	go func() { pwg.Wait(); close(pubDone) }()
	// bounded progress, decided on progress and not on the clock: the publishers are blocked if none of them completed
	// a PUBLISH for 40 s (a delivery to a subscriber that stopped reading costs 3 s) and the server's goroutines show
	// one parked in the channel. Publishers that are merely slow - a loaded machine, the race build - are waited for;
	// a run that is still going after 15 minutes decides nothing.
	completed := func() int { pmu.Lock(); defer pmu.Unlock(); return len(recs) }
	lastN, lastAt, began := -1, time.Now(), time.Now()
wait:
	for {
		select {
		case <-pubDone:
			break wait
		case <-time.After(time.Second):
		}
		if n := completed(); n != lastN {
			lastN, lastAt = n, time.Now()
			if time.Since(began) > 15*time.Minute {
				st.slow++
				close(stopAll)
				return
			}
			continue
		}
		if time.Since(lastAt) > 40*time.Second {
			dumped.Store(true)
			dump := srv.Dump()
			parked := strings.Contains(dump, "pubsub_struct.go") && (strings.Contains(dump, "net.(*conn).Write") || strings.Contains(dump, "sync.(*RWMutex)") || strings.Contains(dump, "sync.(*Mutex)"))
			if parked {
				report(witness{Kind: "publisher-blocked", Detail: fmt.Sprintf("no PUBLISH completed for 40 s (%d of %d done; a subscriber that stopped reading: %v); the server's goroutines show a publisher parked in the channel:\n%s", lastN, sc.nPub*sc.perPub, sc.stuck, goroutineWith(dump, "pubsub_struct.go", 10)), Sig: "publisher-blocked"})
			} else {
				st.slow++
			}
			close(stopAll)
			return
		}
	}
	atomic.StoreInt32(&pubsDone, 1)
	endPub := now()
	// drain: subscribers keep reading until every one of them has been idle for 400 ms (slow readers lag behind)
	for waited := 0; waited < 60000; waited += 50 {
		time.Sleep(50 * time.Millisecond)
		idle := true
		for _, sl := range subs {
			if sl.stopRead {
				continue
			}
			sl.mu.Lock()
			if sl.closedAt == 0 && sl.readErr == "" && len(sl.msgs) > 0 && now()-sl.msgs[len(sl.msgs)-1].at < int64(400*time.Millisecond) {
				idle = false
			}
			sl.mu.Unlock()
		}
		if idle && waited >= 400 {
			break
		}
	}
	close(stopAll)
	wg.Wait()
	st.scenarios++
	// ---- offline checker ----
	// a PUBLISH that got no reply within the client's 45 s timeout although the server process is alive: the
	// server's goroutines say whether the publisher is stuck inside the delivery (taking the dump ends the server)
	for _, rc := range recs {
		if rc.err != "" && strings.Contains(rc.err, "i/o timeout") && !srv.Exited() {
			dumped.Store(true)
			dump := srv.Dump()
			if strings.Contains(dump, "memdb.(*ChanMap).Send") || strings.Contains(dump, "memdb.publish") {
				report(witness{Kind: "publisher-blocked", Detail: fmt.Sprintf("publisher %d got no reply to a PUBLISH within 45 s; the server's goroutines show the delivery still in progress:\n%s", rc.pub, goroutineWith(dump, "memdb.(*ChanMap).Send", 10)), Sig: "publisher-blocked|delivery never returns"})
			} else {
				report(witness{Kind: "publish-error", Detail: fmt.Sprintf("publisher %d: %s; goroutines:\n%s", rc.pub, rc.err, inproc.TopFrames(dump, 14)), Sig: "publish-error"})
			}
			return
		}
	}
	byPayload := map[string]pubRec{}
	for _, rc := range recs {
		if rc.err != "" {
			report(witness{Kind: "publish-error", Detail: fmt.Sprintf("publisher %d: %s (server crash line: %s)", rc.pub, rc.err, srv.CrashLine()), Sig: "publish-error"})
			return
		}
		byPayload[rc.payload] = rc
		st.published++
	}
	for _, sl := range subs {
		if sl.readErr != "" && !sl.stopRead {
			report(witness{Kind: "subscriber-error", Detail: fmt.Sprintf("subscriber %d: %s (crash line: %s)", sl.id, sl.readErr, srv.CrashLine()), Sig: "subscriber-error|" + strings.SplitN(sl.readErr, ":", 2)[0]})
			continue
		}
		lastSeq := map[string]int{}   // channel|publisher -> last seq
		lastChSeq := map[string]int{} // channel|publisher -> last per-channel seq
		got := map[string]int{}
		for _, m := range sl.msgs {
			st.delivered++
			rc, ok := byPayload[m.payload]
			if !ok {
				report(witness{Kind: "altered", Detail: fmt.Sprintf("subscriber %d received a message nobody published on channel %q: %q", sl.id, m.ch, trunc(m.payload)), Sig: "altered-or-unknown-message"})
				continue
			}
			if rc.ch != m.ch {
				report(witness{Kind: "wrong-channel", Detail: fmt.Sprintf("subscriber %d got payload of channel %q labelled %q", sl.id, rc.ch, m.ch), Sig: "wrong-channel-label"})
			}
			sent, subscribed := sl.sentAt[m.ch]
			if !subscribed || m.at < sent {
				report(witness{Kind: "not-subscribed", Detail: fmt.Sprintf("subscriber %d received a message of channel %q it never subscribed to (subscribed: %q)", sl.id, m.ch, sl.chans), Sig: "delivered-to-non-subscriber"})
			}
			got[m.payload]++
			if got[m.payload] == 2 {
				report(witness{Kind: "duplicate", Detail: fmt.Sprintf("subscriber %d (double SUBSCRIBE: %v) received publisher %d's message %d on %q twice", sl.id, sl.doubleSub, rc.pub, rc.seq, m.ch), Sig: fmt.Sprintf("duplicate-delivery|doublesub=%v", sl.doubleSub)})
			}
			k := fmt.Sprintf("%s|%d", m.ch, rc.pub)
			if lastC, ok := lastChSeq[k]; ok && got[m.payload] == 1 && rc.chSeq > lastC+1 {
				report(witness{Kind: "gap", Detail: fmt.Sprintf("subscriber %d received publisher %d's messages #%d and then #%d on %q: the ones in between were published while it was subscribed and reading, and never arrived", sl.id, rc.pub, lastC, rc.chSeq, m.ch), Sig: "message-lost|gap"})
			}
			if got[m.payload] == 1 {
				lastChSeq[k] = rc.chSeq
			}
			if last, ok := lastSeq[k]; ok && rc.seq <= last && got[m.payload] == 1 {
				report(witness{Kind: "order", Detail: fmt.Sprintf("subscriber %d received publisher %d's message %d after message %d on %q", sl.id, rc.pub, rc.seq, last, m.ch), Sig: "out-of-order"})
			}
			if rc.seq > lastSeq[k] || !okKey(lastSeq, k) {
				lastSeq[k] = rc.seq
			}
		}
		// completeness: definitely subscribed for the whole publish interval, stayed and kept reading
		if sl.closedAt == 0 && !sl.stopRead {
			for _, rc := range recs {
				conf, ok := sl.confAt[rc.ch]
				if !ok || conf >= rc.call {
					continue
				}
				st.windows++
				if got[rc.payload] == 0 {
					report(witness{Kind: "lost", Detail: fmt.Sprintf("subscriber %d was subscribed to %q (confirmed at %dus) before publisher %d's PUBLISH #%d began (%dus), stayed connected and reading until %dus after the last publish, but never received it (PUBLISH replied %d)",
						sl.id, rc.ch, conf/1000, rc.pub, rc.seq, rc.call/1000, (now()-endPub)/1000, rc.count), Sig: "message-lost"})
					break
				}
			}
		}
	}
	// PUBLISH integer inside [definitely subscribed, possibly subscribed]
	for _, rc := range recs {
		def, pos := int64(0), int64(0)
		for _, sl := range subs {
			conf, okc := sl.confAt[rc.ch]
			sent, oks := sl.sentAt[rc.ch]
			if oks && sent < rc.ret {
				pos++
				if sl.doubleSub {
					pos++ // a second registration of the same connection is tolerated in the count (duplicates are judged on delivery)
				}
			}
			if okc && conf < rc.call && sl.closedAt == 0 && !sl.stopRead {
				def++
			}
		}
		st.countChecked++
		if rc.count < def || rc.count > pos {
			report(witness{Kind: "count", Detail: fmt.Sprintf("PUBLISH #%d of publisher %d on %q replied %d; subscribers definitely subscribed during the call: %d, possibly: %d", rc.seq, rc.pub, rc.ch, rc.count, def, pos), Sig: fmt.Sprintf("publish-count|%s", map[bool]string{true: "below-definite", false: "above-possible"}[rc.count < def])})
			break
		}
	}
	pat := fmt.Sprintf("subs=%d pubs=%d chans=%d churn=%v stuck=%v", sc.nSub, sc.nPub, sc.nChan, sc.churn, sc.stuck)
	st.patterns[pat]++
}

func okKey(m map[string]int, k string) bool { _, ok := m[k]; return ok }

// relay: one channel, one publisher publishing continuously, and a chain of subscribers each of which joins while
// its predecessor (the channel's only other subscriber) leaves - so pruning the last dead subscriber overlaps with a
// new SUBSCRIBE over and over. A subscriber whose confirmation has arrived must start receiving: staying silent for
// 1.5 s while at least 50 PUBLISHes completed inside its confirmed window is a lost-message witness.
func relay(srv *procs.Server, seed int64, hops int, st *stats) {
	ch := fmt.Sprintf("relay:%d", seed%100000)
	stop := make(chan struct{})
	var pubMu sync.Mutex
	type prec struct{ call, ret time.Time }
	var pubs []prec
	var pwg sync.WaitGroup
	pwg.Add(1)
	go func() {
		defer pwg.Done()
		c, err := respc.Dial(srv.Addr, 30*time.Second)
		if err != nil {
			return
		}
		defer c.Close()
		for i := 0; ; i++ {
			select {
			case <-stop:
				return
			default:
			}
			t0 := time.Now()
			if _, err := c.Do("PUBLISH", ch, fmt.Sprintf("r%d", i)); err != nil {
				return
			}
			pubMu.Lock()
			pubs = append(pubs, prec{t0, time.Now()})
			pubMu.Unlock()
			time.Sleep(150 * time.Microsecond)
		}
	}()
	r := rand.New(rand.NewSource(seed))
	var prev *respc.Client
	for h := 0; h < hops; h++ {
		c, err := respc.Dial(srv.Addr, 30*time.Second)
		if err != nil {
			break
		}
		// the predecessor leaves somewhere around this SUBSCRIBE
		if prev != nil {
			p := prev
			d := time.Duration(r.Intn(400)) * time.Microsecond
			go func() { time.Sleep(d); p.Close() }()
		}
		time.Sleep(time.Duration(r.Intn(300)) * time.Microsecond)
		if err := c.Send(respc.Cmd("SUBSCRIBE", ch)); err != nil {
			c.Close()
			break
		}
		var conf time.Time
		got := 0
		silentSince := time.Now()
		for got < 2 {
			v, err := c.RecvTimeout(1500 * time.Millisecond)
			if err != nil {
				break
			}
			if isPush(v) {
				got++
				continue
			}
			if conf.IsZero() {
				conf = time.Now()
				silentSince = conf
			}
		}
		st.delivered += got
		if got == 0 && !conf.IsZero() {
			inside := 0
			end := time.Now()
			pubMu.Lock()
			for _, p := range pubs {
				if p.call.After(conf) && p.ret.Before(end) {
					inside++
				}
			}
			pubMu.Unlock()
			if inside >= 50 {
				report(witness{Kind: "lost", Detail: fmt.Sprintf("relay hop %d: the subscriber's SUBSCRIBE to %q was confirmed, %d PUBLISHes then began and completed during the following %.1fs, and it received none of them (its predecessor, the channel's only other subscriber, had just disconnected)", h, ch, inside, time.Since(silentSince).Seconds()), Sig: "message-lost|subscriber-in-detached-channel"})
				c.Close()
				break
			}
		}
		st.windows++
		prev = c
	}
	if prev != nil {
		prev.Close()
	}
	close(stop)
	pwg.Wait()
	pubMu.Lock()
	st.published += len(pubs)
	pubMu.Unlock()
	st.patterns["relay"]++
	st.scenarios++
}

// stalledOnSeveralChannels: one subscriber follows three channels and never reads; one publisher per channel sends
// until the subscriber's socket is full. Each channel has a lock of its own, but the socket (and its write deadline)
// is shared by the deliveries of all three. As soon as any PUBLISH has been outstanding for half a second everybody
// else stops publishing, so nobody can come to the rescue of a delivery that is waiting without a deadline: every
// PUBLISH must still be answered (the stalled subscriber is dropped after the delivery timeout).
func stalledOnSeveralChannels(srv *procs.Server, seed int64, rounds int, st *stats) {
	pad := strings.Repeat("y", 16*1024)
	var rwg sync.WaitGroup
	var once sync.Once
	for round := 0; round < rounds; round++ {
		rwg.Add(1)
		go func(round int) {
			defer rwg.Done()
			sub, err := respc.Dial(srv.Addr, 30*time.Second)
			if err != nil {
				return
			}
			defer sub.Close() // also keeps the connection referenced until the round is over
			const nch = 3
			for i := 0; i < nch; i++ {
				_ = sub.Send(respc.Cmd("SUBSCRIBE", fmt.Sprintf("stall:%d:%d:%d", seed%100000, round, i)))
				_, _ = sub.RecvTimeout(5 * time.Second)
			}
			// the stalled subscriber keeps sending commands (it just never reads): the server's handling of those
			// must not disturb a delivery that is waiting on the same socket
			stopSend := make(chan struct{})
			defer close(stopSend)
			go func() {
				for k := 0; ; k++ {
					select {
					case <-stopSend:
						return
					case <-time.After(150 * time.Millisecond):
					}
					if k%2 == 0 {
						_ = sub.Send(respc.Cmd("SUBSCRIBE", fmt.Sprintf("stall:%d:%d:extra%d", seed%100000, round, k)))
					} else {
						_ = sub.Send(respc.Cmd("PING", "still-here"))
					}
				}
			}()
			var mu sync.Mutex
			outstanding := map[int]time.Time{}
			dropped := 0
			slow := func() bool {
				mu.Lock()
				defer mu.Unlock()
				for _, t := range outstanding {
					if time.Since(t) > 500*time.Millisecond {
						return true
					}
				}
				return false
			}
			var pwg sync.WaitGroup
			for p := 0; p < nch; p++ {
				pwg.Add(1)
				go func(p int) {
					defer pwg.Done()
					c, err := respc.Dial(srv.Addr, 40*time.Second)
					if err != nil {
						return
					}
					defer c.Close()
					for i := 0; i < 1500; i++ {
						for slow() {
							time.Sleep(20 * time.Millisecond)
						}
						mu.Lock()
						if dropped >= 1 {
							mu.Unlock()
							return
						}
						outstanding[p] = time.Now()
						mu.Unlock()
						v, err := c.Do("PUBLISH", fmt.Sprintf("stall:%d:%d:%d", seed%100000, round, p), pad)
						mu.Lock()
						delete(outstanding, p)
						if err == nil && v.Kind == ':' && v.Int == 0 {
							dropped++
						}
						st.published++
						mu.Unlock()
						if err != nil {
							if strings.Contains(err.Error(), "i/o timeout") && !srv.Exited() {
								once.Do(func() {
									dumped.Store(true)
									dump := srv.Dump()
									where := "no delivery frame in the dump"
									if strings.Contains(dump, "memdb.(*ChanMap).Send") {
										where = "the delivery is still waiting on the subscriber's socket"
									}
									report(witness{Kind: "publisher-blocked", Detail: fmt.Sprintf("a subscriber on %d channels stopped reading; publisher %d got no reply to PUBLISH within 40 s while all other publishers were idle (%s):\n%s", nch, p, where, goroutineWith(dump, "memdb.(*ChanMap).Send", 10)), Sig: "publisher-blocked|delivery without a deadline"})
								})
							}
							return
						}
					}
				}(p)
			}
			pwg.Wait()
		}(round)
	}
	rwg.Wait()
	st.patterns["stalled-subscriber-on-3-channels"] += rounds
	st.scenarios++
}

// seamScenario (in-process, deterministic): one subscriber follows two channels over a connection that takes exactly
// one message and then stops reading. Two PUBLISHes, one per channel, go out at once; the verif yield point between
// "set the write deadline" and "write" holds the second delivery until the first has finished (or a second has
// passed). Whatever the first delivery does to the connection's deadline when it is done must not leave the second
// one waiting on the dead socket without a deadline: both PUBLISHes have to return (the delivery timeout is 3 s).
func seamScenario(o *common.Opts, st *stats) {
	inproc.Setup(8, 1, filepath.Join(o.Work, "seam-log"))
	defer func() { memdb.VerifYieldHook = nil }()
	for round := 0; round < 2; round++ {
		in := inproc.New()
		srvEnd, cliEnd := net.Pipe()
		// the client side reads one whole push and then nothing more
		firstRead := make(chan struct{})
		go func() {
			br := bufio.NewReader(cliEnd)
			if _, err := respc.Decode(br); err == nil {
				close(firstRead)
			}
		}()
		in.Exec(respc.Cmd("SUBSCRIBE", "seam:x", "seam:y"), srvEnd)
		var mu sync.Mutex
		arrivals := 0
		firstDone := make(chan struct{})
		memdb.VerifYieldHook = func(site string) {
			if site != "pubsub.send" {
				return
			}
			mu.Lock()
			arrivals++
			n := arrivals
			mu.Unlock()
			if n == 1 {
				// the first delivery to arrive waits here, deadline already set, until the other one is done
				select {
				case <-firstDone:
				case <-time.After(time.Second):
				}
			}
		}
		type res struct {
			who string
			v   respc.Value
			d   time.Duration
		}
		out := make(chan res, 2)
		publish := func(ch string) {
			t0 := time.Now()
			r := in.Exec(respc.Cmd("PUBLISH", ch, "payload-"+ch), nil)
			out <- res{ch, r.V, time.Since(t0)}
		}
		go publish("seam:x")
		time.Sleep(50 * time.Millisecond) // x is parked at the seam
		go func() { publish("seam:y"); close(firstDone) }()
		got := 0
		timeout := time.After(12 * time.Second)
		var lines []string
	wait:
		for got < 2 {
			select {
			case r := <-out:
				got++
				lines = append(lines, fmt.Sprintf("PUBLISH %s -> %s after %.1fs", r.who, r.v.String(), r.d.Seconds()))
			case <-timeout:
				break wait
			}
		}
		st.published += 2
		st.patterns["seam: second delivery held between deadline and write"]++
		if got < 2 {
			buf := make([]byte, 1<<20)
			buf = buf[:runtime.Stack(buf, true)]
			stack := ""
			for _, g := range strings.Split(string(buf), "\n\n") {
				if strings.Contains(g, "memdb.(*ChanMap).Send") {
					stack = inproc.TopFrames(g, 8)
				}
			}
			report(witness{Kind: "publisher-blocked", Detail: fmt.Sprintf("in-process, one subscriber on two channels that reads one message and then stops; two PUBLISHes at once, the first one to set its deadline held before its write until the other had finished: after 12 s only %d of 2 returned (%v); the goroutine still inside the delivery:\n%s", got, lines, stack),
				Sig: "publisher-blocked|delivery without a deadline"})
			return // the instance is wedged
		}
		in.Stop()
		cliEnd.Close()
		srvEnd.Close()
	}
	st.scenarios++
}

// sinkConn is a connection that keeps what is written to it and never blocks.
type sinkConn struct {
	mu  sync.Mutex
	buf bytes.Buffer
	id  int
}

func (c *sinkConn) Read(p []byte) (int, error) { select {} }
func (c *sinkConn) Write(p []byte) (int, error) {
	c.mu.Lock()
	defer c.mu.Unlock()
	return c.buf.Write(p)
}
func (c *sinkConn) Close() error        { return nil }
func (c *sinkConn) LocalAddr() net.Addr { return &net.TCPAddr{IP: net.IPv4(127, 0, 0, 1), Port: 1} }
func (c *sinkConn) RemoteAddr() net.Addr {
	return &net.TCPAddr{IP: net.IPv4(127, 0, 0, 1), Port: 10000 + c.id}
}
func (c *sinkConn) SetDeadline(t time.Time) error      { return nil }
func (c *sinkConn) SetReadDeadline(t time.Time) error  { return nil }
func (c *sinkConn) SetWriteDeadline(t time.Time) error { return nil }

// firstSubscribers: several clients subscribe, at the same instant, to a channel nobody has used yet; every one of
// them was confirmed, so a message published afterwards goes to every one of them. In-process, thousands of fresh
// channels: the window is the creation of the channel.
func firstSubscribers(o *common.Opts, st *stats) {
	inproc.Setup(8, 1, filepath.Join(o.Work, "first-log"))
	in := inproc.New()
	defer in.Stop()
	rounds := o.Pick(6000, 60000)
	const n = 4
	id := 0
	for round := 0; round < rounds; round++ {
		ch := fmt.Sprintf("first:%d:%d", o.Seed, round)
		conns := make([]*sinkConn, n)
		var wg sync.WaitGroup
		start := make(chan struct{})
		for i := range conns {
			id++
			conns[i] = &sinkConn{id: id}
			wg.Add(1)
			go func(c *sinkConn) {
				defer wg.Done()
				<-start
				in.Exec(respc.Cmd("SUBSCRIBE", ch), c)
			}(conns[i])
		}
		close(start)
		wg.Wait()
		r := in.Exec(respc.Cmd("PUBLISH", ch, "m"), nil)
		st.published++
		got := 0
		for _, c := range conns {
			c.mu.Lock()
			vals, _, _ := respc.DecodeAll(c.buf.Bytes())
			c.mu.Unlock()
			for _, v := range vals {
				if isPush(v) && len(v.Arr) == 3 && string(v.Arr[0].Str) == "message" {
					got++
				}
			}
		}
		st.delivered += got
		if r.V.Kind != ':' || r.V.Int != n || got != n {
			report(witness{Kind: "lost-subscriber", Detail: fmt.Sprintf("in-process, round %d: %d clients subscribed to the new channel %q at the same instant and were confirmed; the PUBLISH that followed answered %s and %d of them received the message", round, n, ch, r.V.String(), got),
				Sig: "confirmed subscriber of a new channel receives nothing"})
			break
		}
		for _, c := range conns {
			in.Exec(respc.Cmd("UNSUBSCRIBE", ch), c)
		}
	}
	st.patterns["first subscribers of a new channel, simultaneously"]++
	st.scenarios++
}

// goroutineWith returns the frames of the first goroutine of a dump whose stack mentions needle (the whole dump's
// top frames if there is none).
func goroutineWith(dump, needle string, n int) string {
	for _, g := range strings.Split(dump, "\n\n") {
		if strings.Contains(g, needle) {
			return inproc.TopFrames(g, n)
		}
	}
	return inproc.TopFrames(dump, n)
}

// reusedAddress: a subscriber leaves and, before anything is published, another client arrives from the very same
// source address (ip:port) and subscribes to the same channel. It is a different connection: the next PUBLISH must
// reach it and count it.
func reusedAddress(srv *procs.Server, seed int64, rounds int, st *stats) {
	pub, err := respc.Dial(srv.Addr, 30*time.Second)
	if err != nil {
		return
	}
	defer pub.Close()
	dialFrom := func(port int) (*respc.Client, error) {
		d := net.Dialer{Timeout: 5 * time.Second, LocalAddr: &net.TCPAddr{IP: net.IPv4(127, 0, 0, 1), Port: port},
			Control: func(network, address string, c syscall.RawConn) error {
				return c.Control(func(fd uintptr) { _ = syscall.SetsockoptInt(int(fd), syscall.SOL_SOCKET, syscall.SO_REUSEADDR, 1) })
			}}
		var lastErr error
		for try := 0; try < 200; try++ {
			c, err := d.Dial("tcp", srv.Addr)
			if err == nil {
				return respc.Wrap(c, 10*time.Second), nil
			}
			lastErr = err
			time.Sleep(5 * time.Millisecond)
		}
		return nil, lastErr
	}
	subscribe := func(c *respc.Client, ch string) bool {
		if err := c.Send(respc.Cmd("SUBSCRIBE", ch)); err != nil {
			return false
		}
		v, err := c.RecvTimeout(5 * time.Second)
		return err == nil && !isPush(v) && v.Kind != '-'
	}
	done := 0
	for k := 0; k < rounds; k++ {
		ch := fmt.Sprintf("reuse:%d:%d", seed%100000, k)
		port := procs.FreePorts(1)[0]
		first, err := dialFrom(port)
		if err != nil {
			continue
		}
		if !subscribe(first, ch) {
			first.Close()
			continue
		}
		first.Close() // linger 0: the address is free again at once
		second, err := dialFrom(port)
		if err != nil {
			continue // the system did not hand the port out again: nothing observed in this round
		}
		if second.Conn.LocalAddr().String() != fmt.Sprintf("127.0.0.1:%d", port) || !subscribe(second, ch) {
			second.Close()
			continue
		}
		msg := fmt.Sprintf("after-reuse-%d", k)
		n, err := pub.Do("PUBLISH", ch, msg)
		st.published++
		got := false
		for {
			v, err := second.RecvTimeout(3 * time.Second)
			if err != nil {
				break
			}
			if isPush(v) && string(v.Arr[2].Str) == msg {
				got = true
				st.delivered++
				break
			}
		}
		second.Close()
		done++
		if err == nil && (!got || n.Kind != ':' || n.Int < 1) {
			report(witness{Kind: "lost", Detail: fmt.Sprintf("a subscriber of %q disconnected and, before any PUBLISH, a new connection from the same source address 127.0.0.1:%d subscribed (confirmed); the next PUBLISH answered %s and the new subscriber received the message: %v", ch, port, n.String(), got),
				Sig: "message-lost|subscriber-from-a-reused-source-address"})
			break
		}
	}
	st.patterns["reused-source-address"] += done
	if done > 0 {
		st.scenarios++
	}
}

func isPush(v respc.Value) bool {
	return v.Kind == '*' && len(v.Arr) == 3 && v.Arr[0].Kind == '$' && string(v.Arr[0].Str) == "message" && v.Arr[1].Kind == '$' && v.Arr[2].Kind == '$'
}

func trunc(s string) string {
	if len(s) > 60 {
		return s[:60] + "..."
	}
	return s
}

func minInt(a, b int) int {
	if a < b {
		return a
	}
	return b
}

func main() {
	o := common.Parse(prop)
	defer o.Cleanup()
	kf, err := findings.Load(findings.DefaultPath)
	if err != nil {
		fmt.Println("cannot load known findings:", err)
		os.Exit(common.ExitInconclusive)
	}
	if o.Replay != "" {
		fmt.Println("schedule-dependent witness; re-run with the same VERIF_SEED:", o.Replay)
		return
	}
	race := procs.Bin(true) != "" && os.Getenv("RG_SERVER_BIN_RACE") != ""
	var srv *procs.Server
	for try := 0; try < 5; try++ {
		srv, err = procs.Start(procs.Opts{Dir: filepath.Join(o.Work, fmt.Sprintf("c19srv-%d", try)), Port: procs.FreePorts(1)[0], ShardNum: 4, Databases: 1, Race: race})
		if err == nil {
			break
		}
	}
	if err != nil {
		common.Inconclusive(prop, "server start failed: "+err.Error())
		o.Cleanup()
		os.Exit(common.ExitInconclusive)
	}
	st := &stats{patterns: map[string]int{}}
	n := o.Pick(18, 500)
	r := rand.New(rand.NewSource(o.Seed))
	for i := 0; i < n; i++ {
		sc := scenario{seed: o.Seed*100003 + int64(i), nChan: 1 + r.Intn(4), nSub: 2 + r.Intn(14), nPub: 1 + r.Intn(7), perPub: 40 + r.Intn(120), churn: i%3 == 1}
		if i%9 == 4 {
			sc.stuck = true
			sc.nPub = 2 + r.Intn(3)
			sc.perPub = 200
			sc.churn = false
			if sc.nChan < 2 {
				sc.nChan = 2
			}
		}
		if i%9 == 7 {
			sc.doubleSub = true
		}
		if i%6 == 5 {
			relay(srv, sc.seed, o.Pick(120, 400), st)
			reusedAddress(srv, sc.seed, o.Pick(8, 40), st)
			if srv.Exited() {
				break
			}
			stalledOnSeveralChannels(srv, sc.seed, o.Pick(6, 12), st)
			if srv.Exited() { // the goroutine dump taken as evidence ends the server
				break
			}
		} else {
			run(o, srv, sc, st)
		}
		if srv.Exited() && dumped.Load() {
			break
		}
		if srv.Exited() {
			report(witness{Kind: "crash", Detail: "server exited: " + srv.CrashLine() + "\n" + tailStr(srv.Output(), 3000), Sig: "crash|" + strings.SplitN(srv.CrashLine(), " [", 2)[0]})
			break
		}
	}
	seamScenario(o, st)
	firstSubscribers(o, st)
	races, sample := 0, ""
	if race {
		races, sample = srv.RaceReports()
		if races > 0 && strings.Contains(sample, "innovationb1ue/RedisGO/") {
			report(witness{Kind: "data-race", Detail: sample, Sig: "data-race|" + raceTop(sample)})
		}
	}
	srv.Kill()
	sigs := make([]string, 0, len(bySig))
	for s := range bySig {
		sigs = append(sigs, s)
	}
	sort.Strings(sigs)
	violations := 0
	knownHits := map[string]int{}
	var vs []any
	for _, s := range sigs {
		w := bySig[s]
		if k := kf.MatchSig(prop, s); k != nil {
			knownHits[k.ID]++
			continue
		}
		violations++
		path := filepath.Join(o.Replays, fmt.Sprintf("%s-%d-%03d.json", prop, o.Seed, violations))
		b, _ := json.MarshalIndent(w, "", " ")
		_ = os.WriteFile(path, b, 0o644)
		d := w.Detail
		if len(d) > 2500 {
			d = d[:2500] + "..."
		}
		fmt.Printf("--- %s %s: %s\n    sig: %s\n", prop, w.Kind, strings.ReplaceAll(d, "\n", "\n    "), w.Sig)
		common.Violation(prop, path)
		if len(vs) < 3 {
			w.Detail = d
			vs = append(vs, w)
		}
	}
	for _, k := range kf.Known(prop) {
		if knownHits[k.ID] > 0 {
			common.Known(prop, k.ID+" "+k.What)
		}
	}
	ev := &evidence.Evidence{PropertyID: prop, Tier: o.Tier, Seed: o.Seed, Level: "exploration", WallS: o.Elapsed(), Violations: violations,
		Coverage: map[string]any{
			"evaluations":         st.scenarios,
			"distinct_nontrivial": len(st.patterns),
			"rule": "scenarios against one server process (race build when available): 1-4 channels (one name with CR/LF), 2-15 subscriber connections on 1-3 channels each (some join late, some leave, some read slowly; every ninth scenario one subscriber stops reading while 64 KiB messages are published, " +
				"another ninth issues SUBSCRIBE twice), 1-7 publishers x 40-160 PUBLISHes with unique payloads containing CR/LF; distinct = distinct (subscribers, publishers, channels, churn, stuck) scenario shapes",
			"samples":                  []any{"sub3 SUBSCRIBE ch1 (confirmed) ; pub0 PUBLISH ch1 p0:17:... -> :k with definite<=k<=possible ; sub3 receives p0:16 then p0:17 exactly once"},
			"messages_published":       st.published,
			"messages_delivered":       st.delivered,
			"definite_windows_checked": st.windows,
			"publish_counts_checked":   st.countChecked,
			"scenario_shapes":          st.patterns,
			"scenarios_given_up_without_verdict_(slow_publishers)": st.slow,
			"race_build":         race,
			"race_reports":       races,
			"known_finding_hits": knownHits,
			"violation_samples":  vs,
		},
		Assumptions: []string{"a subscriber counts as definitely subscribed to a PUBLISH only if its SUBSCRIBE confirmation was read before the PUBLISH call began and it stayed connected and reading until after the last publish; as possibly subscribed from the moment its SUBSCRIBE was written",
			"'never block publishers indefinitely' is checked as bounded progress: the publishers must finish within 150 s although one subscriber stopped reading, otherwise the goroutine dump is the witness"}}
	_ = evidence.Write(o.Evidence, ev)
	fmt.Printf("%s %s seed=%d: %d scenarios, %d published, %d delivered, %d definite windows, %d counts checked, race build %v reports %d, %d signatures (%d unmatched), %.1fs\n",
		prop, o.Tier, o.Seed, st.scenarios, st.published, st.delivered, st.windows, st.countChecked, race, races, len(sigs), violations, o.Elapsed())
	if violations > 0 {
		o.Cleanup()
		os.Exit(common.ExitViolation)
	}
	if st.scenarios < n/2 || st.windows < 100 {
		common.Inconclusive(prop, "too few scenarios completed")
		o.Cleanup()
		os.Exit(common.ExitInconclusive)
	}
}

func tailStr(s string, n int) string {
	if len(s) > n {
		return s[len(s)-n:]
	}
	return s
}

func raceTop(sample string) string {
	for _, l := range strings.Split(sample, "\n") {
		t := strings.TrimSpace(l)
		if strings.HasPrefix(t, "github.com/innovationb1ue/RedisGO/") {
			t = strings.TrimPrefix(t, "github.com/innovationb1ue/RedisGO/")
			if i := strings.LastIndex(t, "("); i > 0 {
				t = t[:i]
			}
			return t
		}
	}
	return "?"
}
