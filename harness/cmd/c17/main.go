//go:build verif

// Command c17 decides C17 (KEYS glob matching): bounded-exhaustive
// enumeration of (pattern, key) pairs through the real util.PattenMatch,
// compared with the three-valued reference matcher, plus KEYS on a populated
// in-process keyspace (live and expired keys) for sampled patterns.
package main

import (
	"encoding/json"
	"fmt"
	"math/rand"
	"os"
	"path/filepath"
	"runtime"
	"sort"
	"strings"
	"sync"
	"sync/atomic"
	"time"

	"github.com/innovationb1ue/RedisGO/util"

	"rgverif/internal/common"
	"rgverif/internal/evidence"
	"rgverif/internal/findings"
	"rgverif/internal/inproc"
	"rgverif/internal/model"
	"rgverif/internal/respc"
)

const prop = "C17"

type witness struct {
	Kind    string `json:"kind"` // panic | mismatch | hang | keys
	Pattern string `json:"pattern"`
	Key     string `json:"key,omitempty"`
	Want    string `json:"want"`
	Got     string `json:"got"`
	Sig     string `json:"sig"`
}

func enumerate(alpha []byte, maxLen int) []string {
	out := []string{""}
	prev := []string{""}
	for l := 1; l <= maxLen; l++ {
		var cur []string
		for _, p := range prev {
			for _, c := range alpha {
				cur = append(cur, p+string(c))
			}
		}
		out = append(out, cur...)
		prev = cur
	}
	return out
}

func safeMatch(p, k string) (res bool, panicked string) {
	defer func() {
		if r := recover(); r != nil {
			panicked = fmt.Sprint(r)
		}
	}()
	return util.PattenMatch(p, k), ""
}

// classOf names the construct classes a pattern uses (for signatures and coverage).
func classOf(p string) string {
	var c []string
	if strings.Contains(p, "*") {
		c = append(c, "star")
	}
	if strings.Contains(p, "?") {
		c = append(c, "any")
	}
	if strings.Contains(p, "[") {
		c = append(c, "class")
	}
	if strings.Contains(p, "^") {
		c = append(c, "neg")
	}
	if strings.Contains(p, "-") {
		c = append(c, "range")
	}
	if strings.Contains(p, "\\") {
		c = append(c, "esc")
	}
	if len(c) == 0 {
		return "literal"
	}
	return strings.Join(c, "+")
}

func main() {
	o := common.Parse(prop)
	defer o.Cleanup()
	kf, err := findings.Load(findings.DefaultPath)
	if err != nil {
		fmt.Println("cannot load known findings:", err)
		os.Exit(common.ExitInconclusive)
	}
	if o.Replay != "" {
		b, _ := os.ReadFile(o.Replay)
		var w witness
		_ = json.Unmarshal(b, &w)
		got, pan := safeMatch(w.Pattern, w.Key)
		fmt.Printf("PattenMatch(%q,%q) = %v panic=%q reference=%v\n", w.Pattern, w.Key, got, pan, model.Glob(w.Pattern, w.Key))
		ref := model.Glob(w.Pattern, w.Key)
		if pan != "" || (ref == model.GlobYes && !got) || (ref == model.GlobNo && got) {
			common.Violation(prop, o.Replay)
			os.Exit(common.ExitViolation)
		}
		return
	}

	patAlpha := []byte{'a', 'b', '*', '?', '[', ']', '^', '-', '\\'}
	keyAlpha := []byte{'a', 'b', '-', ']', '\\'}
	pats := enumerate(patAlpha, o.Pick(4, 6))
	keys := enumerate(keyAlpha, o.Pick(3, 4))
	// ranges inside classes over a wider alphabet, both ways round, with subjects inside, at and outside the bounds
	rangeBytes := []byte{'0', '5', '9', 'a', 'c', 'x', '-', '[', '?', 0x01, 0xfe}
	for _, x := range rangeBytes {
		for _, y := range rangeBytes {
			if x == y || x == '-' || y == '-' {
				continue
			}
			rg := string([]byte{x, '-', y})
			pats = append(pats, "["+rg+"]", "[^"+rg+"]", "k["+rg+"]", "["+rg+"]*", "*["+rg+"]", "["+rg+"q]", "[q"+rg+"]z", "*["+rg+"]*")
		}
	}
	for _, b := range []byte{'0', '4', '5', '9', 'a', 'b', 'c', 'z', '-', '[', '?', 'x', 'q', 0x00, 0x01, 0x02, 0xfe, 0xff, '~'} {
		keys = append(keys, string([]byte{b}), "k"+string([]byte{b}), string([]byte{b})+"zz", "zz"+string([]byte{b}), string([]byte{b})+"z")
	}

	var decided, unspecified, pairs int64
	var mu sync.Mutex
	bySig := map[string]witness{}
	classes := map[string]int{}
	report := func(w witness) {
		mu.Lock()
		if old, ok := bySig[w.Sig]; !ok || len(w.Pattern)+len(w.Key) < len(old.Pattern)+len(old.Key) {
			bySig[w.Sig] = w
		}
		mu.Unlock()
	}
	nw := runtime.NumCPU()
	var wg sync.WaitGroup
	var cursor int64
	progress := make([]int64, nw) // per worker: index of the pattern being matched (hang witness)
	for w := 0; w < nw; w++ {
		wg.Add(1)
		go func(w int) {
			defer wg.Done()
			local := map[string]int{}
			var d, u, n int64
			for {
				i := int(atomic.AddInt64(&cursor, 1)) - 1
				if i >= len(pats) {
					break
				}
				atomic.StoreInt64(&progress[w], int64(i))
				p := pats[i]
				_, broken, unspec := model.GlobParse(p)
				cl := classOf(p)
				if broken {
					cl += "+broken"
				}
				local[cl]++
				for _, k := range keys {
					n++
					got, pan := safeMatch(p, k)
					if pan != "" {
						report(witness{Kind: "panic", Pattern: p, Key: k, Got: pan, Want: "no panic", Sig: "panic|" + cl})
						continue
					}
					verdict := model.Glob(p, k)
					if verdict == model.GlobUnspecified {
						u++
						continue
					}
					if unspec {
						local["reversed range, subject outside every reading"]++
					}
					d++
					want := verdict == model.GlobYes
					if got != want {
						report(witness{Kind: "mismatch", Pattern: p, Key: k, Want: fmt.Sprint(want), Got: fmt.Sprint(got), Sig: fmt.Sprintf("mismatch|%s|want=%v", cl, want)})
					}
				}
			}
			atomic.AddInt64(&decided, d)
			atomic.AddInt64(&unspecified, u)
			atomic.AddInt64(&pairs, n)
			mu.Lock()
			for k, v := range local {
				classes[k] += v
			}
			mu.Unlock()
		}(w)
	}
	done := make(chan struct{})
	go func() { wg.Wait(); close(done) }()
	hang := ""
	select {
	case <-done:
	case <-time.After(time.Duration(o.Pick(300, 3000)) * time.Second):
		// bounded inputs cannot legitimately take this long: some call does not terminate
		var stuck []string
		for w := range progress {
			if i := int(atomic.LoadInt64(&progress[w])); i < len(pats) {
				stuck = append(stuck, fmt.Sprintf("%q", pats[i]))
			}
		}
		hang = "enumeration did not finish; patterns in flight: " + strings.Join(stuck, " ")
	}

	// random long pairs: termination / blow-up
	longPairs := 0
	if hang == "" {
		r := rand.New(rand.NewSource(o.Seed))
		nLong := o.Pick(20000, 1000000)
		var lwg sync.WaitGroup
		per := nLong / nw
		seeds := make([]int64, nw)
		for i := range seeds {
			seeds[i] = r.Int63()
		}
		var longDone int64
		inflight := make([]atomic.Value, nw)
		for w := 0; w < nw; w++ {
			lwg.Add(1)
			go func(w int) {
				defer lwg.Done()
				rr := rand.New(rand.NewSource(seeds[w]))
				for i := 0; i < per; i++ {
					pl, kl := 1+rr.Intn(24), rr.Intn(40)
					pb := make([]byte, pl)
					stars := 0
					for j := range pb {
						pb[j] = patAlpha[rr.Intn(len(patAlpha))]
						if pb[j] == '*' {
							stars++
							if stars > 5 { // keep the reference-implementation-style backtracking polynomially small
								pb[j] = 'a'
							}
						}
					}
					kb := make([]byte, kl)
					for j := range kb {
						kb[j] = keyAlpha[rr.Intn(len(keyAlpha))]
					}
					p, k := string(pb), string(kb)
					inflight[w].Store(p + "\x00" + k)
					got, pan := safeMatch(p, k)
					cl := classOf(p)
					if pan != "" {
						report(witness{Kind: "panic", Pattern: p, Key: k, Got: pan, Want: "no panic", Sig: "panic|" + cl})
					} else if v := model.Glob(p, k); v != model.GlobUnspecified && got != (v == model.GlobYes) {
						report(witness{Kind: "mismatch", Pattern: p, Key: k, Want: fmt.Sprint(v == model.GlobYes), Got: fmt.Sprint(got), Sig: fmt.Sprintf("mismatch|%s|want=%v", cl, v == model.GlobYes)})
					}
					atomic.AddInt64(&longDone, 1)
				}
			}(w)
		}
		ldone := make(chan struct{})
		go func() { lwg.Wait(); close(ldone) }()
		select {
		case <-ldone:
		case <-time.After(time.Duration(o.Pick(300, 3000)) * time.Second):
			var stuck []string
			for w := range inflight {
				if v, ok := inflight[w].Load().(string); ok {
					stuck = append(stuck, fmt.Sprintf("%q", v))
				}
			}
			hang = "random long pairs did not finish; pairs in flight: " + strings.Join(stuck, " ")
		}
		longPairs = int(atomic.LoadInt64(&longDone))
	}

	// KEYS on a populated keyspace, live and expired keys
	keysChecked, deadPlaced, keysHung := 0, 0, false
	if hang == "" {
		inproc.Setup(8, 1, filepath.Join(o.Work, "log"))
		in := inproc.New()
		live := enumerate(keyAlpha, 3)
		for _, k := range live {
			in.Exec(respc.Cmd("SET", k, "v"), nil)
		}
		in.Exec(respc.Cmd("SET", "aab-dead", "v", "EXAT", "1"), nil)
		in.Exec(respc.Cmd("SET", "b-dead", "v"), nil)
		in.Exec(respc.Cmd("EXPIRE", "b-dead", "-1"), nil)
		time.Sleep(20 * time.Millisecond)
		r := rand.New(rand.NewSource(o.Seed + 99))
		sample := enumerate(patAlpha, 3)
		extra := o.Pick(1200, 20000)
		for i := 0; i < extra; i++ {
			sample = append(sample, pats[r.Intn(len(pats))])
		}
		deadKeys := []string{"ab-dead", "b-dead", "a-dead", "*-dead", "]-dead", "\\-dead"}
		for _, p := range sample {
			_, _, unspec := model.GlobParse(p)
			if unspec {
				continue
			}
			// keys whose deadline has passed and which nothing has reaped yet (forced through the verif hook): they
			// are not live, and walking over them must not stop KEYS from returning
			if keysChecked%16 == 0 {
				for _, k := range deadKeys {
					in.Exec(respc.Cmd("SET", k, "v"), nil)
				}
				in.ForceDead(deadKeys...)
				deadPlaced += len(deadKeys)
			}
			var res inproc.Result
			done := make(chan struct{})
			go func(inst *inproc.Inst) { res = inst.Exec(respc.Cmd("KEYS", p), nil); close(done) }(in)
			select {
			case <-done:
			case <-time.After(30 * time.Second):
				buf := make([]byte, 1<<20)
				buf = buf[:runtime.Stack(buf, true)]
				report(witness{Kind: "hang", Pattern: p, Got: "KEYS did not return within 30 s with keys past their deadline (not yet reaped) in the keyspace\n" + inproc.TopFrames(string(buf), 10), Want: "termination", Sig: "keys-hang|dead-key"})
				keysHung = true
			}
			if keysHung {
				break
			}
			keysChecked++
			cl := classOf(p)
			if res.Panic != "" {
				report(witness{Kind: "panic", Pattern: p, Got: res.Panic, Want: "no panic", Sig: "keys-panic|" + cl})
				in = inproc.New()
				for _, k := range live {
					in.Exec(respc.Cmd("SET", k, "v"), nil)
				}
				continue
			}
			var want []string
			for _, k := range live {
				if model.Glob(p, k) == model.GlobYes {
					want = append(want, k)
				}
			}
			var got []string
			ok := res.V.Kind == '*' && !res.V.Nil
			for _, e := range res.V.Arr {
				got = append(got, string(e.Str))
			}
			sort.Strings(want)
			sort.Strings(got)
			if !ok || strings.Join(want, "\x00") != strings.Join(got, "\x00") {
				report(witness{Kind: "keys", Pattern: p, Want: fmt.Sprintf("%q", want), Got: fmt.Sprintf("%q", got), Sig: "keys|" + cl})
			}
		}
		in.Stop()
	}

	if hang != "" {
		report(witness{Kind: "hang", Got: hang, Want: "termination", Sig: "hang"})
	}
	sigs := make([]string, 0, len(bySig))
	for s := range bySig {
		sigs = append(sigs, s)
	}
	sort.Strings(sigs)
	violations := 0
	knownHits := map[string]int{}
	for _, s := range sigs {
		w := bySig[s]
		if k := kf.MatchSig(prop, s); k != nil {
			knownHits[k.ID]++
			continue
		}
		violations++
		path := filepath.Join(o.Replays, fmt.Sprintf("%s-%d-%03d.json", prop, o.Seed, violations))
		b, _ := json.MarshalIndent(w, "", " ")
		_ = os.WriteFile(path, b, 0o644)
		fmt.Printf("--- %s %s pattern=%q key=%q want=%s got=%s sig=%s\n", prop, w.Kind, w.Pattern, w.Key, w.Want, w.Got, w.Sig)
		common.Violation(prop, path)
	}
	for _, k := range kf.Known(prop) {
		if knownHits[k.ID] > 0 {
			common.Known(prop, k.ID+" "+k.What)
		}
	}
	ev := &evidence.Evidence{PropertyID: prop, Tier: o.Tier, Seed: o.Seed, Level: "exploration", WallS: o.Elapsed(), Violations: violations,
		Coverage: map[string]any{
			"evaluations":         int(pairs) + longPairs + keysChecked,
			"distinct_nontrivial": int(decided),
			"rule": fmt.Sprintf("all patterns of length <= %d over {a b * ? [ ] ^ - \\} x all keys of length <= %d over {a b - ] \\}, each pair through util.PattenMatch under recover; "+
				"non-trivial = pairs the documented grammar decides (broken patterns must match nothing); pairs hinging on undefined constructs only have to terminate without panic", o.Pick(4, 6), o.Pick(3, 4)),
			"samples":                               []any{map[string]any{"pattern": "*[ab]", "key": "xa"}, map[string]any{"pattern": pats[len(pats)/2], "key": keys[len(keys)/2]}, map[string]any{"pattern": pats[len(pats)-1], "key": keys[len(keys)-1]}},
			"exhaustive":                            hang == "",
			"patterns":                              len(pats),
			"keys":                                  len(keys),
			"pairs_decided":                         decided,
			"pairs_unspecified":                     unspecified,
			"pattern_classes":                       classes,
			"random_long_pairs":                     longPairs,
			"keys_commands_on_server":               keysChecked,
			"dead_unreaped_keys_placed_before_keys": deadPlaced,
			"divergence_signatures":                 len(sigs),
			"known_finding_hits":                    knownHits,
		},
		Assumptions: []string{"reference matcher = 40-line matcher written from the documented grammar; Unspecified constructs: '-' first/last in a class, empty class, reversed range, '^' not first, escaped range endpoint",
			"exhaustive only inside the stated length/alphabet box"}}
	_ = evidence.Write(o.Evidence, ev)
	fmt.Printf("%s %s seed=%d: %d patterns x %d keys = %d pairs (%d decided, %d unspecified), %d long pairs, %d KEYS commands, %d signatures (%d unmatched), %.1fs\n",
		prop, o.Tier, o.Seed, len(pats), len(keys), pairs, decided, unspecified, longPairs, keysChecked, len(sigs), violations, o.Elapsed())
	if violations > 0 {
		o.Cleanup()
		os.Exit(common.ExitViolation)
	}
	if decided < 100000 {
		common.Inconclusive(prop, "too few decided pairs")
		o.Cleanup()
		os.Exit(common.ExitInconclusive)
	}
}
