// Command c20 decides C20 (numbered databases are isolated; selection is per
// connection) against the real server binary over TCP: a SELECT argument
// sweep for several database counts, each followed by a probe write whose
// landing database is located from a fresh connection, and concurrent
// histories in which every connection keeps re-selecting databases and
// writes tagged values (connection, database, sequence) to the same key
// name in every database, so that a value read in the wrong database or a
// write landing in another database is identified exactly.
package main

import (
	"encoding/json"
	"fmt"
	"math/rand"
	"os"
	"path/filepath"
	"sort"
	"strconv"
	"strings"
	"sync"
	"sync/atomic"
	"time"

	"rgverif/internal/cluster"
	"rgverif/internal/common"
	"rgverif/internal/evidence"
	"rgverif/internal/findings"
	"rgverif/internal/procs"
	"rgverif/internal/respc"
)

const prop = "C20"

type witness struct {
	Kind   string   `json:"kind"`
	Detail string   `json:"detail"`
	Trace  []string `json:"trace"`
	Sig    string   `json:"sig"`
}

var (
	mu    sync.Mutex
	bySig = map[string]witness{}
)

func report(w witness) {
	mu.Lock()
	if _, ok := bySig[w.Sig]; !ok {
		bySig[w.Sig] = w
	}
	mu.Unlock()
}

// confLayout rotates the configuration-file layouts over the servers a run starts.
var confLayout atomic.Int32

func startServer(o *common.Opts, dbs int, race bool, tag string) (*procs.Server, error) {
	layout := int(confLayout.Add(1)-1) % 4
	var err error
	var srv *procs.Server
	for try := 0; try < 5; try++ {
		srv, err = procs.Start(procs.Opts{Dir: filepath.Join(o.Work, fmt.Sprintf("c20-%s-%d", tag, try)), Port: procs.FreePorts(1)[0], ShardNum: 8, Databases: dbs, Race: race, ConfLayout: layout})
		if err == nil {
			return srv, nil
		}
	}
	return nil, err
}

// whereIs returns the databases in which key exists, seen from a fresh connection.
func whereIs(addr string, dbs int, key string) ([]int, error) {
	c, err := respc.Dial(addr, 10*time.Second)
	if err != nil {
		return nil, err
	}
	defer c.Close()
	var out []int
	for d := 0; d < dbs; d++ {
		if v, err := c.Do("SELECT", strconv.Itoa(d)); err != nil || string(v.Str) != "OK" {
			return nil, fmt.Errorf("SELECT %d on a fresh connection: %v %s", d, err, v.String())
		}
		v, err := c.Do("EXISTS", key)
		if err != nil {
			return nil, err
		}
		if v.Kind == ':' && v.Int == 1 {
			out = append(out, d)
		}
	}
	return out, nil
}

func canonicalIndex(s string, dbs int) (idx int, canonical, lenient bool) {
	n, err := strconv.Atoi(s)
	if err != nil {
		if t := strings.TrimSpace(s); t != s {
			if m, e2 := strconv.Atoi(t); e2 == nil && m >= 0 && m < dbs {
				return m, false, true
			}
		}
		return 0, false, false
	}
	if n < 0 || n >= dbs {
		return 0, false, false
	}
	if strconv.Itoa(n) == s {
		return n, true, true
	}
	return n, false, true // "+1", "01"
}

func sweep(o *common.Opts, dbs int) (probes int, note string) {
	srv, err := startServer(o, dbs, false, fmt.Sprintf("sweep%d", dbs))
	if err != nil {
		return 0, "server start failed: " + err.Error()
	}
	defer srv.Kill()
	args := []string{"0", "1", strconv.Itoa(dbs - 1), strconv.Itoa(dbs), strconv.Itoa(dbs + 1), "-1", "", "a", "1.0", "01", "+1", " 1", "2147483648", "9223372036854775808", "18446744073709551616", "0x1", "1 ", "-0",
		// single bytes around the digits in the character table, and digits of other scripts
		":", ";", "<", "=", ">", "?", "/", ".", "@", "A", "a", "`", "\x00", "\x3a\x30", "\xd9\xa3", "\xef\xbc\x91", "1\x00", "\x001"}
	c, err := respc.Dial(srv.Addr, 10*time.Second)
	if err != nil {
		return 0, "dial failed"
	}
	defer c.Close()
	cur := 0
	var trace []string
	r := rand.New(rand.NewSource(o.Seed + int64(dbs)))
	order := r.Perm(len(args))
	for round := 0; round < 3; round++ {
		for _, ai := range order {
			a := args[ai]
			v, err := c.Do("SELECT", a)
			if err != nil {
				report(witness{Kind: "select", Detail: fmt.Sprintf("databases=%d: SELECT %q: connection error %v (server crash line: %s)", dbs, a, err, srv.CrashLine()), Trace: trace, Sig: "select|connection lost"})
				return probes, ""
			}
			trace = append(trace, fmt.Sprintf("SELECT %q -> %s", a, v.String()))
			idx, canon, lenient := canonicalIndex(a, dbs)
			accepted := v.Kind == '+' && string(v.Str) == "OK"
			switch {
			case canon && !accepted:
				report(witness{Kind: "select", Detail: fmt.Sprintf("databases=%d: SELECT %q refused: %s", dbs, a, v.String()), Trace: tail(trace), Sig: "select|valid index refused"})
			case !lenient && (accepted || v.Kind != '-'):
				report(witness{Kind: "select", Detail: fmt.Sprintf("databases=%d: SELECT %q must fail with an error, got %s", dbs, a, v.String()), Trace: tail(trace), Sig: "select|invalid index accepted"})
			}
			want := cur
			if accepted && (canon || lenient) {
				want = idx
			}
			// reveal the effective database
			key := fmt.Sprintf("probe:%d:%d:%d", dbs, round, ai)
			if _, err := c.Do("SET", key, "1"); err != nil {
				return probes, "probe write failed"
			}
			got, err := whereIs(srv.Addr, dbs, key)
			if err != nil {
				return probes, "locating the probe failed: " + err.Error()
			}
			probes++
			if accepted && !lenient {
				// already reported; follow the implementation
				if len(got) == 1 {
					cur = got[0]
				}
				continue
			}
			if len(got) != 1 || got[0] != want {
				why := "select|write landed in another database"
				if !accepted {
					why = "select|failed SELECT changed the selection"
				}
				report(witness{Kind: "select", Detail: fmt.Sprintf("databases=%d: after SELECT %q (%s) the probe key is in databases %v, expected only %d", dbs, a, v.String(), got, want), Trace: tail(trace), Sig: why})
				if len(got) == 1 {
					want = got[0]
				}
			}
			cur = want
		}
	}
	return probes, ""
}

// pipelined: the selection and the commands that depend on it arrive in one piece, as connection pools send them
// (SELECT n, then work, without waiting for the +OK). Each command must see the selection made by the one before it.
func pipelined(o *common.Opts, dbs int) (probes int, note string) {
	srv, err := startServer(o, dbs, false, fmt.Sprintf("pipe%d", dbs))
	if err != nil {
		return 0, "server start failed: " + err.Error()
	}
	defer srv.Kill()
	r := rand.New(rand.NewSource(o.Seed*977 + int64(dbs)))
	for round := 0; round < 24; round++ {
		c, err := respc.Dial(srv.Addr, 10*time.Second)
		if err != nil {
			return probes, "dial failed"
		}
		// a few PINGs first, so that the batch is not the first thing the connection's loop reads
		var buf []byte
		nping := r.Intn(7)
		for i := 0; i < nping; i++ {
			buf = append(buf, respc.EncodeCommand(respc.Cmd("PING"))...)
		}
		hops := 1 + r.Intn(3)
		type step struct {
			db  int
			key string
		}
		var steps []step
		for h := 0; h < hops; h++ {
			db := r.Intn(dbs)
			key := fmt.Sprintf("pipe:%d:%d:%d", dbs, round, h)
			steps = append(steps, step{db, key})
			buf = append(buf, respc.EncodeCommand(respc.Cmd("SELECT", strconv.Itoa(db)))...)
			buf = append(buf, respc.EncodeCommand(respc.Cmd("SET", key, fmt.Sprintf("v%d", h)))...)
			buf = append(buf, respc.EncodeCommand(respc.Cmd("GET", key))...)
		}
		if round%2 == 0 {
			_ = c.SendRaw(buf)
		} else {
			cut := 1 + r.Intn(len(buf)-1)
			_ = c.SendRaw(buf[:cut])
			time.Sleep(time.Duration(r.Intn(3)) * time.Millisecond)
			_ = c.SendRaw(buf[cut:])
		}
		ok := true
		for i := 0; i < nping+3*hops; i++ {
			if _, err := c.RecvTimeout(10 * time.Second); err != nil {
				report(witness{Kind: "select", Detail: fmt.Sprintf("databases=%d: a pipeline of %d PING and %d x (SELECT, SET, GET) got %d replies, then %v", dbs, nping, hops, i, err), Sig: "select|pipelined: reply missing"})
				ok = false
				break
			}
		}
		c.Close()
		if !ok {
			continue
		}
		for _, st := range steps {
			got, err := whereIs(srv.Addr, dbs, st.key)
			if err != nil {
				return probes, "locating the probe failed: " + err.Error()
			}
			probes++
			if len(got) != 1 || got[0] != st.db {
				report(witness{Kind: "select", Detail: fmt.Sprintf("databases=%d: one write carried %d PING and %d x (SELECT n, SET k, GET k); the SET after SELECT %d put %s into databases %v", dbs, nping, hops, st.db, st.key, got), Sig: "select|pipelined: write landed in another database"})
			}
		}
	}
	return probes, ""
}

func tail(t []string) []string {
	if len(t) > 12 {
		return append([]string{}, t[len(t)-12:]...)
	}
	return append([]string{}, t...)
}

// freshStartsInZero opens n new connections that never SELECT and checks that their writes land in database 0:
// the selection of a closed connection must not leak into a later one.
func freshStartsInZero(srv *procs.Server, dbs, n int, tag string) int {
	done := 0
	for i := 0; i < n; i++ {
		c, err := respc.Dial(srv.Addr, 10*time.Second)
		if err != nil {
			return done
		}
		key := fmt.Sprintf("fresh:%s:%d", tag, i)
		_, err = c.Do("SET", key, "1")
		c.Close()
		if err != nil {
			return done
		}
		got, err := whereIs(srv.Addr, dbs, key)
		if err != nil {
			return done
		}
		done++
		if len(got) != 1 || got[0] != 0 {
			report(witness{Kind: "fresh-connection", Detail: fmt.Sprintf("a new connection that never issued SELECT wrote %q into databases %v instead of database 0 (databases=%d): it inherited another connection's selection", key, got, dbs), Sig: "fresh-connection|not in database 0"})
			return done
		}
	}
	return done
}

// concurrent runs one history: conns connections hopping between databases.
func concurrent(o *common.Opts, srv *procs.Server, dbs, conns, ops int, seed int64) (done int, interleavings int) {
	type lastWrite struct {
		tag string
	}
	var wg sync.WaitGroup
	var total, hops int64
	var cmu sync.Mutex
	for ci := 0; ci < conns; ci++ {
		wg.Add(1)
		go func(ci int) {
			defer wg.Done()
			r := rand.New(rand.NewSource(seed*1009 + int64(ci)))
			c, err := respc.Dial(srv.Addr, 20*time.Second)
			if err != nil {
				report(witness{Kind: "concurrent", Detail: "cannot connect: " + err.Error() + " " + srv.CrashLine(), Sig: "concurrent|cannot connect"})
				return
			}
			defer c.Close()
			cur := 0
			var trace []string
			mine := map[int]int{} // db -> own last seq written there
			n, h := 0, 0
			for i := 0; i < ops; i++ {
				if i == 0 || r.Intn(6) == 0 {
					cur = r.Intn(dbs)
					v, err := c.Do("SELECT", strconv.Itoa(cur))
					if err != nil || string(v.Str) != "OK" {
						report(witness{Kind: "concurrent", Detail: fmt.Sprintf("conn %d: SELECT %d -> %v %s", ci, cur, err, v.String()), Trace: tail(trace), Sig: "concurrent|select failed"})
						return
					}
					trace = append(trace, fmt.Sprintf("c%d SELECT %d", ci, cur))
					h++
				}
				if r.Intn(2) == 0 {
					seq := i
					tag := fmt.Sprintf("c%d:d%d:s%d", ci, cur, seq)
					if _, err := c.Do("SET", "k", tag); err != nil {
						report(witness{Kind: "concurrent", Detail: "SET failed: " + err.Error() + " " + srv.CrashLine(), Sig: "concurrent|connection lost"})
						return
					}
					mine[cur] = seq
					trace = append(trace, fmt.Sprintf("c%d SET k %s", ci, tag))
				} else {
					v, err := c.Do("GET", "k")
					if err != nil {
						report(witness{Kind: "concurrent", Detail: "GET failed: " + err.Error() + " " + srv.CrashLine(), Sig: "concurrent|connection lost"})
						return
					}
					trace = append(trace, fmt.Sprintf("c%d GET k -> %s", ci, v.String()))
					if v.Nil {
						if _, wrote := mine[cur]; wrote {
							report(witness{Kind: "concurrent", Detail: fmt.Sprintf("conn %d selected db %d, wrote k there, but GET k is nil (the commands run against another database)", ci, cur), Trace: tail(trace), Sig: "concurrent|own write invisible"})
							return
						}
					} else {
						parts := strings.Split(string(v.Str), ":")
						if len(parts) != 3 || parts[1] != "d"+strconv.Itoa(cur) {
							report(witness{Kind: "concurrent", Detail: fmt.Sprintf("conn %d selected db %d but GET k returned %q, a value written to another database", ci, cur, v.Str), Trace: tail(trace), Sig: "concurrent|value from another database"})
							return
						}
					}
				}
				n++
			}
			cmu.Lock()
			total += int64(n)
			hops += int64(h)
			cmu.Unlock()
		}(ci)
	}
	wg.Wait()
	return int(total), int(hops)
}

// firstSelect: several connections select the same database at the same instant, for an index nobody has selected
// since the server started. They must all land in one and the same keyspace: after everybody has written and stopped,
// everybody (and a fresh connection) reads the same value.
func firstSelect(o *common.Opts) (rounds int, note string) {
	for k := 0; k < o.Pick(3, 20); k++ {
		srv, err := startServer(o, 16, false, fmt.Sprintf("first%d", k))
		if err != nil {
			return rounds, "server start failed: " + err.Error()
		}
		const n = 8
		var conns []*respc.Client
		for i := 0; i < n; i++ {
			c, err := respc.Dial(srv.Addr, 10*time.Second)
			if err != nil {
				break
			}
			conns = append(conns, c)
		}
		for d := 1; d < 16 && len(conns) == n; d++ {
			var wg sync.WaitGroup
			start := make(chan struct{})
			sel := make([]string, n)
			for i, c := range conns {
				wg.Add(1)
				go func(i int, c *respc.Client) {
					defer wg.Done()
					<-start
					v, _ := c.Do("SELECT", strconv.Itoa(d))
					sel[i] = v.String()
					_, _ = c.Do("SET", "first:k", fmt.Sprintf("conn%d-db%d", i, d))
				}(i, c)
			}
			close(start)
			wg.Wait()
			got := make([]string, n)
			for i, c := range conns {
				v, _ := c.Do("GET", "first:k")
				got[i] = v.String()
			}
			fresh := ""
			if c, err := respc.Dial(srv.Addr, 10*time.Second); err == nil {
				_, _ = c.Do("SELECT", strconv.Itoa(d))
				v, _ := c.Do("GET", "first:k")
				fresh = v.String()
				c.Close()
			}
			rounds++
			same := true
			for i := range got {
				if got[i] != got[0] || got[i] != fresh {
					same = false
				}
			}
			if !same {
				report(witness{Kind: "first-select", Detail: fmt.Sprintf("%d connections selected database %d at the same instant (first selection of that index since the server started; replies %v), each wrote first:k, all stopped; then they read %v and a fresh connection read %s: they are not in one keyspace", n, d, sel, got, fresh),
					Sig: "first-select|connections selecting one index at once end up in different keyspaces"})
				break
			}
		}
		for _, c := range conns {
			c.Close()
		}
		srv.Kill()
	}
	return rounds, ""
}

// clusterProbe: cluster mode serves one database whatever the configuration files say (the cluster configuration
// object is given a "Databases" key in several spellings, the main configuration file asks for 16). Whatever SELECT
// answers there, one connection's SELECT must not move another connection, and a database that was selected must be
// a keyspace of its own.
func clusterProbe(o *common.Opts) (probes int, note string) {
	var wg sync.WaitGroup
	var pmu sync.Mutex
	for k, extra := range []string{`"Databases": 4`, `"databases": 16`, `"DATABASES": 2`, ""} {
		wg.Add(1)
		go func(k int, extra string) {
			defer wg.Done()
			p, n := clusterProbeOne(o, k, extra)
			pmu.Lock()
			probes += p
			if n != "" {
				note = n
			}
			pmu.Unlock()
		}(k, extra)
	}
	wg.Wait()
	return probes, note
}

func clusterProbeOne(o *common.Opts, k int, extra string) (probes int, note string) {
	{
		dir := filepath.Join(o.Work, fmt.Sprintf("c20cl-%d", k))
		cl, err := cluster.New(dir, 1, false, nil)
		if err != nil {
			return probes, "cluster layout failed: " + err.Error()
		}
		cl.ExtraJSON = extra
		if err := cl.StartAll(); err != nil || !cl.WaitAllWritable(90*time.Second) {
			cl.Stop()
			return probes, "one-node cluster did not become writable"
		}
		addr := cl.Nodes[0].Addr()
		a, errA := respc.Dial(addr, 10*time.Second)
		b, errB := respc.Dial(addr, 10*time.Second)
		if errA != nil || errB != nil {
			cl.Stop()
			return probes, "dial failed"
		}
		var trace []string
		do := func(who string, c *respc.Client, args ...string) respc.Value {
			v, err := c.Do(args...)
			trace = append(trace, fmt.Sprintf("%s %v -> %s %v", who, args, v.String(), errStr(err)))
			return v
		}
		bad := func(detail, sig string) {
			report(witness{Kind: "cluster-select", Detail: fmt.Sprintf("one-node cluster, cluster configuration extra key %q: %s", extra, detail), Trace: append([]string{}, trace...), Sig: "cluster-select|" + sig})
		}
		do("A", a, "SET", "probe:a", "a0")
		if v := do("B", b, "GET", "probe:a"); string(v.Str) != "a0" {
			bad("two fresh connections do not share database 0", "fresh connections differ")
		}
		for _, idx := range []string{"1", "3", "15"} {
			r := do("A", a, "SELECT", idx)
			probes++
			// B never selected anything
			if v := do("B", b, "GET", "probe:a"); string(v.Str) != "a0" {
				bad(fmt.Sprintf("after connection A sent SELECT %s (answered %s) connection B, which selected nothing, no longer sees its key", idx, r.String()), "another connection was moved")
				break
			}
			tag := "a-in-" + idx
			do("A", a, "SET", "probe:where", tag)
			vb := do("B", b, "GET", "probe:where")
			va := do("A", a, "GET", "probe:a")
			if r.Kind == '+' {
				// accepted: A is in another keyspace
				if string(vb.Str) == tag {
					bad(fmt.Sprintf("SELECT %s was accepted on connection A, yet its write is visible to connection B in database 0", idx), "selected database leaks")
					break
				}
				if !va.Nil {
					bad(fmt.Sprintf("SELECT %s was accepted on connection A, yet A still reads database 0", idx), "accepted SELECT without effect")
					break
				}
				do("A", a, "SELECT", "0")
			} else if string(vb.Str) != tag || string(va.Str) != "a0" {
				bad(fmt.Sprintf("SELECT %s was refused (%s) but connection A no longer works on database 0", idx, r.String()), "refused SELECT changed the selection")
				break
			}
		}
		a.Close()
		b.Close()
		if len(cl.Alive()) == 0 {
			bad("the node exited: "+cl.Nodes[0].Srv.CrashLine(), "node exited")
		}
		cl.Stop()
		_ = os.RemoveAll(dir)
	}
	return probes, ""
}

func errStr(err error) string {
	if err == nil {
		return ""
	}
	return err.Error()
}

func main() {
	o := common.Parse(prop)
	defer o.Cleanup()
	kf, err := findings.Load(findings.DefaultPath)
	if err != nil {
		fmt.Println("cannot load known findings:", err)
		os.Exit(common.ExitInconclusive)
	}
	if o.Replay != "" {
		fmt.Println("re-run the check with the same VERIF_SEED; witness:", o.Replay)
		return
	}
	note := ""
	probes := 0
	for _, dbs := range []int{1, 2, 16, 3, 5, 20, 33} {
		p, n := sweep(o, dbs)
		probes += p
		if n != "" {
			note = n
		}
	}
	pipeProbes := 0
	for _, dbs := range []int{2, 16} {
		p, n := pipelined(o, dbs)
		pipeProbes += p
		if n != "" {
			note = n
		}
	}
	fsRounds, fsNote := firstSelect(o)
	if fsNote != "" {
		note = fsNote
	}
	clProbes, clNote := clusterProbe(o)
	if clNote != "" {
		note = clNote
	}
	histories, opsDone, hops := 0, 0, 0
	raceReports := 0
	for _, cfg := range []struct {
		dbs  int
		race bool
	}{{2, false}, {16, false}, {16, true}} {
		if cfg.race && (procs.Bin(true) == "" || os.Getenv("RG_SERVER_BIN_RACE") == "") {
			continue
		}
		srv, err := startServer(o, cfg.dbs, cfg.race, fmt.Sprintf("conc%d%v", cfg.dbs, cfg.race))
		if err != nil {
			note = "server start failed: " + err.Error()
			continue
		}
		nh := o.Pick(10, 600)
		if cfg.race {
			nh = o.Pick(6, 200)
		}
		for h := 0; h < nh; h++ {
			conns := 2 + (h % 7)
			d, hp := concurrent(o, srv, cfg.dbs, conns, o.Pick(300, 400), o.Seed*100003+int64(h)+int64(cfg.dbs))
			opsDone += d
			hops += hp
			histories++
			// connections of the history are closed now, most of them with a non-zero database selected
			time.Sleep(5 * time.Millisecond)
			probes += freshStartsInZero(srv, cfg.dbs, 6, fmt.Sprintf("%d-%v-%d", cfg.dbs, cfg.race, h))
			if srv.Exited() {
				report(witness{Kind: "crash", Detail: "server exited: " + srv.CrashLine(), Sig: "crash|server exited"})
				break
			}
		}
		if cfg.race {
			n, sample := srv.RaceReports()
			raceReports += n
			if n > 0 && strings.Contains(sample, "RedisGO/server") {
				report(witness{Kind: "race", Detail: sample, Sig: "race|server package"})
			}
		}
		srv.Kill()
	}
	sigs := make([]string, 0, len(bySig))
	for s := range bySig {
		sigs = append(sigs, s)
	}
	sort.Strings(sigs)
	violations := 0
	knownHits := map[string]int{}
	var vs []any
	for _, s := range sigs {
		w := bySig[s]
		if k := kf.MatchSig(prop, s); k != nil {
			knownHits[k.ID]++
			continue
		}
		violations++
		path := filepath.Join(o.Replays, fmt.Sprintf("%s-%d-%03d.json", prop, o.Seed, violations))
		b, _ := json.MarshalIndent(w, "", " ")
		_ = os.WriteFile(path, b, 0o644)
		fmt.Printf("--- %s %s: %s\n    %s\n    sig: %s\n", prop, w.Kind, w.Detail, strings.Join(w.Trace, "\n    "), w.Sig)
		common.Violation(prop, path)
		if len(vs) < 3 {
			vs = append(vs, w)
		}
	}
	for _, k := range kf.Known(prop) {
		if knownHits[k.ID] > 0 {
			common.Known(prop, k.ID+" "+k.What)
		}
	}
	ev := &evidence.Evidence{PropertyID: prop, Tier: o.Tier, Seed: o.Seed, Level: "exploration", WallS: o.Elapsed(), Violations: violations,
		Coverage: map[string]any{
			"evaluations":         probes + histories,
			"distinct_nontrivial": probes + hops,
			"rule": "SELECT argument sweep (36 spellings incl. the single bytes next to the digits and digits of other scripts x 3 rounds x database counts {1,2,3,5,16,20,33}, configuration file laid out four ways: LF with final newline, no final newline, CRLF with blank lines and no final newline as in the shipped file, directive first in upper case), each followed by a probe write located from a fresh connection; concurrent histories of 2-8 connections x 300+ operations hopping between databases " +
				"and writing tagged values (connection, database, sequence) to the same key name; non-trivial = sweep probes + database hops performed inside concurrent histories",
			"samples":                    []any{"SELECT \"01\" then SET probe -> located in exactly one database", "c3 SELECT 5; c3 SET k c3:d5:s17; c1 SELECT 2; c3 GET k -> must carry d5"},
			"cluster_mode_select_probes": clProbes,
			"simultaneous_first_selections_of_an_index": fsRounds,
			"probes_after_pipelined_selections":         pipeProbes,
			"select_probes":                             probes,
			"concurrent_histories":                      histories,
			"concurrent_operations":                     opsDone,
			"database_hops":                             hops,
			"race_reports":                              raceReports,
			"known_finding_hits":                        knownHits,
			"violation_samples":                         vs,
		},
		Assumptions: []string{"\"+1\", \"01\" and space-padded indexes are an open corner (accepted as that index or refused)", "TCP against the real binary; the race build is used in the thorough tier"}}
	if note != "" {
		ev.Coverage["inconclusive"] = note
	}
	_ = evidence.Write(o.Evidence, ev)
	fmt.Printf("%s %s seed=%d: %d select probes, %d concurrent histories (%d ops, %d hops), race reports %d, %d signatures (%d unmatched), %.1fs %s\n",
		prop, o.Tier, o.Seed, probes, histories, opsDone, hops, raceReports, len(sigs), violations, o.Elapsed(), note)
	if violations > 0 {
		o.Cleanup()
		os.Exit(common.ExitViolation)
	}
	if note != "" || probes < 100 || histories < 5 {
		common.Inconclusive(prop, note)
		o.Cleanup()
		os.Exit(common.ExitInconclusive)
	}
}
