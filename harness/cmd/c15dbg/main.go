package main

import (
	"flag"
	"fmt"

	"rgverif/internal/raftsim"
)

func main() {
	seed := flag.Int64("seed", 1, "")
	idx := flag.Int("idx", 0, "")
	ev := flag.Int("events", 3000, "")
	every := flag.Int("every", 100, "")
	tr := flag.Bool("trace", false, "")
	flag.Parse()
	cfg := raftsim.DeriveConfig(*seed, *idx, *ev)
	fmt.Printf("%+v\n", cfg)
	l, t, v := raftsim.Timeline(cfg, *every)
	for _, x := range l {
		fmt.Println(x)
	}
	if *tr {
		for _, x := range t {
			fmt.Println(x)
		}
	}
	fmt.Println("violation:", v)
}
