//go:build verif

package main

import (
	"fmt"
	"math/rand"
	"os"
	"path/filepath"
	"regexp"
	"sort"
	"strconv"
	"strings"
	"sync/atomic"
	"syscall"
	"time"

	"rgverif/internal/cluster"
	"rgverif/internal/common"
	"rgverif/internal/respc"
)

var reBecame = regexp.MustCompile(`INFO: (\d+) became (leader|follower|candidate|pre-candidate) at term (\d+)`)

// raftRoles reads, from a node's own raft log lines, every term in which it announced itself leader, and its last role.
func raftRoles(c *cluster.Cluster, id int) (leaderTerms []int, lastRole string, lastTerm int) {
	for _, l := range c.Grep(id, []string{" became "}, 300, 100000) {
		m := reBecame.FindStringSubmatch(l)
		if m == nil {
			continue
		}
		t, _ := strconv.Atoi(m[3])
		lastRole, lastTerm = m[2], t
		if m[2] == "leader" {
			leaderTerms = append(leaderTerms, t)
		}
	}
	return
}

// checkElectionLog is the log monitor shared by every cluster scenario: over the whole life of the cluster (all
// incarnations of every node) no term may have two nodes that announced "became leader".
func checkElectionLog(c *cluster.Cluster, st *stats, tag string) {
	by := map[int]map[int]bool{}
	for _, nd := range c.Nodes {
		terms, _, _ := raftRoles(c, nd.ID)
		for _, t := range terms {
			if by[t] == nil {
				by[t] = map[int]bool{}
			}
			by[t][nd.ID] = true
		}
	}
	for t, who := range by {
		st.leaderTerms++
		if len(who) > 1 {
			var ids []int
			for id := range who {
				ids = append(ids, id)
			}
			sort.Ints(ids)
			report(witness{Kind: "two-leaders", Detail: fmt.Sprintf("%s: nodes %v each announced 'became leader at term %d' in their raft logs: two leaders in one term, so two nodes acknowledged writes in different orders", tag, ids, t), Sig: "two-leaders-in-one-term|" + tag})
		}
	}
}

// currentLeader: the node whose last announced role is leader, with the highest term.
func currentLeader(c *cluster.Cluster) int {
	best, bestTerm := 0, -1
	for _, nd := range c.Nodes {
		if nd.Srv == nil || nd.Srv.Exited() {
			continue
		}
		_, role, term := raftRoles(c, nd.ID)
		if role == "leader" && term > bestTerm {
			best, bestTerm = nd.ID, term
		}
	}
	return best
}

// scenarioVotes (C07): the first election happens on an idle cluster, so the votes reach the followers' disks (or not)
// without any entry around them. The leader is then frozen while the voters are crash-restarted one after the other
// (never more than one node down, the frozen one is merely slow), they elect among themselves, serve clients, and the
// old leader wakes up. Every acknowledged operation must still be explained by one order, on every node.
func scenarioVotes(o *common.Opts, idx int, st *stats) string {
	dir := filepath.Join(o.Work, fmt.Sprintf("c07v-%d", idx))
	c, err := cluster.New(dir, 3, false, nil)
	if err != nil {
		return err.Error()
	}
	defer c.Stop()
	if !*fKeep {
		defer os.RemoveAll(dir)
	}
	if err := c.StartAll(); err != nil {
		return "start: " + err.Error()
	}
	// no client traffic before the election has settled: the votes must not reach the disk as passengers of an entry
	r := rand.New(rand.NewSource(o.Seed*15485863 + int64(idx)))
	lead := 0
	for t := 0; t < 600 && lead == 0; t++ {
		time.Sleep(100 * time.Millisecond)
		lead = currentLeader(c)
	}
	if lead == 0 {
		return "cluster did not become writable"
	}
	time.Sleep(time.Duration(400+r.Intn(400)) * time.Millisecond)
	w := newWorkload(c)
	w.rate = 300
	// a few acknowledged writes one at a time (no two entries in one batch)
	one := func(node int, cmd ...string) bool {
		cl, err := respc.Dial(c.Nodes[node-1].Addr(), 3*time.Second)
		if err != nil {
			return false
		}
		defer cl.Close()
		cl.Timeout = 5 * time.Second
		v, err := cl.Do(cmd...)
		return err == nil && v.Kind != '-'
	}
	if !c.WaitWritable(lead, 60*time.Second) {
		return "cluster did not become writable"
	}
	if one(lead, "SET", "own:v0", "v0-1") {
		w.led.setAck["own:v0"] = "v0-1"
	}
	time.Sleep(time.Duration(100+r.Intn(300)) * time.Millisecond)
	c.Pause(lead)
	st.kinds["freeze-leader"]++
	var others []int
	for _, nd := range c.Nodes {
		if nd.ID != lead {
			others = append(others, nd.ID)
		}
	}
	if r.Intn(2) == 0 {
		others[0], others[1] = others[1], others[0]
	}
	// both restarts within one election timeout (1 s), or (every third run of the thorough tier) spread out
	gap := func() time.Duration { return time.Duration(r.Intn(60)) * time.Millisecond }
	if o.Thorough() && idx%3 == 2 {
		gap = func() time.Duration { return time.Duration(200+r.Intn(900)) * time.Millisecond }
	}
	for _, id := range others {
		c.Kill(id)
		time.Sleep(gap())
		if err := c.StartNode(id); err != nil {
			report(witness{Kind: "restart-failed", Detail: fmt.Sprintf("votes: node %d does not restart after kill -9: %v", id, err), Sig: "node-does-not-restart|c07"})
			c.Resume(lead)
			return ""
		}
		st.restarts++
		st.kinds["kill-restart"]++
		st.nemesis++
		time.Sleep(gap())
	}
	// the two restarted nodes are a quorum
	served := c.WaitWritable(others[0], 40*time.Second)
	if served && one(others[1], "SET", "own:v1", "v1-1") {
		w.led.setAck["own:v1"] = "v1-1"
	}
	c.Resume(lead)
	st.nemesis++
	// clients on every node while the old leader finds out
	wg := w.run(2, o.Seed*7919+int64(idx))
	time.Sleep(time.Duration(2500+r.Intn(1500)) * time.Millisecond)
	atomic.StoreInt32(&w.stop, 1)
	wg.Wait()
	st.open += int(w.timeouts)
	ok, why := quiesce(c, w.led, "c07", 240*time.Second)
	checkElectionLog(c, st, "c07")
	if !ok && why == "cluster did not serve writes within the bound" {
		if len(bySigSnapshot()) > 0 {
			return "" // already explained by a reported violation
		}
		return why + clusterDiag(c)
	}
	checkLinearizable(w, st, "c07")
	st.scenarios++
	return ""
}

func bySigSnapshot() []string {
	wmu.Lock()
	defer wmu.Unlock()
	var out []string
	for s := range bySig {
		out = append(out, s)
	}
	return out
}

// scenarioStorm (C07, C08): one node lives many short lives. Its clients reconnect at once and send while the node
// is still re-applying its log; each life ends with kill -9 after a handful of acknowledged operations. The ids that
// route results back to connections, the log replay and the acknowledgements must all stay exact across lives.
func scenarioStorm(o *common.Opts, idx int, st *stats, tag string) string {
	dir := filepath.Join(o.Work, fmt.Sprintf("storm-%s-%d", tag, idx))
	c, err := cluster.New(dir, 3, false, nil)
	if err != nil {
		return err.Error()
	}
	defer c.Stop()
	if !*fKeep {
		defer os.RemoveAll(dir)
	}
	if err := c.StartAll(); err != nil {
		return "start: " + err.Error()
	}
	if !c.WaitAllWritable(90 * time.Second) {
		return "cluster did not become writable"
	}
	r := rand.New(rand.NewSource(o.Seed*32452843 + int64(idx)))
	victim := 1 + r.Intn(3)
	w := newWorkload(c)
	w.rate = 150
	w.retry = 3 * time.Millisecond
	w.simple = true
	wg := w.run(2, o.Seed*613+int64(idx))
	lives := o.Pick(6, 12)
	baseEnv := append([]string{}, c.Nodes[victim-1].Env...)
	for life := 0; life < lives; life++ {
		// this life ends after a few acknowledged operations through the victim (or 3 s)
		w.pnMu.Lock()
		start := w.perNode[victim]
		w.pnMu.Unlock()
		want := int64(1 + r.Intn(8))
		limit := time.Now().Add(3 * time.Second)
		for time.Now().Before(limit) {
			w.pnMu.Lock()
			n := w.perNode[victim] - start
			w.pnMu.Unlock()
			if n >= want {
				break
			}
			time.Sleep(2 * time.Millisecond)
		}
		c.Kill(victim)
		st.nemesis++
		st.kinds["short-life"]++
		env := append([]string{}, baseEnv...)
		switch r.Intn(4) {
		case 0:
			env = append(env, "VERIF_FP=beforeWalSave=sleep:200")
		case 1:
			env = append(env, "VERIF_FP=beforeWalSave=sleep:900")
		}
		c.Nodes[victim-1].Env = env
		time.Sleep(time.Duration(r.Intn(150)) * time.Millisecond)
		if err := c.StartNode(victim); err != nil {
			report(witness{Kind: "restart-failed", Detail: fmt.Sprintf("storm: node %d does not restart after kill -9 in life %d: %v", victim, life, err), Sig: "node-does-not-restart|" + tag})
			break
		}
		st.restarts++
		for _, nd := range c.Nodes {
			if nd.ID != victim && diedOnItsOwn(nd) {
				report(witness{Kind: "node-exit", Detail: fmt.Sprintf("storm: node %d exited although only node %d was killed: %s\n%s", nd.ID, victim, nd.Srv.CrashLine(), tailN(c.NodeLog(nd.ID, 6000), 2000)), Sig: "node-exited|" + crashClass(nd.Srv.CrashLine()+c.NodeLog(nd.ID, 6000))})
			}
		}
	}
	time.Sleep(1500 * time.Millisecond)
	atomic.StoreInt32(&w.stop, 1)
	wg.Wait()
	st.open += int(w.timeouts)
	// last life without a failpoint
	c.Kill(victim)
	c.Nodes[victim-1].Env = baseEnv
	ok, why := quiesce(c, w.led, tag, 240*time.Second)
	checkElectionLog(c, st, tag)
	if !ok && why == "cluster did not serve writes within the bound" {
		if len(bySigSnapshot()) > 0 {
			return ""
		}
		return why + clusterDiag(c)
	}
	checkLinearizable(w, st, tag)
	st.ops += 0
	st.scenarios++
	return ""
}

// scenarioSlowDisk (C08): every node's log write is slow, so at any instant there are operations that were sent,
// counted and answered but whose log write is still ahead on some node. All nodes are killed at once; the former
// followers come back first and serve before the former leader returns. Nothing acknowledged may be missing.
func scenarioSlowDisk(o *common.Opts, idx int, st *stats) string {
	dir := filepath.Join(o.Work, fmt.Sprintf("c08s-%d", idx))
	r := rand.New(rand.NewSource(o.Seed*49979687 + int64(idx)))
	sleep := []int{120, 250, 400}[r.Intn(3)]
	c, err := cluster.New(dir, 3, false, []string{fmt.Sprintf("VERIF_FP=beforeWalSave=sleep:%d", sleep)})
	if err != nil {
		return err.Error()
	}
	defer c.Stop()
	if !*fKeep {
		defer os.RemoveAll(dir)
	}
	if err := c.StartAll(); err != nil {
		return "start: " + err.Error()
	}
	if !c.WaitAllWritable(120 * time.Second) {
		return "cluster did not become writable"
	}
	tag := "slowdisk"
	w := newWorkload(c)
	w.noLists = false
	wg := w.run(2, o.Seed*31337+int64(idx))
	time.Sleep(time.Duration(2500+r.Intn(2500)) * time.Millisecond)
	lead := currentLeader(c)
	// kill everything at once, in the middle of the load
	for _, nd := range c.Nodes {
		nd.Srv.Signal(syscall.SIGKILL)
	}
	for _, nd := range c.Nodes {
		c.Kill(nd.ID)
	}
	atomic.StoreInt32(&w.stop, 1)
	wg.Wait()
	st.open += int(w.timeouts)
	for _, nd := range c.Nodes {
		nd.Env = stripFP(nd.Env)
	}
	var first []int
	for _, nd := range c.Nodes {
		if nd.ID != lead {
			first = append(first, nd.ID)
		}
	}
	if lead == 0 {
		first = first[:2]
	}
	for _, id := range first {
		if err := c.StartNode(id); err != nil {
			report(witness{Kind: "restart-failed", Detail: fmt.Sprintf("%s: node %d does not start from its own files after the crash: %v\n%s", tag, id, err, tailN(c.NodeLog(id, 6000), 2500)), Sig: "node-does-not-restart|" + tag + "|" + crashClass(c.NodeLog(id, 8000))})
			return ""
		}
		st.restarts++
	}
	// the two of them are a quorum: they serve (and may accept new writes) before the third node is back
	if c.WaitWritable(first[0], 120*time.Second) {
		cl, err := respc.Dial(c.Nodes[first[1]-1].Addr(), 3*time.Second)
		if err == nil {
			cl.Timeout = 10 * time.Second
			_, _ = cl.Do("SET", "__ready:two", "1")
			cl.Close()
		}
	}
	st.kinds["slowdisk:kill-all-followers-first"]++
	ok, why := quiesce(c, w.led, tag, 240*time.Second)
	checkElectionLog(c, st, tag)
	if !ok && why == "cluster did not serve writes within the bound" {
		if len(bySigSnapshot()) > 0 {
			return ""
		}
		return why + clusterDiag(c)
	}
	st.ops += int(w.done)
	st.scenarios++
	return ""
}

// scenarioMembership (C07): the configuration changes under client load. Even runs add a fourth node (RCONF add,
// then the new process starts with JoinCluster and must catch up through the log), odd runs remove one of the three
// founders (the removed process ends by design; the other two must stay up). A kill -9 + restart of a remaining
// member follows. Everything acknowledged must be explained by one order and every member must hold the same keyspace.
func scenarioMembership(o *common.Opts, idx int, st *stats) string {
	dir := filepath.Join(o.Work, fmt.Sprintf("c07m-%d", idx))
	add := (idx/10)%2 == 0
	spare := 0
	if add {
		spare = 1
	}
	c, err := cluster.NewSpare(dir, 3, spare, false, nil)
	if err != nil {
		return err.Error()
	}
	defer c.Stop()
	if !*fKeep {
		defer os.RemoveAll(dir)
	}
	if err := c.StartAll(); err != nil {
		return "start: " + err.Error()
	}
	founders := c.Nodes[:3]
	for _, nd := range founders {
		if !c.WaitWritable(nd.ID, 90*time.Second) {
			return "cluster did not become writable"
		}
	}
	r := rand.New(rand.NewSource(o.Seed*86028121 + int64(idx)))
	w := newWorkload(c)
	w.rate = 300
	wg := w.run(2, o.Seed*7919+int64(idx))
	time.Sleep(time.Duration(800+r.Intn(800)) * time.Millisecond)
	via := 1 + r.Intn(3)
	rconf := func(args ...string) bool {
		cl, err := respc.Dial(c.Nodes[via-1].Addr(), 3*time.Second)
		if err != nil {
			return false
		}
		defer cl.Close()
		cl.Timeout = 5 * time.Second
		v, err := cl.Do(args...)
		return err == nil && v.Kind == '+'
	}
	skip := map[int]bool{}
	tag := "c07"
	if add {
		if !rconf("RCONF", "add", "4", c.JoinURL(4)) {
			atomic.StoreInt32(&w.stop, 1)
			wg.Wait()
			return "cluster did not become writable"
		}
		st.kinds["member-add"]++
		time.Sleep(time.Duration(r.Intn(600)) * time.Millisecond)
		if err := c.StartNode(4); err != nil {
			report(witness{Kind: "restart-failed", Detail: fmt.Sprintf("membership: the added node 4 does not start: %v", err), Sig: "node-does-not-restart|c07"})
		}
	} else {
		victim := 1 + r.Intn(3)
		if victim == via {
			via = 1 + via%3
		}
		if !rconf("RCONF", "delete", strconv.Itoa(victim)) {
			atomic.StoreInt32(&w.stop, 1)
			wg.Wait()
			return "cluster did not become writable"
		}
		st.kinds["member-remove"]++
		skip[victim] = true
	}
	st.nemesis++
	time.Sleep(time.Duration(1500+r.Intn(1000)) * time.Millisecond)
	// nobody but a removed member may have ended
	for _, nd := range c.Nodes {
		if diedOnItsOwn(nd) && !skip[nd.ID] {
			report(witness{Kind: "node-exit", Detail: fmt.Sprintf("membership change (%v) through node %d: node %d exited: %s\n%s", st.kinds, via, nd.ID, nd.Srv.CrashLine(), strings.Join(c.Grep(nd.ID, []string{"panic", "fatal", "runtime error"}, 400, 5), "\n")),
				Sig: "node-exited|membership|" + crashClass(nd.Srv.CrashLine()+c.NodeLog(nd.ID, 6000))})
		}
	}
	// a crash-restart of a remaining member on top
	var rest []int
	for _, nd := range c.Nodes {
		if !skip[nd.ID] && nd.Srv != nil && !nd.Srv.Exited() {
			rest = append(rest, nd.ID)
		}
	}
	if len(rest) > 0 {
		k := rest[r.Intn(len(rest))]
		c.Kill(k)
		time.Sleep(time.Duration(300+r.Intn(700)) * time.Millisecond)
		if err := c.StartNode(k); err != nil {
			report(witness{Kind: "restart-failed", Detail: fmt.Sprintf("membership: node %d does not restart after kill -9: %v", k, err), Sig: "node-does-not-restart|c07"})
		}
		st.restarts++
		st.kinds["kill-restart"]++
		st.nemesis++
	}
	time.Sleep(time.Duration(1500+r.Intn(1000)) * time.Millisecond)
	atomic.StoreInt32(&w.stop, 1)
	wg.Wait()
	st.open += int(w.timeouts)
	ok, why := quiesceOn(c, w.led, tag, 240*time.Second, skip)
	checkElectionLog(c, st, tag)
	if !ok && why == "cluster did not serve writes within the bound" {
		if len(bySigSnapshot()) > 0 {
			return ""
		}
		return why + clusterDiag(c)
	}
	checkLinearizable(w, st, tag)
	st.scenarios++
	return ""
}

// scenarioDeposedTail (C08, C07): the leader is cut off from both peers while its clients keep sending, so it appends
// and persists entries that are never replicated. The other two elect a leader and acknowledge writes at the same log
// indexes. The link is restored: the old leader has to replace its tail (two or more entries) by the acknowledged
// ones, in memory and on disk. It is then killed and restarted (twice), so what it holds comes from its files only;
// finally every node is killed and the old leader comes back first. Every acknowledged write must be on every node
// and the replicas must agree.
func scenarioDeposedTail(o *common.Opts, idx int, st *stats, tag string) string {
	dir := filepath.Join(o.Work, fmt.Sprintf("tail-%s-%d", tag, idx))
	c, err := cluster.New(dir, 3, false, nil)
	if err != nil {
		return err.Error()
	}
	defer c.Stop()
	if !*fKeep {
		defer os.RemoveAll(dir)
	}
	if err := c.StartAll(); err != nil {
		return "start: " + err.Error()
	}
	if !c.WaitAllWritable(90 * time.Second) {
		return "cluster did not become writable"
	}
	r := rand.New(rand.NewSource(o.Seed*86028121 + int64(idx)))
	w := newWorkload(c)
	w.rate = 200
	w.retry = 5 * time.Millisecond // retired clients are replaced at once: the cut-off leader keeps getting proposals
	// C08 watches the ledger commands; C07 wants the shared registers, counters and collections read and written on
	// both sides of the cut (a read answered by the cut-off leader must not miss a write acknowledged by the others)
	w.simple = tag == "c08"
	if tag == "c07" {
		w.readers = 1
	}
	wg := w.run(2, o.Seed*104729+int64(idx))
	time.Sleep(time.Duration(1200+r.Intn(800)) * time.Millisecond)
	lead := currentLeader(c)
	if lead == 0 {
		atomic.StoreInt32(&w.stop, 1)
		wg.Wait()
		return "cluster did not become writable"
	}
	w.pnMu.Lock()
	before := w.perNode[lead]
	w.pnMu.Unlock()
	c.Partition([]int{lead})
	st.nemesis++
	st.kinds["isolate-leader-under-load"]++
	defer func() {
		if os.Getenv("VERIF_DEBUG") != "" {
			fmt.Printf("DEBUG deposed-tail %s-%d: node %d acknowledged %d operations while cut off\n", tag, idx, lead, st.cutoffAcks)
		}
	}()
	// long enough for the other two to elect (1 s election timeout, randomised) and to acknowledge writes
	time.Sleep(time.Duration(4500+r.Intn(2000)) * time.Millisecond)
	w.pnMu.Lock()
	st.cutoffAcks += int(w.perNode[lead] - before)
	w.pnMu.Unlock()
	c.Heal()
	st.nemesis++
	// the old leader learns the new term and replaces its tail
	time.Sleep(time.Duration(2000+r.Intn(1000)) * time.Millisecond)
	for k := 0; k < 2; k++ {
		c.Kill(lead)
		time.Sleep(time.Duration(50+r.Intn(200)) * time.Millisecond)
		if err := c.StartNode(lead); err != nil {
			report(witness{Kind: "restart-failed", Detail: fmt.Sprintf("%s: the former leader (node %d) does not restart after kill -9: %v\n%s", tag, lead, err, tailN(c.NodeLog(lead, 6000), 2500)), Sig: "node-does-not-restart|" + tag + "|" + crashClass(c.NodeLog(lead, 8000))})
			atomic.StoreInt32(&w.stop, 1)
			wg.Wait()
			return ""
		}
		st.restarts++
		st.kinds["kill-restart"]++
		time.Sleep(time.Duration(1500+r.Intn(500)) * time.Millisecond)
	}
	atomic.StoreInt32(&w.stop, 1)
	wg.Wait()
	st.open += int(w.timeouts)
	// everything down; the former leader first, then one more node: the two of them serve from their own files
	for _, nd := range c.Nodes {
		nd.Srv.Signal(syscall.SIGKILL)
	}
	for _, nd := range c.Nodes {
		c.Kill(nd.ID)
	}
	second := 1 + (lead % 3)
	for _, id := range []int{lead, second} {
		if err := c.StartNode(id); err != nil {
			report(witness{Kind: "restart-failed", Detail: fmt.Sprintf("%s: node %d does not start from its own files after the crash: %v\n%s", tag, id, err, tailN(c.NodeLog(id, 6000), 2500)), Sig: "node-does-not-restart|" + tag + "|" + crashClass(c.NodeLog(id, 8000))})
			return ""
		}
		st.restarts++
	}
	st.kinds["kill-all-former-leader-first"]++
	ok, why := quiesce(c, w.led, tag, 240*time.Second)
	checkElectionLog(c, st, tag)
	if !ok && why == "cluster did not serve writes within the bound" {
		if len(bySigSnapshot()) > 0 {
			return ""
		}
		return why + clusterDiag(c)
	}
	checkLinearizable(w, st, tag)
	st.ops += 0
	st.scenarios++
	return ""
}

// scenarioLossyPosts (C07): for a few seconds the peers cannot keep their streams and every message travels as a POST
// of its own whose response is lost after the message was delivered (the connection just ends). A sender cannot tell
// "lost" from "delivered": whatever it does about that, a command forwarded to the leader must take effect at most
// once and every acknowledged command exactly once.
func scenarioLossyPosts(o *common.Opts, idx int, st *stats) string {
	dir := filepath.Join(o.Work, fmt.Sprintf("c07l-%d", idx))
	c, err := cluster.New(dir, 3, false, nil)
	if err != nil {
		return err.Error()
	}
	defer c.Stop()
	if !*fKeep {
		defer os.RemoveAll(dir)
	}
	if err := c.StartAll(); err != nil {
		return "start: " + err.Error()
	}
	if !c.WaitAllWritable(90 * time.Second) {
		return "cluster did not become writable"
	}
	r := rand.New(rand.NewSource(o.Seed*2750159 + int64(idx)))
	w := newWorkload(c)
	w.rate = 300
	w.readers = 1
	// the first message a node writes into a stream that has just died is lost (and the command never answered):
	// clients give up quickly here and their successors' commands travel as POSTs
	w.opTimeout = 1200 * time.Millisecond
	w.retry = 5 * time.Millisecond
	wg := w.run(2, o.Seed*15013+int64(idx))
	time.Sleep(time.Duration(1000+r.Intn(800)) * time.Millisecond)
	for round := 0; round < 2; round++ {
		w.pnMu.Lock()
		before := map[int]int64{}
		for k, v := range w.perNode {
			before[k] = v
		}
		w.pnMu.Unlock()
		dropped := c.LossyPosts()
		st.nemesis++
		st.kinds["lossy-posts"]++
		defer func() {
			if os.Getenv("VERIF_DEBUG") != "" {
				w.pnMu.Lock()
				fmt.Printf("DEBUG lossy-posts: leader %d; acknowledged per node before %v, at the end %v\n", currentLeader(c), before, w.perNode)
				w.pnMu.Unlock()
			}
		}()
		time.Sleep(time.Duration(3000+r.Intn(1500)) * time.Millisecond)
		st.droppedResponses += int(dropped())
		st.droppedProposals = int(c.DroppedProposals())

		c.Heal()
		time.Sleep(time.Duration(1500+r.Intn(1000)) * time.Millisecond)
	}
	atomic.StoreInt32(&w.stop, 1)
	wg.Wait()
	st.open += int(w.timeouts)
	ok, why := quiesce(c, w.led, "c07", 240*time.Second)
	checkElectionLog(c, st, "c07")
	if !ok && why == "cluster did not serve writes within the bound" {
		if len(bySigSnapshot()) > 0 {
			return ""
		}
		return why + clusterDiag(c)
	}
	checkLinearizable(w, st, "c07")
	st.scenarios++
	return ""
}

// scenarioBigLog (C08): the log outgrows the page sizes raft works with (1 MB per append message and per batch of
// committed entries). A follower is killed, values between a few bytes and 900 KB are acknowledged while it is away
// and the ordinary small writes go on; it returns and is fed the log page by page while new small entries keep
// arriving; then every node is killed and restarted under load, so each replays a log of several pages while the new
// leader's appends arrive. Every acknowledged write - small or large - must be on every node, once, unchanged.
func scenarioBigLog(o *common.Opts, idx int, st *stats) string {
	dir := filepath.Join(o.Work, fmt.Sprintf("c08big-%d", idx))
	// every log write takes 40 ms: between two writes a node has entries in memory that are not in its log yet, which is
	// when a page cut short by the size limit meets entries of the other kind
	c, err := cluster.New(dir, 3, false, []string{"VERIF_FP=beforeWalSave=sleep:40"})
	if err != nil {
		return err.Error()
	}
	defer c.Stop()
	if !*fKeep {
		defer os.RemoveAll(dir)
	}
	if err := c.StartAll(); err != nil {
		return "start: " + err.Error()
	}
	if !c.WaitAllWritable(120 * time.Second) {
		return "cluster did not become writable"
	}
	tag := "biglog"
	r := rand.New(rand.NewSource(o.Seed*86028121 + int64(idx)))
	lead := 0
	for t := 0; t < 100 && lead == 0; t++ {
		lead = currentLeader(c)
		time.Sleep(100 * time.Millisecond)
	}
	if lead == 0 {
		return "no leader announced"
	}
	victim := lead%3 + 1
	w := newWorkload(c)
	w.rate = 300
	w.retry = 3 * time.Millisecond
	w.simple = true
	wg := w.run(2, o.Seed*7907+int64(idx))
	time.Sleep(800 * time.Millisecond)
	c.Kill(victim)
	st.nemesis++
	// large and small values through the leader; sizes chosen so that a page boundary falls before a large entry
	// while the next small one would still fit
	sizes := []int{400 << 10, 120, 700 << 10, 50 << 10, 400 << 10, 300, 900 << 10, 17, 400 << 10, 400 << 10, 64, 400 << 10, 250 << 10, 9}
	r.Shuffle(len(sizes), func(i, j int) { sizes[i], sizes[j] = sizes[j], sizes[i] })
	type big struct {
		key string
		val []byte
	}
	var acked []big
	bulk := func(addr string, from, to int) bool {
		cl, err := respc.Dial(addr, 5*time.Second)
		if err != nil {
			return false
		}
		defer cl.Close()
		cl.Timeout = 30 * time.Second
		for i := from; i < to; i++ {
			val := make([]byte, sizes[i])
			for j := range val {
				val[j] = byte('a' + (i*31+j*7+j/251)%26)
			}
			copy(val, fmt.Sprintf("big%d|", i))
			key := fmt.Sprintf("big:%d:%d", idx, i)
			v, err := cl.DoB([][]byte{[]byte("SET"), []byte(key), val})
			if err != nil {
				return false // effect unknown: not recorded as acknowledged
			}
			if v.Kind == '+' {
				acked = append(acked, big{key, val})
			}
			time.Sleep(time.Duration(20+r.Intn(60)) * time.Millisecond)
		}
		return true
	}
	half := len(sizes) / 2
	bulk(c.Nodes[lead-1].Addr(), 0, half)
	// the follower returns and is fed what it missed, page by page, while writes of both kinds continue
	if err := c.StartNode(victim); err != nil {
		report(witness{Kind: "restart-failed", Detail: fmt.Sprintf("%s: node %d does not restart: %v\n%s", tag, victim, err, tailN(c.NodeLog(victim, 6000), 2500)), Sig: "node-does-not-restart|" + tag + "|" + crashClass(c.NodeLog(victim, 8000))})
		return ""
	}
	st.restarts++
	bulk(c.Nodes[lead-1].Addr(), half, len(sizes))
	c.WaitWritable(victim, 120*time.Second)
	st.kinds["biglog:follower-catches-up-over-several-pages"]++
	// everybody is killed and comes back under load: each node replays several pages of committed entries while the
	// new leader's appends arrive
	for _, nd := range c.Nodes {
		nd.Srv.Signal(syscall.SIGKILL)
	}
	for _, nd := range c.Nodes {
		c.Kill(nd.ID)
	}
	order := r.Perm(3)
	for _, k := range order {
		id := k + 1
		if err := c.StartNode(id); err != nil {
			report(witness{Kind: "restart-failed", Detail: fmt.Sprintf("%s: node %d does not start from its own files: %v\n%s", tag, id, err, tailN(c.NodeLog(id, 6000), 2500)), Sig: "node-does-not-restart|" + tag + "|" + crashClass(c.NodeLog(id, 8000))})
			return ""
		}
		st.restarts++
	}
	st.kinds["biglog:kill-all-replay-over-several-pages"]++
	c.WaitAllWritable(180 * time.Second)
	time.Sleep(1500 * time.Millisecond)
	atomic.StoreInt32(&w.stop, 1)
	wg.Wait()
	st.open += int(w.timeouts)
	ok, why := quiesce(c, w.led, tag, 240*time.Second)
	checkElectionLog(c, st, tag)
	if !ok {
		if why == "cluster did not serve writes within the bound" && len(bySigSnapshot()) == 0 {
			return why + clusterDiag(c)
		}
		return ""
	}
	for _, nd := range c.Nodes {
		cl, err := respc.Dial(nd.Addr(), 5*time.Second)
		if err != nil {
			continue
		}
		cl.Timeout = 30 * time.Second
		for _, b := range acked {
			v, err := cl.Do("GET", b.key)
			if err != nil {
				break
			}
			st.bigChecked++
			if v.Nil || string(v.Str) != string(b.val) {
				got := fmt.Sprintf("%d bytes", len(v.Str))
				if v.Nil {
					got = "nothing"
				} else if len(v.Str) == len(b.val) {
					got += " (content differs)"
				}
				report(witness{Kind: "lost-write", Detail: fmt.Sprintf("%s: node %d: SET %s (%d bytes) was acknowledged; the node now holds %s", tag, nd.ID, b.key, len(b.val), got), Sig: "lost-acknowledged-large-value|" + tag})
				break
			}
		}
		cl.Close()
	}
	checkLinearizable(w, st, tag)
	st.ops += int(w.done)
	st.scenarios++
	return ""
}
