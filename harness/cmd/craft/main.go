// Command craft decides C07 (cluster mode is linearizable and all replicas
// apply the same history) and C08 (acknowledged cluster writes survive crashes
// and restarts) on real node processes: clients on every node record
// call/return at the socket, a seeded nemesis cuts/delays links (forwarder
// mesh), pauses, kills and restarts nodes, failpoints at the seams of the
// Ready loop kill a node at a chosen hit, and the snapshot threshold is
// lowered. Oracles: porcupine per key with open operations, an
// acknowledged-write ledger checked on every node, equality of the replica
// dumps at quiescence, tagged PING round trips (misrouted replies), node
// liveness.
package main

import (
	"encoding/json"
	"flag"
	"fmt"
	"math/rand"
	"os"
	"path/filepath"
	"sort"
	"strconv"
	"strings"
	"sync"
	"sync/atomic"
	"syscall"
	"time"

	"github.com/anishathalye/porcupine"

	"rgverif/internal/cluster"
	"rgverif/internal/common"
	"rgverif/internal/evidence"
	"rgverif/internal/findings"
	"rgverif/internal/inproc"
	"rgverif/internal/model"
	"rgverif/internal/respc"
)

var fProp = flag.String("prop", "C07", "C07 or C08")
var fOnly = flag.String("only", "", "run only the scenarios whose name (C08: regime:seam) contains this text; the run is then for exploration only")
var fKeep = flag.Bool("keep", false, "keep node directories (debugging)")

type witness struct {
	Kind    string     `json:"kind"`
	Detail  string     `json:"detail"`
	History [][]string `json:"history,omitempty"`
	Sig     string     `json:"sig"`
}

var (
	wmu   sync.Mutex
	bySig = map[string]witness{}
)

func report(w witness) {
	wmu.Lock()
	if _, ok := bySig[w.Sig]; !ok {
		bySig[w.Sig] = w
	}
	wmu.Unlock()
}

const unknownKind = 'U'

type opIn struct {
	Cmd [][]byte
	Key string
}

func cmdStr(c [][]byte) string {
	p := make([]string, len(c))
	for i, a := range c {
		p[i] = strconv.Quote(string(a))
	}
	return strings.Join(p, " ")
}

func pModel() porcupine.Model {
	return porcupine.Model{
		Partition: func(h []porcupine.Operation) [][]porcupine.Operation {
			by := map[string][]porcupine.Operation{}
			var keys []string
			for _, op := range h {
				k := op.Input.(opIn).Key
				if _, ok := by[k]; !ok {
					keys = append(keys, k)
				}
				by[k] = append(by[k], op)
			}
			sort.Strings(keys)
			var out [][]porcupine.Operation
			for _, k := range keys {
				out = append(out, by[k])
			}
			return out
		},
		Init: func() interface{} { return model.NewPState() },
		Step: func(state, input, output interface{}) (bool, interface{}) {
			st := state.(model.PState)
			in := input.(opIn)
			out := output.(respc.Value)
			if out.Kind == unknownKind {
				// no reply was seen: the command takes effect (its reference transition) at some point after
				// the call - possibly after everything else, which is the same as never being observed
				ndb := st.DB.Clone()
				ndb.Step(in.Cmd, respc.Value{}, model.Time{T0: 1, T1: 1, Ms0: 1000, Ms1: 1000})
				return true, model.PState{DB: ndb, Repr: ndb.Canon()}
			}
			ok, next, _ := st.Apply(in.Cmd, out)
			return ok, next
		},
		Equal: func(a, b interface{}) bool { return a.(model.PState).Repr == b.(model.PState).Repr },
		DescribeOperation: func(input, output interface{}) string {
			return cmdStr(input.(opIn).Cmd) + " -> " + output.(respc.Value).String()
		},
	}
}

// ---- workload -----------------------------------------------------------------

type ledger struct {
	mu      sync.Mutex
	acked   map[string][]int // log key -> acknowledged elements in order
	open    map[string][]int // elements whose RPUSH got no reply
	incrAck int64
	incrOpn int64
	setAck  map[string]string // unique key -> value (acknowledged SET of a key nobody else writes)
}

type workload struct {
	c         *cluster.Cluster
	ops       []porcupine.Operation
	opsMu     sync.Mutex
	led       *ledger
	start     time.Time
	stop      int32
	nextID    int64
	done      int64
	timeouts  int64
	tagBad    int64
	perNode   map[int]int64
	pnMu      sync.Mutex
	pace      time.Duration // pause after every acknowledged operation (keeps the log short, so that restarts replay quickly)
	noLists   bool          // never create list values (a snapshot of a list kills the node: KF-C08-01 would hide everything else)
	retry     time.Duration // pause before reconnecting (default 200 ms)
	simple    bool          // only commands whose reply identifies the command (tagged PING, counter, own list, own register)
	opTimeout time.Duration // how long a client waits for a reply before it is retired (default 4 s, every third client 10 s)
	readers   int           // read-only clients per node (they never wait for a write of their own, so a node that answers reads by itself keeps answering them while cut off)
	rate      float64       // if > 0: operations started per second over all clients (a node re-applies its whole log on restart and logs quadratically, so the log length bounds the recovery time)
	issued    int64
}

func (w *workload) now() int64 { return time.Since(w.start).Nanoseconds() }

var keyFam = map[string]string{"reg0": "reg", "reg1": "reg", "ctr0": "ctr", "list0": "list", "set0": "set", "hash0": "hash"}

func (w *workload) genOp(r *rand.Rand, uniq string) ([][]byte, string) {
	keys := []string{"reg0", "reg1", "ctr0", "list0", "set0", "hash0"}
	k := keys[r.Intn(len(keys))]
	if w.noLists && k == "list0" {
		k = "reg0"
	}
	c := respc.Cmd
	switch keyFam[k] {
	case "reg":
		switch r.Intn(4) {
		case 0, 1:
			return c("SET", k, uniq), k
		case 2:
			return c("GET", k), k
		}
		return c("APPEND", k, uniq), k
	case "ctr":
		if r.Intn(3) == 0 {
			return c("GET", k), k
		}
		return c("INCR", k), k
	case "list":
		switch r.Intn(5) {
		case 0, 1:
			return c("RPUSH", k, uniq), k
		case 2:
			return c("LPOP", k), k
		case 3:
			return c("LRANGE", k, "0", "-1"), k
		}
		return c("LLEN", k), k
	case "set":
		m := "m" + strconv.Itoa(r.Intn(4))
		switch r.Intn(4) {
		case 0, 1:
			return c("SADD", k, m), k
		case 2:
			return c("SREM", k, m), k
		}
		return c("SMEMBERS", k), k
	}
	f := "f" + strconv.Itoa(r.Intn(3))
	switch r.Intn(4) {
	case 0, 1:
		return c("HSET", k, f, uniq), k
	case 2:
		return c("HGET", k, f), k
	}
	return c("HINCRBY", k, "n", "1"), k
}

// client runs one logical client against one node until stopped; after an operation without reply the
// logical client is retired and a new one (new id, new connection) takes over.
func (w *workload) client(node int, seed int64, wg *sync.WaitGroup, readOnly bool) {
	defer wg.Done()
	r := rand.New(rand.NewSource(seed))
	retry := w.retry
	if retry == 0 {
		retry = 200 * time.Millisecond
	}
	for atomic.LoadInt32(&w.stop) == 0 {
		id := int(atomic.AddInt64(&w.nextID, 1))
		nd := w.c.Nodes[node-1]
		if nd.Srv == nil || nd.Srv.Exited() {
			time.Sleep(retry)
			continue
		}
		cl, err := respc.Dial(nd.Addr(), 2*time.Second)
		if err != nil {
			time.Sleep(retry)
			continue
		}
		cl.Timeout = 4 * time.Second
		if id%3 == 0 {
			cl.Timeout = 10 * time.Second // patient clients: an operation that commits late is acknowledged to them
		}
		if w.opTimeout > 0 {
			cl.Timeout = w.opTimeout
		}
		logKey := fmt.Sprintf("log:%d", id)
		ownKey := fmt.Sprintf("own:%d", id)
		// key names are byte strings: some of the ledger's keys are not valid UTF-8 (whatever stores or ships the
		// keyspace - log entries, snapshots - has to carry them unchanged)
		if id%2 == 1 {
			ownKey = fmt.Sprintf("own\xff\xfe:%d", id)
		}
		if id%4 == 1 {
			logKey = fmt.Sprintf("log\x80\xc3:%d", id)
		}
		n := 0
		for atomic.LoadInt32(&w.stop) == 0 {
			n++
			uniq := fmt.Sprintf("c%d-%d", id, n)
			var cmd [][]byte
			key := ""
			kind := r.Intn(10)
			if w.simple {
				kind = r.Intn(5)
			}
			if w.noLists && kind == 0 {
				kind = 3
			}
			switch {
			case readOnly:
				cmd, key = w.genRead(r)
				time.Sleep(time.Duration(5+r.Intn(20)) * time.Millisecond) // readers are light: they must not fill the log
			case kind == 0:
				cmd = respc.Cmd("RPUSH", logKey, strconv.Itoa(n))
			case kind == 1:
				cmd = respc.Cmd("PING", "tag-"+uniq)
			case kind == 2:
				cmd = respc.Cmd("INCR", "total")
			case kind == 3:
				cmd = respc.Cmd("SET", ownKey, uniq)
			default:
				cmd, key = w.genOp(r, uniq)
			}
			if w.rate > 0 {
				for atomic.LoadInt32(&w.stop) == 0 && atomic.LoadInt64(&w.issued) >= int64(w.rate*time.Since(w.start).Seconds()/12)*12 { // admitted in bursts of 12, so that operations overlap
					time.Sleep(2 * time.Millisecond)
				}
				atomic.AddInt64(&w.issued, 1)
			}
			call := w.now()
			v, err := cl.DoB(cmd)
			ret := w.now()
			name := strings.ToUpper(string(cmd[0]))
			if err != nil {
				atomic.AddInt64(&w.timeouts, 1)
				// open operation: it may still take effect later
				if key != "" {
					w.opsMu.Lock()
					w.ops = append(w.ops, porcupine.Operation{ClientId: id, Input: opIn{Cmd: cmd, Key: key}, Call: call, Output: respc.Value{Kind: unknownKind}, Return: 1 << 60})
					w.opsMu.Unlock()
				}
				w.led.mu.Lock()
				switch {
				case name == "RPUSH" && key == "":
					w.led.open[logKey] = append(w.led.open[logKey], n)
				case name == "INCR" && key == "":
					w.led.incrOpn++
				}
				w.led.mu.Unlock()
				break // retire this logical client
			}
			atomic.AddInt64(&w.done, 1)
			if w.pace > 0 {
				time.Sleep(w.pace)
			}
			w.pnMu.Lock()
			w.perNode[node]++
			w.pnMu.Unlock()
			if key != "" {
				w.opsMu.Lock()
				w.ops = append(w.ops, porcupine.Operation{ClientId: id, Input: opIn{Cmd: cmd, Key: key}, Call: call, Output: v, Return: ret})
				w.opsMu.Unlock()
				continue
			}
			switch name {
			case "PING":
				if v.Kind != '$' || string(v.Str) != "tag-"+uniq {
					atomic.AddInt64(&w.tagBad, 1)
					report(witness{Kind: "misrouted-reply", Detail: fmt.Sprintf("client %d on node %d sent PING tag-%s and received %s: the reply of another command", id, node, uniq, v.String()), Sig: "misrouted-reply"})
				}
			case "RPUSH":
				w.led.mu.Lock()
				if v.Kind == ':' {
					w.led.acked[logKey] = append(w.led.acked[logKey], n)
				}
				w.led.mu.Unlock()
				if v.Kind != ':' {
					report(witness{Kind: "misrouted-reply", Detail: fmt.Sprintf("client %d on node %d sent %s and received %s: not the reply of an RPUSH to a list only this client uses", id, node, cmdStr(cmd), v.String()), Sig: "misrouted-reply"})
				}
			case "INCR":
				w.led.mu.Lock()
				if v.Kind == ':' {
					w.led.incrAck++
				}
				w.led.mu.Unlock()
				if v.Kind != ':' {
					report(witness{Kind: "misrouted-reply", Detail: fmt.Sprintf("client %d on node %d sent %s and received %s: not the reply of an INCR on a counter that only ever sees INCR", id, node, cmdStr(cmd), v.String()), Sig: "misrouted-reply"})
				}
			case "SET":
				w.led.mu.Lock()
				if v.Kind == '+' {
					w.led.setAck[ownKey] = uniq
				}
				w.led.mu.Unlock()
				if v.Kind != '+' {
					report(witness{Kind: "misrouted-reply", Detail: fmt.Sprintf("client %d on node %d sent %s and received %s: not the reply of a plain SET", id, node, cmdStr(cmd), v.String()), Sig: "misrouted-reply"})
				}
			}
		}
		cl.Close()
	}
}

type dumpEntry struct {
	Key  []byte
	Type string
	Str  []byte
	List [][]byte
	Set  [][]byte
	Hash [][2][]byte
	ZSet []json.RawMessage
}

func dumpNode(addr string) (map[string]dumpEntry, string, error) {
	c, err := respc.Dial(addr, 10*time.Second)
	if err != nil {
		return nil, "", err
	}
	defer c.Close()
	c.Timeout = 15 * time.Second
	v, err := c.Do("verif.dump")
	if err != nil {
		return nil, "", err
	}
	if v.Kind != '$' {
		return nil, "", fmt.Errorf("verif.dump replied %s", v.String())
	}
	var es []dumpEntry
	if err := json.Unmarshal(v.Str, &es); err != nil {
		return nil, "", err
	}
	out := map[string]dumpEntry{}
	var canon []string
	for _, e := range es {
		if strings.HasPrefix(string(e.Key), "__ready") {
			continue
		}
		out[string(e.Key)] = e
		b, _ := json.Marshal(e)
		canon = append(canon, string(b))
	}
	sort.Strings(canon)
	return out, strings.Join(canon, "\n"), nil
}

// checkLedger verifies every acknowledged write on one node's dump.
func checkLedger(led *ledger, node int, d map[string]dumpEntry, tag string) {
	led.mu.Lock()
	defer led.mu.Unlock()
	for key, acked := range led.acked {
		var have []int
		for _, x := range d[key].List {
			n, _ := strconv.Atoi(string(x))
			have = append(have, n)
		}
		count := map[int]int{}
		for _, n := range have {
			count[n]++
		}
		for _, n := range acked {
			if count[n] == 0 {
				report(witness{Kind: "lost-write", Detail: fmt.Sprintf("%s: node %d: element %d of %s was acknowledged to the client but is missing (list holds %v)", tag, node, n, key, have), Sig: "lost-acknowledged-write|" + tag})
				return
			}
		}
		openSet := map[int]bool{}
		for _, n := range led.open[key] {
			openSet[n] = true
		}
		for n, c := range count {
			if c > 1 {
				report(witness{Kind: "duplicate-apply", Detail: fmt.Sprintf("%s: node %d: element %d of %s was applied %d times", tag, node, n, key, c), Sig: "write-applied-twice|" + tag})
				return
			}
			ok := openSet[n]
			for _, a := range acked {
				if a == n {
					ok = true
				}
			}
			if !ok {
				report(witness{Kind: "phantom", Detail: fmt.Sprintf("%s: node %d: element %d of %s was never sent", tag, node, n, key), Sig: "phantom-write|" + tag})
				return
			}
		}
		// per-client order
		last := -1
		for _, n := range have {
			if n <= last {
				report(witness{Kind: "order", Detail: fmt.Sprintf("%s: node %d: %s holds %v: not in the client's order", tag, node, key, have), Sig: "client-order|" + tag})
				return
			}
			last = n
		}
	}
	if led.incrAck > 0 || led.incrOpn > 0 {
		got, _ := strconv.ParseInt(string(d["total"].Str), 10, 64)
		if got < led.incrAck || got > led.incrAck+led.incrOpn {
			report(witness{Kind: "counter", Detail: fmt.Sprintf("%s: node %d: counter reads %d; acknowledged INCRs %d, without reply %d", tag, node, got, led.incrAck, led.incrOpn), Sig: "counter-outside-[acked,acked+open]|" + tag})
		}
	}
	for k, v := range led.setAck {
		if string(d[k].Str) != v {
			// the same client may have had a later SET without reply
			if !strings.HasPrefix(string(d[k].Str), strings.SplitN(v, "-", 2)[0]+"-") {
				report(witness{Kind: "lost-write", Detail: fmt.Sprintf("%s: node %d: key %s holds %q, acknowledged value %q", tag, node, k, d[k].Str, v), Sig: "lost-acknowledged-set|" + tag})
				return
			}
		}
	}
}

// quiesce heals, restarts, waits for every node, puts a barrier write through every node, dumps and compares.
func quiesce(c *cluster.Cluster, led *ledger, tag string, limit time.Duration) (ok bool, why string) {
	return quiesceOn(c, led, tag, limit, nil)
}

// quiesceOn leaves out the nodes in skip (members removed from the cluster, spare nodes never added).
func quiesceOn(c *cluster.Cluster, led *ledger, tag string, limit time.Duration, skip map[int]bool) (ok bool, why string) {
	var nodes []*cluster.Node
	for _, nd := range c.Nodes {
		if !skip[nd.ID] {
			nodes = append(nodes, nd)
		}
	}
	c.Heal()
	for _, nd := range nodes {
		if nd.Srv == nil || nd.Srv.Exited() {
			if err := c.StartNode(nd.ID); err != nil {
				report(witness{Kind: "restart-failed", Detail: fmt.Sprintf("%s: node %d does not start with its own intact files: %v\n%s", tag, nd.ID, err, tailN(c.NodeLog(nd.ID, 4000), 1500)), Sig: "node-does-not-restart|" + tag})
				return false, "node does not restart"
			}
		}
	}
	allWritable := true
	for attempt := 0; attempt < 4; attempt++ {
		allWritable = true
		bind := false
		for _, nd := range nodes {
			if !c.WaitWritable(nd.ID, limit) {
				allWritable = false
				bind = nd.Srv != nil && nd.Srv.Exited() && nd.Srv.BindError()
				break
			}
		}
		if allWritable || !bind {
			break
		}
		// a listener could not bind (the environment, not the node): the cluster harness starts it again
		time.Sleep(time.Second)
	}
	if !allWritable {
		for _, nd := range nodes {
			if diedOnItsOwn(nd) {
				report(witness{Kind: "node-exit", Detail: fmt.Sprintf("%s: node %d exited during recovery: %s\n%s", tag, nd.ID, nd.Srv.CrashLine(), tailN(c.NodeLog(nd.ID, 4000), 1500)), Sig: "node-exited-on-recovery|" + tag + "|" + crashClass(nd.Srv.CrashLine()+c.NodeLog(nd.ID, 4000))})
				return false, "node exited"
			}
		}
		// positive evidence of a wedged node: its apply loop (the one goroutine that executes committed commands)
		// parked on a channel send - a result nobody is waiting for - while the process is alive
		for _, nd := range nodes {
			if nd.Srv == nil || nd.Srv.Exited() {
				continue
			}
			dump := nd.Srv.Dump() // (ends the process)
			for _, g := range strings.Split(dump, "\n\n") {
				if strings.Contains(g, "server.handleClusterCommits") && strings.Contains(g, "[chan send") {
					report(witness{Kind: "apply-loop-wedged", Detail: fmt.Sprintf("%s: node %d is alive but serves no write within the bound; its apply loop is parked handing a result to a connection that is not waiting for one (a committed command nobody asked for at this moment, e.g. a second copy):\n%s", tag, nd.ID, inproc.TopFrames(g, 8)),
						Sig: "apply-loop-wedged|" + tag})
					return false, "apply loop wedged"
				}
			}
		}
		return false, "cluster did not serve writes within the bound"
	}
	// barrier: one write acknowledged through every node, so each node has applied everything acknowledged before
	for _, nd := range nodes {
		cl, err := respc.Dial(nd.Addr(), 5*time.Second)
		if err != nil {
			return false, "barrier dial failed"
		}
		cl.Timeout = 20 * time.Second
		_, err = cl.Do("SET", fmt.Sprintf("__ready:barrier:%d", nd.ID), tag)
		cl.Close()
		if err != nil {
			return false, "barrier write failed"
		}
	}
	time.Sleep(300 * time.Millisecond)
	var first string
	for _, nd := range nodes {
		d, canon, err := dumpNode(nd.Addr())
		if err != nil {
			return false, "dump failed: " + err.Error()
		}
		checkLedger(led, nd.ID, d, tag)
		if first == "" {
			first = canon
		} else if canon != first {
			report(witness{Kind: "replica-divergence", Detail: fmt.Sprintf("%s: node %d holds a different keyspace than node 1 although both applied the same log prefix:\n%s", tag, nd.ID, diffLines(first, canon)), Sig: "replica-divergence|" + tag})
		}
	}
	return true, ""
}

// clusterDiag says, for an inconclusive run, what each node was doing (the last lines of its output).
func clusterDiag(c *cluster.Cluster) string {
	var b strings.Builder
	for _, nd := range c.Nodes {
		state := "running"
		if nd.Srv == nil || nd.Srv.Exited() {
			state = "exited"
		}
		lines := strings.Split(strings.TrimSpace(tailN(c.NodeLog(nd.ID, 3000), 600)), "\n")
		if len(lines) > 3 {
			lines = lines[len(lines)-3:]
		}
		fmt.Fprintf(&b, "; node %d %s: %s", nd.ID, state, strings.Join(lines, " / "))
	}
	return b.String()
}

// diedOnItsOwn: the process ended, and not because a listener found its port taken.
func diedOnItsOwn(nd *cluster.Node) bool {
	return nd.Srv != nil && nd.Srv.Exited() && !nd.Srv.BindError()
}

func crashClass(s string) string {
	switch {
	case strings.Contains(s, "encountered a cycle"):
		return "snapshot-json-cycle"
	case strings.Contains(s, "concurrent map"):
		return "concurrent-map"
	}
	for _, l := range strings.Split(s, "\n") {
		if strings.HasPrefix(l, "panic:") || strings.HasPrefix(l, "fatal error:") {
			if len(l) > 60 {
				l = l[:60]
			}
			return l
		}
	}
	return "exit"
}

func tailN(s string, n int) string {
	if len(s) > n {
		return s[len(s)-n:]
	}
	return s
}

func diffLines(a, b string) string {
	am := map[string]bool{}
	for _, l := range strings.Split(a, "\n") {
		am[l] = true
	}
	var out []string
	for _, l := range strings.Split(b, "\n") {
		if !am[l] {
			if len(l) > 300 {
				l = l[:300] + "..."
			}
			out = append(out, "only on this node: "+l)
		}
		delete(am, l)
	}
	for l := range am {
		if len(l) > 300 {
			l = l[:300] + "..."
		}
		out = append(out, "only on node 1:    "+l)
	}
	if len(out) > 8 {
		out = out[:8]
	}
	return strings.Join(out, "\n")
}

type stats struct {
	scenarios, ops, open, nemesis, restarts, decided, unknown int
	droppedProposals                                          int // ... of which carried a forwarded client command
	bigChecked                                                int // large values (up to 900 KB) read back from a node after page-wise catch-up and replay
	droppedResponses                                          int // peer-to-peer POSTs delivered whose response the lossy-posts nemesis dropped
	cutoffAcks                                                int // operations a cut-off former leader still acknowledged (reads, if it serves them itself)
	leaderTerms                                               int // (term, leader) announcements read from the nodes' raft logs
	kinds                                                     map[string]int
	crashPoints                                               map[string]int
}

func newWorkload(c *cluster.Cluster) *workload {
	return &workload{c: c, led: &ledger{acked: map[string][]int{}, open: map[string][]int{}, setAck: map[string]string{}}, start: time.Now(), perNode: map[int]int64{}}
}

func (w *workload) run(clientsPerNode int, seed int64) *sync.WaitGroup {
	wg := &sync.WaitGroup{}
	for _, nd := range w.c.Nodes {
		for k := 0; k < clientsPerNode; k++ {
			wg.Add(1)
			go w.client(nd.ID, seed*1009+int64(nd.ID)*101+int64(k), wg, false)
		}
		for k := 0; k < w.readers; k++ {
			wg.Add(1)
			go w.client(nd.ID, seed*1013+int64(nd.ID)*103+int64(k), wg, true)
		}
	}
	return wg
}

// genRead is a read of one of the shared keys.
func (w *workload) genRead(r *rand.Rand) ([][]byte, string) {
	c := respc.Cmd
	switch r.Intn(7) {
	case 0, 1:
		return c("GET", "reg0"), "reg0"
	case 2:
		return c("GET", "reg1"), "reg1"
	case 3:
		return c("GET", "ctr0"), "ctr0"
	case 4:
		if !w.noLists {
			return c("LRANGE", "list0", "0", "-1"), "list0"
		}
		return c("GET", "reg0"), "reg0"
	case 5:
		return c("SMEMBERS", "set0"), "set0"
	}
	return c("HGET", "hash0", "f"+strconv.Itoa(r.Intn(3))), "hash0"
}

func checkLinearizable(w *workload, st *stats, tag string) {
	w.opsMu.Lock()
	ops := append([]porcupine.Operation{}, w.ops...)
	w.opsMu.Unlock()
	st.ops += len(ops)
	res, _ := porcupine.CheckOperationsVerbose(pModel(), ops, 60*time.Second)
	switch res {
	case porcupine.Ok:
		st.decided++
	case porcupine.Unknown:
		st.unknown++
	case porcupine.Illegal:
		st.decided++
		by := map[string][]porcupine.Operation{}
		for _, op := range ops {
			by[op.Input.(opIn).Key] = append(by[op.Input.(opIn).Key], op)
		}
		m := pModel()
		m.Partition = nil
		for k, part := range by {
			if porcupine.CheckOperations(m, part) {
				continue
			}
			sort.Slice(part, func(i, j int) bool { return part[i].Call < part[j].Call })
			var h [][]string
			for _, op := range part {
				h = append(h, []string{fmt.Sprintf("c%d", op.ClientId), fmt.Sprintf("[%d,%d]us", op.Call/1000, op.Return/1000), cmdStr(op.Input.(opIn).Cmd), op.Output.(respc.Value).String()})
			}
			if len(h) > 120 {
				h = h[:120]
			}
			report(witness{Kind: "not-linearizable", Detail: fmt.Sprintf("%s: key %q: the %d acknowledged/open operations sent to the nodes are not linearizable", tag, k, len(part)), History: h, Sig: "not-linearizable|" + keyFam[k]})
			break
		}
	}
}

// ---- C07 ----------------------------------------------------------------------

func scenarioC07(o *common.Opts, idx int, st *stats, n int, race bool) string {
	dir := filepath.Join(o.Work, fmt.Sprintf("c07-%d", idx))
	// every other nemesis cluster snapshots every 40 applied entries and keeps 5 behind: a node that was away comes
	// back through its own snapshot and, if it missed more than the log keeps, through one sent by the leader
	var env []string
	if (idx/10)%2 == 1 {
		env = []string{"VERIF_SNAPCOUNT=40", "VERIF_CATCHUP=5"}
		st.kinds["cluster-with-snapshots"]++
	}
	c, err := cluster.New(dir, n, race, env)
	if err != nil {
		return err.Error()
	}
	defer c.Stop()
	defer os.RemoveAll(dir)
	if err := c.StartAll(); err != nil {
		return "start: " + err.Error()
	}
	if !c.WaitAllWritable(90 * time.Second) {
		return "cluster did not become writable"
	}
	w := newWorkload(c)
	w.rate = 400
	w.readers = 1
	wg := w.run(o.Pick(2, 3), o.Seed*7919+int64(idx))
	r := rand.New(rand.NewSource(o.Seed*104729 + int64(idx)))
	actions := o.Pick(4, 8)
	for a := 0; a < actions; a++ {
		time.Sleep(time.Duration(800+r.Intn(700)) * time.Millisecond)
		victim := 1 + r.Intn(n)
		act := r.Intn(7)
		if a == 1 && idx < 10 {
			act = 6 // once in every run
		}
		var name string
		switch act {
		case 6:
			// every follower frozen for longer than any retry interval a server might have: the leader keeps its role
			// but commits nothing; what was pending then commits late - once
			name = "freeze-followers"
			lead := currentLeader(c)
			for _, nd := range c.Nodes {
				if nd.ID != lead {
					c.Pause(nd.ID)
				}
			}
			time.Sleep(time.Duration(5500+r.Intn(2000)) * time.Millisecond)
			for _, nd := range c.Nodes {
				if nd.ID != lead {
					c.Resume(nd.ID)
				}
			}
		case 0:
			name = "partition-one"
			c.Partition([]int{victim})
			time.Sleep(time.Duration(2500+r.Intn(2500)) * time.Millisecond)
			c.Heal()
		case 1:
			name = "partition-majority-minority"
			grp := []int{victim}
			if n >= 5 {
				grp = append(grp, 1+(victim%n))
			}
			c.Partition(grp)
			time.Sleep(time.Duration(3500+r.Intn(2000)) * time.Millisecond)
			c.Heal()
		case 2:
			name = "delay"
			c.Delay(50 + r.Intn(250))
			time.Sleep(time.Duration(1500+r.Intn(1500)) * time.Millisecond)
			c.Delay(0)
		case 3:
			name = "pause"
			c.Pause(victim)
			time.Sleep(time.Duration(2000+r.Intn(3000)) * time.Millisecond)
			c.Resume(victim)
		case 4:
			name = "kill-restart"
			c.Kill(victim)
			time.Sleep(time.Duration(1000+r.Intn(2500)) * time.Millisecond)
			if err := c.StartNode(victim); err != nil {
				report(witness{Kind: "restart-failed", Detail: fmt.Sprintf("node %d does not restart after kill -9: %v", victim, err), Sig: "node-does-not-restart|c07"})
			}
			st.restarts++
		case 5:
			name = "one-way-cut"
			other := 1 + (victim % n)
			c.Cut(victim, other, true)
			time.Sleep(time.Duration(2000+r.Intn(2000)) * time.Millisecond)
			c.Heal()
		}
		st.kinds[name]++
		st.nemesis++
		// a node that exits on its own is a violation
		for _, nd := range c.Nodes {
			if diedOnItsOwn(nd) && name != "kill-restart" {
				report(witness{Kind: "node-exit", Detail: fmt.Sprintf("node %d exited although the nemesis did not kill it (%s): %s\n%s", nd.ID, name, nd.Srv.CrashLine(), tailN(c.NodeLog(nd.ID, 6000), 2000)), Sig: "node-exited|" + crashClass(nd.Srv.CrashLine()+c.NodeLog(nd.ID, 6000))})
			}
		}
	}
	time.Sleep(500 * time.Millisecond)
	atomic.StoreInt32(&w.stop, 1)
	wg.Wait()
	st.open += int(w.timeouts)
	ok, why := quiesce(c, w.led, "c07", 240*time.Second)
	checkElectionLog(c, st, "c07")
	if !ok && why == "cluster did not serve writes within the bound" {
		return why + clusterDiag(c)
	}
	checkLinearizable(w, st, "c07")
	if race {
		for _, nd := range c.Nodes {
			if n, sample := nd.Srv.RaceReports(); n > 0 && strings.Contains(sample, "innovationb1ue/RedisGO/") && !strings.Contains(sample, "/etcd/") {
				report(witness{Kind: "data-race", Detail: sample, Sig: "data-race|node"})
			}
		}
	}
	st.scenarios++
	return ""
}

// divergence sub-run: commands whose effect depends on the local clock or on map iteration order.
func scenarioDeterminism(o *common.Opts, st *stats) string {
	dir := filepath.Join(o.Work, "c07-det")
	c, err := cluster.New(dir, 3, false, nil)
	if err != nil {
		return err.Error()
	}
	defer c.Stop()
	defer os.RemoveAll(dir)
	if err := c.StartAll(); err != nil {
		return "start: " + err.Error()
	}
	if !c.WaitAllWritable(90 * time.Second) {
		return "cluster did not become writable"
	}
	cl, err := respc.Dial(c.Nodes[0].Addr(), 10*time.Second)
	if err != nil {
		return "dial"
	}
	defer cl.Close()
	run := func(tag string, cmds [][]string) {
		for _, cmd := range cmds {
			if _, err := cl.Do(cmd...); err != nil {
				return
			}
		}
		var dumps []string
		for _, nd := range c.Nodes {
			x, err := respc.Dial(nd.Addr(), 10*time.Second)
			if err != nil {
				return
			}
			_, _ = x.Do("SET", "__ready:b", tag)
			v, err := x.Do("verif.dump")
			x.Close()
			if err != nil {
				return
			}
			dumps = append(dumps, string(v.Str))
		}
		for i := 1; i < len(dumps); i++ {
			if dumps[i] != dumps[0] {
				report(witness{Kind: "replica-divergence", Detail: fmt.Sprintf("after %v the replicas hold different keyspaces (node 1 vs node %d)", cmds, i+1), Sig: "replica-divergence|nondeterministic-command|" + tag})
				return
			}
		}
	}
	var spop [][]string
	spop = append(spop, []string{"SADD", "det:s", "a", "b", "c", "d", "e", "f", "g", "h", "i", "j", "k", "l"})
	for i := 0; i < 6; i++ {
		spop = append(spop, []string{"SPOP", "det:s"})
	}
	run("spop", spop)
	var xadd [][]string
	for i := 0; i < 5; i++ {
		xadd = append(xadd, []string{"XADD", "det:x", "*", "f", strconv.Itoa(i)})
	}
	run("xadd-auto-id", xadd)
	// relative deadlines are applied with each replica's own clock: issue around a second boundary
	time.Sleep(time.Until(time.Now().Truncate(time.Second).Add(time.Second)) - 2*time.Millisecond)
	var exp [][]string
	for i := 0; i < 12; i++ {
		exp = append(exp, []string{"SETEX", fmt.Sprintf("det:e%d", i), "100000", "v"})
	}
	run("relative-expiry", exp)
	st.scenarios++
	return ""
}

// ---- C08 ----------------------------------------------------------------------

var seams = []string{"afterWalSave", "afterAppend", "afterSend", "afterPublish", "beforeAdvance", "beforeWalSave"}
var snapSeams = []string{"snapBeforeSave", "snapFileSaved", "snapAfterSave", "snapAfterCompact"}

type c08case struct {
	regime  string // nosnap | snap
	seam    string
	hit     int
	victim  int // 0: kill all nodes at a random instant instead of a failpoint
	order   []int
	snapCnt int
	preload int
	noLists bool
}

func scenarioC08(o *common.Opts, idx int, cs c08case, st *stats) string {
	dir := filepath.Join(o.Work, fmt.Sprintf("c08-%d", idx))
	env := []string{}
	if cs.regime == "snap" {
		catchUp := 5
		if cs.seam == "snapFileSaved" {
			// the victim is to come back through its own files and the log: nobody may have to send it a snapshot,
			// which would paper over whatever it did with the file nobody vouches for. (Not more than the snapshot
			// interval: the example's compaction arithmetic assumes that, as its own constants do - with more, a node
			// restarted from a snapshot asks its log to compact below that snapshot and panics. Harness artefact of the
			// first version of this case, not a defect.)
			catchUp = cs.snapCnt - 1
		}
		env = append(env, fmt.Sprintf("VERIF_SNAPCOUNT=%d", cs.snapCnt), fmt.Sprintf("VERIF_CATCHUP=%d", catchUp))
	}
	c, err := cluster.New(dir, 3, false, env)
	if err != nil {
		return err.Error()
	}
	defer c.Stop()
	if !*fKeep {
		defer os.RemoveAll(dir)
	}
	if cs.victim > 0 {
		c.Nodes[cs.victim-1].Env = append(append([]string{}, c.Nodes[cs.victim-1].Env...), fmt.Sprintf("VERIF_FP=%s=crash@%d", cs.seam, cs.hit))
	}
	if err := c.StartAll(); err != nil {
		return "start: " + err.Error()
	}
	if !c.WaitAllWritable(90 * time.Second) {
		// the failpoint may already have fired during start-up
		if cs.victim == 0 || !c.Nodes[cs.victim-1].Srv.Exited() {
			return "cluster did not become writable"
		}
	}
	tag := fmt.Sprintf("%s/%s@%d", cs.regime, cs.seam, cs.hit)
	w := newWorkload(c)
	w.pace = 3 * time.Millisecond
	poll := 50 * time.Millisecond
	if cs.seam == "snapFileSaved" {
		// slow clients and a quick end, so that the others are only a few entries ahead when everything stops
		w.pace = 40 * time.Millisecond
		poll = 3 * time.Millisecond
	}
	w.noLists = cs.noLists
	wg := w.run(2, o.Seed*31337+int64(idx))
	// run until the failpoint fired (bounded) or, for the kill-all case, a random instant
	deadline := time.Now().Add(time.Duration(o.Pick(6, 10)) * time.Second)
	for time.Now().Before(deadline) {
		if cs.victim > 0 && c.Nodes[cs.victim-1].Srv.Exited() {
			break
		}
		time.Sleep(poll)
	}
	if cs.seam == "snapFileSaved" && cs.victim > 0 && c.Nodes[cs.victim-1].Srv.Exited() {
		for _, nd := range c.Nodes {
			if nd.ID != cs.victim {
				nd.Srv.Signal(syscall.SIGSTOP) // (killed below, with everything else)
			}
		}
	}
	if cs.victim > 0 && c.Nodes[cs.victim-1].Srv.Exited() {
		st.crashPoints[cs.seam]++
		if !strings.Contains(c.NodeLog(cs.victim, 20000), "VERIF failpoint") {
			report(witness{Kind: "node-exit", Detail: fmt.Sprintf("%s: node %d exited on its own (not by the failpoint): %s\n%s", tag, cs.victim, c.Nodes[cs.victim-1].Srv.CrashLine(), tailN(c.NodeLog(cs.victim, 6000), 2500)),
				Sig: "node-exited|" + cs.regime + "|" + crashClass(c.Nodes[cs.victim-1].Srv.CrashLine()+c.NodeLog(cs.victim, 8000))})
		}
	}
	// any other node exiting on its own (e.g. while taking a snapshot)
	for _, nd := range c.Nodes {
		if nd.ID != cs.victim && diedOnItsOwn(nd) {
			report(witness{Kind: "node-exit", Detail: fmt.Sprintf("%s: node %d exited on its own: %s\n%s", tag, nd.ID, nd.Srv.CrashLine(), tailN(c.NodeLog(nd.ID, 6000), 2500)),
				Sig: "node-exited|" + cs.regime + "|" + crashClass(nd.Srv.CrashLine()+c.NodeLog(nd.ID, 8000))})
		}
	}
	time.Sleep(300 * time.Millisecond)
	atomic.StoreInt32(&w.stop, 1)
	wg.Wait()
	st.open += int(w.timeouts)
	// crash everything, then restart in the given order (staggered)
	for _, nd := range c.Nodes {
		c.Kill(nd.ID)
	}
	for _, nd := range c.Nodes {
		nd.Env = stripFP(nd.Env)
	}
	for i, id := range cs.order {
		if err := c.StartNode(id); err != nil {
			report(witness{Kind: "restart-failed", Detail: fmt.Sprintf("%s: node %d does not start from its own files after the crash: %v\n%s", tag, id, err, tailN(c.NodeLog(id, 6000), 2500)),
				Sig: "node-does-not-restart|" + cs.regime + "|" + crashClass(c.NodeLog(id, 8000))})
			return ""
		}
		if i == 0 {
			time.Sleep(300 * time.Millisecond)
		}
		st.restarts++
	}
	ok, why := quiesce(c, w.led, cs.regime, 240*time.Second)
	checkElectionLog(c, st, cs.regime)
	if !ok && why == "cluster did not serve writes within the bound" {
		return why + clusterDiag(c)
	}
	st.ops += int(w.done)
	st.scenarios++
	st.kinds[cs.regime+":"+cs.seam]++
	return ""
}

func stripFP(env []string) []string {
	var out []string
	for _, e := range env {
		if !strings.HasPrefix(e, "VERIF_FP=") {
			out = append(out, e)
		}
	}
	return out
}

func main() {
	prop := "C07"
	for i, a := range os.Args {
		if (a == "-prop" || a == "--prop") && i+1 < len(os.Args) {
			prop = os.Args[i+1]
		}
	}
	o := common.Parse(prop)
	defer o.Cleanup()
	kf, err := findings.Load(findings.DefaultPath)
	if err != nil {
		fmt.Println("cannot load known findings:", err)
		os.Exit(common.ExitInconclusive)
	}
	if o.Replay != "" {
		fmt.Println("fault-schedule witness; re-run with the same VERIF_SEED:", o.Replay)
		return
	}
	st := &stats{kinds: map[string]int{}, crashPoints: map[string]int{}}
	inconclusive := ""
	if prop == "C07" {
		type job struct {
			n    int
			race bool
		}
		jobs := []job{{3, false}, {3, false}}
		if o.Thorough() {
			jobs = []job{{3, false}, {3, true}, {5, false}, {3, false}, {5, true}, {3, false}}
		}
		var mu sync.Mutex
		var wg sync.WaitGroup
		sem := make(chan struct{}, 7) // clusters alive at a time (each is 3-5 processes)
		for i, j := range jobs {
			if *fOnly != "" && !strings.Contains("nemesis", *fOnly) {
				continue
			}
			wg.Add(1)
			go func(i int, j job) {
				defer wg.Done()
				sem <- struct{}{}
				defer func() { <-sem }()
				local := &stats{kinds: map[string]int{}, crashPoints: map[string]int{}}
				why := ""
				for try := 0; try < 3; try++ {
					why = scenarioC07(o, i*10+try, local, j.n, j.race && os.Getenv("RG_SERVER_BIN_RACE") != "")
					if why != "cluster did not become writable" && !strings.HasPrefix(why, "start: ") && !strings.HasPrefix(why, "cluster did not serve writes within the bound") {
						break
					}
				}
				mu.Lock()
				merge(st, local)
				if why != "" {
					inconclusive = why
				}
				mu.Unlock()
			}(i, j)
		}
		extra := func(name string, n int, f func(idx int, local *stats) string) {
			for k := 0; k < n; k++ {
				if *fOnly != "" && !strings.Contains(name, *fOnly) {
					continue
				}
				wg.Add(1)
				go func(k int) {
					defer wg.Done()
					sem <- struct{}{}
					defer func() { <-sem }()
					local := &stats{kinds: map[string]int{}, crashPoints: map[string]int{}}
					why := ""
					for try := 0; try < 3; try++ {
						why = f(k*10+try, local)
						if why != "cluster did not become writable" && !strings.HasPrefix(why, "start: ") && !strings.HasPrefix(why, "cluster did not serve writes within the bound") {
							break
						}
					}
					mu.Lock()
					merge(st, local)
					if why != "" {
						inconclusive = why + " (" + name + ")"
					}
					mu.Unlock()
				}(k)
			}
		}
		extra("membership", o.Pick(2, 6), func(idx int, local *stats) string { return scenarioMembership(o, idx, local) })
		extra("votes", o.Pick(3, 9), func(idx int, local *stats) string { return scenarioVotes(o, idx, local) })
		extra("storm", o.Pick(1, 3), func(idx int, local *stats) string { return scenarioStorm(o, idx, local, "c07") })
		extra("deposed-tail", o.Pick(1, 4), func(idx int, local *stats) string { return scenarioDeposedTail(o, idx, local, "c07") })
		extra("biglog", o.Pick(1, 2), func(idx int, local *stats) string { return scenarioBigLog(o, idx, local) })
		// a member that comes back with a snapshot file its log does not vouch for: it must not start from that file
		// and then re-apply what the file already contains
		extra("snapfile", o.Pick(2, 6), func(idx int, local *stats) string {
			return scenarioC08(o, 900+idx, c08case{regime: "snap", seam: "snapFileSaved", hit: 1 + idx%3, victim: 1 + idx%3, order: []int{1 + idx%3, 1 + (idx+1)%3, 1 + (idx+2)%3}, snapCnt: 20, noLists: false}, local)
		})
		extra("lossy-posts", o.Pick(1, 4), func(idx int, local *stats) string { return scenarioLossyPosts(o, idx, local) })
		wg.Add(1)
		go func() {
			defer wg.Done()
			if *fOnly != "" && !strings.Contains("determinism", *fOnly) {
				return
			}
			sem <- struct{}{}
			defer func() { <-sem }()
			local := &stats{kinds: map[string]int{}, crashPoints: map[string]int{}}
			why := scenarioDeterminism(o, local)
			mu.Lock()
			merge(st, local)
			if why != "" {
				inconclusive = why
			}
			mu.Unlock()
		}()
		wg.Wait()
	} else {
		r := rand.New(rand.NewSource(o.Seed))
		var cases []c08case
		orders := [][]int{{1, 2, 3}, {3, 2, 1}, {2, 3, 1}, {1, 3, 2}, {2, 1, 3}, {3, 1, 2}}
		add := func(regime, seam string, hit, victim, snap int) {
			cases = append(cases, c08case{regime: regime, seam: seam, hit: hit, victim: victim, order: orders[len(cases)%len(orders)], snapCnt: snap, noLists: regime == "snap" && len(cases)%2 == 0})
		}
		if o.Thorough() {
			for _, s := range seams {
				for _, h := range []int{3, 40, 200} {
					add("nosnap", s, h+r.Intn(10), 1+r.Intn(3), 0)
				}
			}
			for _, s := range append(append([]string{}, seams...), snapSeams...) {
				for _, h := range []int{1, 2, 30} {
					add("snap", s, h, 1+r.Intn(3), 20)
				}
			}
			for i := 0; i < 6; i++ {
				add("nosnap", "kill-all", 0, 0, 0)
				add("snap", "kill-all", 0, 0, 20)
			}
		} else {
			add("nosnap", "afterWalSave", 30+r.Intn(20), 1+r.Intn(3), 0)
			add("nosnap", "afterPublish", 30+r.Intn(20), 1+r.Intn(3), 0)
			add("nosnap", "beforeAdvance", 60+r.Intn(20), 1+r.Intn(3), 0)
			add("nosnap", "afterSend", 40+r.Intn(20), 1+r.Intn(3), 0)
			add("nosnap", "kill-all", 0, 0, 0)
			add("nosnap", "kill-all", 0, 0, 0)
			add("snap", "afterWalSave", 40, 1+r.Intn(3), 20)
			add("snap", "snapAfterSave", 1, 1+r.Intn(3), 20)
			// a snapshot file on the disk that the log does not vouch for yet: the first, and a later one with an
			// older, vouched-for snapshot next to it
			add("snap", "snapFileSaved", 1, 1+r.Intn(3), 20)
			add("snap", "snapFileSaved", 3, 1+r.Intn(3), 20)
			add("snap", "snapFileSaved", 2, 1+r.Intn(3), 20)
			add("snap", "kill-all", 0, 0, 20)
		}
		var mu sync.Mutex
		var wg sync.WaitGroup
		sem := make(chan struct{}, 4)
		extra := func(name string, n int, f func(idx int, local *stats) string) {
			for k := 0; k < n; k++ {
				if *fOnly != "" && !strings.Contains(name, *fOnly) {
					continue
				}
				wg.Add(1)
				go func(k int) {
					defer wg.Done()
					sem <- struct{}{}
					defer func() { <-sem }()
					local := &stats{kinds: map[string]int{}, crashPoints: map[string]int{}}
					why := ""
					for try := 0; try < 3; try++ {
						why = f(k*10+try, local)
						if why != "cluster did not become writable" && !strings.HasPrefix(why, "start: ") && !strings.HasPrefix(why, "cluster did not serve writes within the bound") {
							break
						}
					}
					mu.Lock()
					merge(st, local)
					if why != "" {
						inconclusive = why + " (" + name + ")"
					}
					mu.Unlock()
				}(k)
			}
		}
		extra("slowdisk", o.Pick(2, 6), func(idx int, local *stats) string { return scenarioSlowDisk(o, idx, local) })
		extra("storm", o.Pick(1, 3), func(idx int, local *stats) string { return scenarioStorm(o, idx, local, "c08") })
		extra("deposed-tail", o.Pick(2, 6), func(idx int, local *stats) string { return scenarioDeposedTail(o, idx, local, "c08") })
		extra("biglog", o.Pick(1, 4), func(idx int, local *stats) string { return scenarioBigLog(o, idx, local) })
		for i, cs := range cases {
			if *fOnly != "" && !strings.Contains(cs.regime+":"+cs.seam, *fOnly) {
				continue
			}
			wg.Add(1)
			go func(i int, cs c08case) {
				defer wg.Done()
				sem <- struct{}{}
				defer func() { <-sem }()
				local := &stats{kinds: map[string]int{}, crashPoints: map[string]int{}}
				why := ""
				for try := 0; try < 3; try++ {
					why = scenarioC08(o, i*10+try, cs, local)
					if why != "cluster did not become writable" && !strings.HasPrefix(why, "start: ") && !strings.HasPrefix(why, "cluster did not serve writes within the bound") {
						break
					}
				}
				mu.Lock()
				merge(st, local)
				if why != "" {
					inconclusive = why + " (" + cs.regime + "/" + cs.seam + ")"
				}
				mu.Unlock()
			}(i, cs)
		}
		wg.Wait()
	}
	sigs := make([]string, 0, len(bySig))
	for s := range bySig {
		sigs = append(sigs, s)
	}
	sort.Strings(sigs)
	violations := 0
	knownHits := map[string]int{}
	var vs []any
	for _, s := range sigs {
		w := bySig[s]
		if k := kf.MatchSig(prop, s); k != nil {
			knownHits[k.ID]++
			continue
		}
		violations++
		path := filepath.Join(o.Replays, fmt.Sprintf("%s-%d-%03d.json", prop, o.Seed, violations))
		b, _ := json.MarshalIndent(w, "", " ")
		_ = os.WriteFile(path, b, 0o644)
		d := w.Detail
		if len(d) > 3000 {
			d = d[:3000] + "..."
		}
		fmt.Printf("--- %s %s: %s\n    sig: %s\n", prop, w.Kind, strings.ReplaceAll(d, "\n", "\n    "), w.Sig)
		if len(w.History) > 0 && len(w.History) <= 60 {
			for _, h := range w.History {
				fmt.Printf("      %s\n", strings.Join(h, " "))
			}
		}
		common.Violation(prop, path)
		if len(vs) < 2 {
			w.Detail = d
			if len(w.History) > 40 {
				w.History = w.History[:40]
			}
			vs = append(vs, w)
		}
	}
	for _, k := range kf.Known(prop) {
		if knownHits[k.ID] > 0 {
			common.Known(prop, k.ID+" "+k.What)
		}
	}
	rule := "3- and 5-node clusters of real node processes behind a forwarder mesh; 2-3 clients per node issue unique-valued register/counter/list/set/hash commands, tagged PINGs and ledger writes with a 4 s reply timeout (no reply = open operation, client retired); " +
		"seeded nemesis: isolate one node, majority/minority partition, one-way cut, 50-300 ms delays, SIGSTOP/SIGCONT, kill -9 + restart; distinct = nemesis actions performed"
	distinct := st.nemesis
	if prop == "C08" {
		rule = "3-node clusters; per scenario a failpoint kills one node at the N-th hit of a Ready-loop seam (after wal.Save, after Append, after Send, after publishEntries, before Advance; around snapshot save/compact) or all nodes are killed at a random instant under load, then every node is killed and restarted in a given order; " +
			"regimes: no snapshot (threshold out of reach) and snapshot threshold 20 with catch-up 5; distinct = (regime, seam) pairs exercised"
		distinct = len(st.kinds)
	}
	ev := &evidence.Evidence{PropertyID: prop, Tier: o.Tier, Seed: o.Seed, Level: "fault_enumeration", WallS: o.Elapsed(), Violations: violations,
		Coverage: map[string]any{
			"evaluations":              st.scenarios,
			"distinct_nontrivial":      distinct,
			"rule":                     rule,
			"samples":                  []any{"partition {2} for 3.1 s while c14 RPUSH log:14 7 (acked) / c9 INCR total (no reply -> open)", "nosnap/afterWalSave@37 on node 2, kill all, restart order 3,2,1, ledger checked on every node"},
			"operations_acknowledged":  st.ops,
			"operations_without_reply": st.open,
			"nemesis_actions":          st.nemesis,
			"scenario_kinds":           st.kinds,
			"failpoints_fired":         st.crashPoints,
			"node_restarts":            st.restarts,
			"leader_announcements_read_from_raft_logs":           st.leaderTerms,
			"peer_posts_delivered_with_response_dropped":         st.droppedResponses,
			"forwarded_commands_delivered_with_response_dropped": st.droppedProposals,
			"large_values_read_back_after_paged_replay":          st.bigChecked,
			"operations_acknowledged_by_a_cut_off_former_leader": st.cutoffAcks,
			"nodes_started_again_after_a_listener_bind_error":    cluster.BindRestarts.Load(),
			"histories_decided_by_porcupine":                     st.decided,
			"histories_porcupine_unknown":                        st.unknown,
			"known_finding_hits":                                 knownHits,
			"violation_samples":                                  vs,
		},
		Assumptions: []string{"safety only: a client left without reply (dropped proposal) is an open operation, not a violation", "process crashes (SIGKILL) on a filesystem that keeps what was written; power-loss semantics of the log files are C16's subject",
			"a cluster that does not serve writes within 90 s after healing is inconclusive, not a violation"}}
	if inconclusive != "" {
		ev.Coverage["inconclusive"] = inconclusive
	}
	_ = evidence.Write(o.Evidence, ev)
	fmt.Printf("%s %s seed=%d: %d scenarios, %d acknowledged ops, %d without reply, %d nemesis actions %v, failpoints %v, restarts %d, porcupine decided %d unknown %d, %d signatures (%d unmatched), %.1fs %s\n",
		prop, o.Tier, o.Seed, st.scenarios, st.ops, st.open, st.nemesis, st.kinds, st.crashPoints, st.restarts, st.decided, st.unknown, len(sigs), violations, o.Elapsed(), inconclusive)
	if violations > 0 {
		o.Cleanup()
		os.Exit(common.ExitViolation)
	}
	if inconclusive != "" || st.scenarios == 0 || st.ops < 500 {
		common.Inconclusive(prop, inconclusive)
		o.Cleanup()
		os.Exit(common.ExitInconclusive)
	}
}

func merge(a, b *stats) {
	a.scenarios += b.scenarios
	a.ops += b.ops
	a.open += b.open
	a.nemesis += b.nemesis
	a.restarts += b.restarts
	a.decided += b.decided
	a.unknown += b.unknown
	a.leaderTerms += b.leaderTerms
	a.cutoffAcks += b.cutoffAcks
	a.droppedResponses += b.droppedResponses
	a.droppedProposals += b.droppedProposals
	a.bigChecked += b.bigChecked
	for k, v := range b.kinds {
		a.kinds[k] += v
	}
	for k, v := range b.crashPoints {
		a.crashPoints[k] += v
	}
}
