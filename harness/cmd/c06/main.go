//go:build verif

// Command c06 decides C06 (expiring keys disappear at their deadline and not
// before). Rounds are phase-locked to the wall clock: deadlines are attached
// at fraction ~0.75 of a second (so the per-key timer fires ~0.75 s after the
// deadline second begins and only the lazy check can hide the key before
// that), and every key gets exactly one post-deadline probe by one command at
// fraction ~0.10 / ~0.45 of the deadline second or of the following one, plus
// pre-deadline probes at ~0.9 of its last live second. The oracle is the
// reference model evaluated on the recorded [before, after] unix-second
// bracket of every call: probes whose bracket straddles the deadline are
// counted as ambiguous, never as verdicts.
package main

import (
	"encoding/json"
	"flag"
	"fmt"
	"math/rand"
	"os"
	"path/filepath"
	"runtime"
	"sort"
	"strconv"
	"strings"
	"time"

	"rgverif/internal/common"
	"rgverif/internal/evidence"
	"rgverif/internal/findings"
	"rgverif/internal/inproc"
	"rgverif/internal/model"
	"rgverif/internal/procs"
	"rgverif/internal/respc"
	"rgverif/internal/seqrun"
	"rgverif/internal/super"
)

const prop = "C06"

var (
	fWorker  = flag.Bool("worker", false, "run as batch worker")
	fBatch   = flag.Int("batch", 0, "batch index")
	fOut     = flag.String("out", "", "worker result file")
	fJournal = flag.String("journal", "", "worker journal file")
	fTCP     = flag.Bool("tcp", false, "drive the real server binary over TCP instead of in-process")
	fSnap    = flag.Bool("snap", false, "in-process: after the setup second the keyspace goes through GetSnapshot/LoadSnapshot into a fresh database (what a restarted or lagging cluster member does), and the probes go there")
	fKeys    = flag.Int("keys", 600, "keys per round")
	fRounds  = flag.Int("rounds", 1, "rounds")
	fMaxTTL  = flag.Int("maxttl", 3, "largest time to live in seconds")
)

// hangMark prefixes the "panic text" of a command that never returned: the executor (in-process database or the
// connection) is unusable afterwards, so the worker reports and ends its batch.
const hangMark = "HANG: "

type executor interface {
	Do(cmd [][]byte) (respc.Value, string) // reply, panic text
	Dump() []model.Entry                   // nil when unavailable
}

type inprocExec struct{ in *inproc.Inst }

func (e *inprocExec) Do(cmd [][]byte) (respc.Value, string) {
	var r inproc.Result
	done := make(chan struct{})
	go func() { r = e.in.Exec(cmd, nil); close(done) }()
	select {
	case <-done:
		return r.V, r.Panic
	case <-time.After(20 * time.Second):
		// positive evidence of a hang: the goroutine that is still inside the executor
		buf := make([]byte, 1<<20)
		buf = buf[:runtime.Stack(buf, true)]
		stack := ""
		for _, g := range strings.Split(string(buf), "\n\n") {
			if strings.Contains(g, "inproc.(*Inst).Exec") {
				stack = inproc.TopFrames(g, 8)
			}
		}
		return respc.Value{}, hangMark + "command did not return within 20s; its goroutine:\n" + stack
	}
}
func (e *inprocExec) Dump() []model.Entry { return e.in.Dump() }

type tcpExec struct {
	c   *respc.Client
	srv *procs.Server
}

func (e *tcpExec) Do(cmd [][]byte) (respc.Value, string) {
	v, err := e.c.DoB(cmd)
	if err != nil {
		if ne, ok := err.(interface{ Timeout() bool }); ok && ne.Timeout() && !e.srv.Exited() {
			return v, hangMark + "no reply within 20s although the server process is alive; goroutines:\n" + inproc.TopFrames(e.srv.Dump(), 10)
		}
		return v, "connection error: " + err.Error() + " " + e.srv.CrashLine()
	}
	return v, ""
}
func (e *tcpExec) Dump() []model.Entry { return nil }

type keyPlan struct {
	key      string
	typ      string
	setup    [][]string // creation + attaching the deadline + follow-ups, all issued in the setup phase
	attach   string     // how the deadline was attached (coverage)
	follow   string
	ttl      int
	pre      []string // pre-deadline probe (read only), may be nil
	probe    []string // the single post-deadline probe
	instant  int      // 0: D+0.10, 1: D+0.45, 2: D+1.10, 3: D+1.45
	control  bool     // deadline removed or never set: must survive
	poisoned bool
	last     []string // the command issued on this key before the current one
}

func cmdOf(a ...string) []string { return a }

func createCmd(typ, k string) []string {
	switch typ {
	case "list":
		return cmdOf("RPUSH", k, "a", "b")
	case "set":
		return cmdOf("SADD", k, "a", "b")
	case "hash":
		return cmdOf("HSET", k, "f", "1")
	case "zset":
		return cmdOf("ZADD", k, "1", "a", "2", "b")
	case "stream":
		return cmdOf("XADD", k, "5-1", "f", "v")
	}
	return cmdOf("SET", k, "10")
}

var probesByType = map[string][][]string{
	"string": {{"GET"}, {"MGET"}, {"STRLEN"}, {"EXISTS"}, {"TTL"}, {"TYPE"}, {"KEYS"}, {"SETNX", "new"}, {"SET", "new", "NX"}, {"SET", "new", "XX"}, {"APPEND", "zz"},
		{"INCR"}, {"GETRANGE", "0", "-1"}, {"RENAME", "@dst"}, {"SETRANGE", "1", "x"}, {"INCRBYFLOAT", "1.5"}, {"DECRBY", "3"}, {"SET", "new", "GET"}, {"SET", "new", "KEEPTTL"}, {"PERSIST"}, {"EXPIRE", "100000", "XX"}, {"DEL"}},
	"list":   {{"LLEN"}, {"LRANGE", "0", "-1"}, {"LPUSH", "n"}, {"LPUSHX", "n"}, {"LPOP"}, {"EXISTS"}, {"TYPE"}, {"TTL"}, {"KEYS"}, {"LINDEX", "0"}, {"RPUSHX", "n"}, {"LREM", "0", "a"}, {"LSET", "0", "z"}, {"LPOS", "a"}, {"LTRIM", "0", "0"}, {"LMOVE", "@dst", "LEFT", "LEFT"}, {"BLPOP", "1"}, {"RPOP"}},
	"set":    {{"SCARD"}, {"SADD", "n"}, {"SISMEMBER", "a"}, {"SINTER"}, {"SMEMBERS"}, {"EXISTS"}, {"TYPE"}, {"TTL"}, {"SREM", "a"}, {"SPOP"}, {"SRANDMEMBER"}, {"SUNION"}, {"SDIFF"}, {"SMOVE", "@dst", "a"}, {"SUNIONSTORE@"}, {"KEYS"}},
	"hash":   {{"HLEN"}, {"HGET", "f"}, {"HSET", "g", "2"}, {"HDEL", "f"}, {"HGETALL"}, {"EXISTS"}, {"TYPE"}, {"TTL"}, {"HEXISTS", "f"}, {"HINCRBY", "f", "5"}, {"HKEYS"}, {"HVALS"}, {"HMGET", "f"}, {"HSETNX", "f", "9"}, {"HSTRLEN", "f"}, {"HRANDFIELD"}, {"HINCRBYFLOAT", "f", "1.5"}},
	"zset":   {{"ZADD", "3", "c"}, {"ZRANGE", "0", "-1"}, {"ZRANK", "a"}, {"ZREM", "a"}, {"EXISTS"}, {"TYPE"}, {"TTL"}, {"ZADD", "XX", "5", "a"}, {"ZRANGE", "0", "-1", "WITHSCORES"}},
	"stream": {{"XADD", "9-1", "g", "w"}, {"XRANGE", "-", "+"}, {"EXISTS"}, {"TYPE"}, {"TTL"}, {"XADD", "NOMKSTREAM", "9-1", "g", "w"}},
}

// the expiring key in a position other than the first: @k is the key under test, @src a live key of the same type
// without deadline (created in the setup phase), @none a key that never exists, @dst a fresh destination
var secondaryProbes = map[string][][]string{
	"string": {{"MGET", "@src", "@k"}, {"MSET", "@src", "v", "@k", "w"}, {"RENAME", "@src", "@k"}, {"DEL", "@src", "@k"}, {"EXISTS", "@src", "@k", "@k"}, {"DEL", "@none", "@k"}},
	"list": {{"LMOVE", "@src", "@k", "LEFT", "RIGHT"}, {"LMOVE", "@src", "@k", "RIGHT", "LEFT"}, {"BLPOP", "@none", "@k", "1"}, {"BRPOP", "@none", "@k", "1"}, {"RENAME", "@src", "@k"}, {"DEL", "@src", "@k"}, {"EXISTS", "@src", "@k"},
		{"LMOVE", "@k", "@k", "LEFT", "RIGHT"}},
	"set": {{"SMOVE", "@src", "@k", "a"}, {"SUNION", "@src", "@k"}, {"SINTER", "@src", "@k"}, {"SDIFF", "@src", "@k"}, {"SUNIONSTORE", "@k", "@src"}, {"SINTERSTORE", "@dst", "@src", "@k"}, {"SDIFFSTORE", "@k", "@src", "@none"},
		{"SUNIONSTORE", "@k", "@k"}, {"SINTERSTORE", "@k", "@k", "@src"}, {"RENAME", "@src", "@k"}, {"DEL", "@src", "@k"}, {"SMOVE", "@k", "@k", "a"}},
	"hash":   {{"RENAME", "@src", "@k"}, {"DEL", "@src", "@k"}, {"EXISTS", "@src", "@k"}},
	"zset":   {{"RENAME", "@src", "@k"}, {"DEL", "@src", "@k"}, {"EXISTS", "@k", "@src"}},
	"stream": {{"RENAME", "@src", "@k"}, {"DEL", "@src", "@k"}, {"EXISTS", "@k", "@src"}},
}

// writes of another type: from the deadline on they must start from an empty key (not answer WRONGTYPE because the
// dead value is still lying around), before it they must fail with WRONGTYPE and change nothing
func init() {
	// malformed or refused commands: the answer must not depend on whether the dead value has been reaped yet
	for typ := range probesByType {
		probesByType[typ] = append(probesByType[typ], []string{"EXPIRE", "100000", "ZZ"}, []string{"EXPIRE", "soon"}, []string{"EXPIRE", "100000", "NX", "XX"})
	}
	probesByType["string"] = append(probesByType["string"], []string{"SET", "v", "EX", "0"}, []string{"SET", "v", "PX", "abc"}, []string{"INCRBY", "x"}, []string{"SETRANGE", "-1", "x"}, []string{"SET", "v", "NX", "XX"})
	probesByType["list"] = append(probesByType["list"], []string{"LSET", "x", "z"}, []string{"LPOP", "-1"}, []string{"LINDEX", "x"}, []string{"LPOS", "a", "RANK", "0"})
	probesByType["set"] = append(probesByType["set"], []string{"SPOP", "-1"}, []string{"SRANDMEMBER", "x"})
	probesByType["hash"] = append(probesByType["hash"], []string{"HINCRBY", "f", "x"}, []string{"HSET", "g"}, []string{"HINCRBYFLOAT", "f", "nan"})
	probesByType["zset"] = append(probesByType["zset"], []string{"ZADD", "x", "c"}, []string{"ZADD", "NX", "XX", "1", "c"}, []string{"ZRANGE", "a", "b"})
	probesByType["stream"] = append(probesByType["stream"], []string{"XADD", "0-0", "g", "w"}, []string{"XADD", "9-1", "g"}, []string{"XRANGE", "x", "+"})
	strWrites := [][]string{{"SET", "new"}, {"SETNX", "new"}, {"APPEND", "zz"}, {"INCR"}, {"SETRANGE", "1", "x"}, {"MSET", "new"}, {"SETEX", "100000", "new"}, {"SET", "new", "XX"}, {"INCRBYFLOAT", "1.5"}, {"GET"}, {"STRLEN"}}
	other := map[string][][]string{
		"list":   {{"LPUSH", "n"}, {"RPUSH", "n"}, {"LPUSHX", "n"}, {"LLEN"}},
		"set":    {{"SADD", "n"}, {"SCARD"}},
		"hash":   {{"HSET", "g", "2"}, {"HINCRBY", "f", "5"}, {"HSETNX", "f", "9"}, {"HLEN"}},
		"zset":   {{"ZADD", "3", "c"}},
		"stream": {{"XADD", "9-1", "g", "w"}},
	}
	for typ := range probesByType {
		if typ != "string" {
			probesByType[typ] = append(probesByType[typ], strWrites...)
		}
		for t2, ws := range other {
			if t2 != typ {
				probesByType[typ] = append(probesByType[typ], ws...)
			}
		}
	}
}

func buildProbe(tpl []string, k string) []string {
	name := tpl[0]
	for _, a := range tpl {
		if a == "@k" {
			out := make([]string, len(tpl))
			for i, a := range tpl {
				switch a {
				case "@k":
					a = k
				case "@src":
					a = k + ":src"
				case "@dst":
					a = k + ":dst"
				case "@none":
					a = k + ":none"
				}
				out[i] = a
			}
			return out
		}
	}
	if name == "SUNIONSTORE@" {
		return []string{"SUNIONSTORE", k + ":dst", k}
	}
	out := []string{name}
	if name == "KEYS" {
		return []string{"KEYS", k}
	}
	if name == "BLPOP" {
		return []string{"BLPOP", k, "1"}
	}
	out = append(out, k)
	for _, a := range tpl[1:] {
		if a == "@dst" {
			a = k + ":dst"
		}
		out = append(out, a)
	}
	return out
}

func planKey(r *rand.Rand, idx int, maxTTL int) *keyPlan {
	k := fmt.Sprintf("c6:%d", idx)
	p := &keyPlan{key: k}
	types := []string{"string", "string", "string", "list", "set", "hash", "zset", "stream"}
	p.typ = types[r.Intn(len(types))]
	p.ttl = 1 + r.Intn(maxTTL)
	ttl := strconv.Itoa(p.ttl)
	// attach
	if p.typ == "string" {
		switch r.Intn(9) {
		case 0:
			p.attach = "SETEX"
			p.setup = append(p.setup, cmdOf("SETEX", k, ttl, "10"))
		case 1:
			p.attach = "SET EX"
			p.setup = append(p.setup, cmdOf("SET", k, "10", "EX", ttl))
		case 2:
			p.attach = "SET PX"
			p.setup = append(p.setup, cmdOf("SET", k, "10", "PX", ttl+"000"))
		case 3:
			p.attach = "SET EXAT"
			p.setup = append(p.setup, cmdOf("SET", k, "10", "EXAT", "@abs"+ttl))
		default:
			p.setup = append(p.setup, createCmd(p.typ, k))
		}
	} else {
		p.setup = append(p.setup, createCmd(p.typ, k))
	}
	if p.attach == "" {
		switch r.Intn(10) {
		case 0:
			p.attach = "EXPIRE NX (no deadline yet)"
			p.setup = append(p.setup, cmdOf("EXPIRE", k, ttl, "NX"))
		case 1:
			p.attach = "EXPIRE XX (has deadline)"
			p.setup = append(p.setup, cmdOf("EXPIRE", k, "100000"), cmdOf("EXPIRE", k, ttl, "XX"))
		case 2:
			p.attach = "EXPIRE LT (has later deadline)"
			p.setup = append(p.setup, cmdOf("EXPIRE", k, "100000"), cmdOf("EXPIRE", k, ttl, "LT"))
		case 3:
			p.attach = "EXPIRE LT (no deadline)"
			p.setup = append(p.setup, cmdOf("EXPIRE", k, ttl, "LT"))
		case 4:
			p.attach = "EXPIRE GT false (no deadline) then plain"
			p.setup = append(p.setup, cmdOf("EXPIRE", k, "100000", "GT"), cmdOf("EXPIRE", k, ttl))
		case 5:
			p.attach = "EXPIRE XX false then plain"
			p.setup = append(p.setup, cmdOf("EXPIRE", k, "100000", "XX"), cmdOf("EXPIRE", k, ttl))
		default:
			p.attach = "EXPIRE"
			p.setup = append(p.setup, cmdOf("EXPIRE", k, ttl))
		}
	}
	// follow-up
	switch r.Intn(18) {
	case 0:
		if p.typ == "string" {
			p.follow = "SET (removes deadline)"
			p.setup = append(p.setup, cmdOf("SET", k, "11"))
			p.control = true
		}
	case 1:
		if p.typ == "string" {
			p.follow = "SET KEEPTTL"
			p.setup = append(p.setup, cmdOf("SET", k, "12", "KEEPTTL"))
		}
	case 2:
		// changes to the value that are not a replacement of the key: the deadline stays, however much of the value
		// they rewrite
		edits := map[string][][][]string{
			"string": {{{"APPEND", k, "0"}, {"INCR", k}}, {{"SETRANGE", k, "0", "123456"}}, {{"SETRANGE", k, "0", "77"}}, {{"SETRANGE", k, "1", "9"}, {"DECRBY", k, "3"}}, {{"INCRBYFLOAT", k, "1.5"}}, {{"SET", k, "33", "XX", "KEEPTTL"}}, {{"SETRANGE", k, "6", "x"}}},
			"list":   {{{"LSET", k, "0", "z"}, {"LSET", k, "-1", "y"}}, {{"LPUSH", k, "n"}, {"RPOP", k}, {"RPOP", k}}, {{"LTRIM", k, "0", "-1"}}, {{"LMOVE", k, k, "LEFT", "RIGHT"}}, {{"LREM", k, "0", "a"}, {"RPUSHX", k, "c"}}},
			"set":    {{{"SADD", k, "n"}, {"SREM", k, "a", "b"}}, {{"SPOP", k}, {"SADD", k, "m"}}, {{"SMOVE", k, k, "a"}}},
			"hash":   {{{"HSET", k, "g", "2"}, {"HDEL", k, "f"}}, {{"HINCRBY", k, "f", "5"}, {"HINCRBYFLOAT", k, "f", "0.5"}}, {{"HSETNX", k, "h", "1"}, {"HSET", k, "f", "a long value that replaces the short one"}}},
			"zset":   {{{"ZADD", k, "3", "c"}, {"ZREM", k, "a", "b"}}, {{"ZADD", k, "XX", "CH", "9", "a"}}, {{"ZADD", k, "INCR", "1", "b"}}},
			"stream": {{{"XADD", k, "6-1", "g", "w"}}, {{"XADD", k, "MAXLEN", "1", "7-0", "g", "w"}}},
		}
		if es := edits[p.typ]; len(es) > 0 {
			e := es[r.Intn(len(es))]
			p.follow = "edited in place by " + e[0][0] + " (keeps deadline)"
			for _, c := range e {
				p.setup = append(p.setup, cmdOf(c...))
			}
		}
	case 3:
		p.follow = "PERSIST"
		p.setup = append(p.setup, cmdOf("PERSIST", k))
		p.control = true
	case 4:
		p.follow = "DEL + recreate"
		p.setup = append(p.setup, cmdOf("DEL", k), createCmd(p.typ, k))
		p.control = true
	case 5:
		p.follow = "RENAME away and back (deadline travels)"
		p.setup = append(p.setup, cmdOf("RENAME", k, k+":tmp"), cmdOf("RENAME", k+":tmp", k))
	case 6:
		p.follow = "EXPIRE GT with earlier time (keeps)"
		p.setup = append(p.setup, cmdOf("EXPIRE", k, "0", "GT"))
	case 7:
		p.follow = "EXPIRE NX on existing deadline (keeps)"
		p.setup = append(p.setup, cmdOf("EXPIRE", k, "100000", "NX"))
	case 8:
		if p.typ == "string" {
			p.follow = "MSET (removes deadline)"
			p.setup = append(p.setup, cmdOf("MSET", k, "13"))
			p.control = true
		}
	case 9:
		if p.typ == "string" {
			p.follow = "SET GET (removes deadline)"
			p.setup = append(p.setup, cmdOf("SET", k, "14", "GET"))
			p.control = true
		}
	case 10:
		p.follow = "TTL read"
		p.setup = append(p.setup, cmdOf("TTL", k))
	case 11:
		// a value without deadline renamed onto this key replaces value AND deadline
		p.follow = "RENAME of a key without deadline onto it (removes deadline)"
		p.setup = append(p.setup, createCmd(p.typ, k+":src"), cmdOf("RENAME", k+":src", k))
		p.control = true
	case 15, 16:
		// the key ceases to exist because a command emptied it (or stored an empty result over it, or moved it away);
		// a key of that name created afterwards is a new key: it has no deadline and outlives the old one
		var how []string
		switch p.typ {
		case "list":
			how = [][]string{{"LPOP", k, "10"}, {"LTRIM", k, "5", "9"}, {"LREM", k, "0", "a"}, {"LMOVE", k, k + ":away", "LEFT", "LEFT"}, {"RPOP", k, "2"}}[r.Intn(5)]
			if how[0] == "LREM" {
				p.setup = append(p.setup, cmdOf("LREM", k, "0", "b"))
			}
			if how[0] == "LMOVE" {
				p.setup = append(p.setup, cmdOf("LMOVE", k, k+":away", "LEFT", "LEFT"))
			}
		case "set":
			how = [][]string{{"SREM", k, "a", "b"}, {"SPOP", k, "5"}, {"SMOVE", k, k + ":away", "a"}, {"SINTERSTORE", k, k, k + ":none"}}[r.Intn(4)]
			if how[0] == "SMOVE" {
				p.setup = append(p.setup, cmdOf("SMOVE", k, k+":away", "b"))
			}
		case "hash":
			how = cmdOf("HDEL", k, "f")
		case "zset":
			how = cmdOf("ZREM", k, "a", "b")
		case "stream":
			how = cmdOf("RENAME", k, k+":away")
		default:
			how = [][]string{{"RENAME", k, k + ":away"}, {"SUNIONSTORE", k, k + ":none"}, {"SDIFFSTORE", k, k + ":none", k + ":none"}}[r.Intn(3)]
		}
		if r.Intn(4) == 0 {
			how = [][]string{{"SUNIONSTORE", k, k + ":none"}, {"SINTERSTORE", k, k + ":none", k + ":none"}, {"SDIFFSTORE", k, k + ":none"}}[r.Intn(3)]
		}
		p.follow = "emptied or replaced by " + how[0] + ", then created again (new key, no deadline)"
		p.setup = append(p.setup, how, createCmd(p.typ, k))
		p.control = true
	case 13, 14:
		// a deadline centuries away replaces the near one: the key must simply stay (timer arithmetic on such
		// distances is where it can go wrong); all values keep now+ttl inside the 63-bit range
		huge := []string{"9223372037", "9999999999", "99999999999", "999999999999", "9223372036", "18446744074"}[r.Intn(6)]
		p.control = true
		switch {
		case p.typ == "string" && r.Intn(3) == 0:
			p.follow = "SET EX centuries ahead (replaces deadline)"
			p.setup = append(p.setup, cmdOf("SET", k, "15", "EX", huge))
		case p.typ == "string" && r.Intn(3) == 0:
			p.follow = "SETEX centuries ahead (replaces deadline)"
			p.setup = append(p.setup, cmdOf("SETEX", k, huge, "16"))
		case p.typ == "string" && r.Intn(2) == 0:
			p.follow = "SET PX centuries ahead in milliseconds (replaces deadline)"
			p.setup = append(p.setup, cmdOf("SET", k, "17", "PX", []string{"9223372036855", "10000000000000", "99999999999999", "9223372036854775"}[r.Intn(4)]))
		case p.typ == "string" && r.Intn(2) == 0:
			p.follow = "SET EXAT centuries ahead (replaces deadline)"
			p.setup = append(p.setup, cmdOf("SET", k, "18", "EXAT", "@abs9999999999"))
		default:
			p.follow = "EXPIRE centuries ahead (replaces deadline)"
			p.setup = append(p.setup, cmdOf("EXPIRE", k, huge))
		}
	case 12:
		// a value with a far deadline renamed onto this key brings its own deadline
		p.follow = "RENAME of a key with a far deadline onto it (replaces deadline)"
		p.setup = append(p.setup, createCmd(p.typ, k+":src"), cmdOf("EXPIRE", k+":src", "100000"), cmdOf("RENAME", k+":src", k))
		p.control = true
	}
	// probes
	ps := probesByType[p.typ]
	if r.Intn(5) == 0 {
		ps = secondaryProbes[p.typ]
		// the companion key of the same type, without deadline (RENAME follow-ups may have used and moved k:src already)
		p.setup = append(p.setup, cmdOf("DEL", k+":src"), createCmd(p.typ, k+":src"))
	}
	p.probe = buildProbe(ps[r.Intn(len(ps))], k)
	if r.Intn(2) == 0 {
		pre := [][]string{{"EXISTS", k}, {"TTL", k}, {"TYPE", k}}
		p.pre = pre[r.Intn(len(pre))]
	}
	p.instant = r.Intn(4)
	return p
}

type action struct {
	at   time.Time
	plan *keyPlan
	cmd  []string
	kind string // setup | pre | probe
}

type div struct {
	Kind   string     `json:"kind"`
	Key    string     `json:"key"`
	Type   string     `json:"type"`
	Attach string     `json:"attach"`
	Follow string     `json:"follow"`
	TTL    int        `json:"ttl"`
	Phase  string     `json:"phase"`
	Cmd    []string   `json:"cmd"`
	Want   string     `json:"want"`
	Got    string     `json:"got"`
	Times  string     `json:"times"`
	Setup  [][]string `json:"setup"`
	Sig    string     `json:"sig"`
}

type workerOut struct {
	Keys          int            `json:"keys"`
	Commands      int            `json:"commands"`
	Decisive      int            `json:"decisive"`  // post-deadline and pre-deadline probes judged
	Ambiguous     int            `json:"ambiguous"` // probes whose bracket straddled a deadline
	PostDead      int            `json:"post_dead"` // decisive probes at/after the deadline
	PreAlive      int            `json:"pre_alive"`
	Control       int            `json:"control"` // decisive probes of keys whose deadline was removed
	Tuples        map[string]int `json:"tuples"`  // (probe command, type, instant)
	Divs          []div          `json:"divs"`
	Vehicle       string         `json:"vehicle"`
	DumpChecks    int            `json:"dump_checks"`
	SnapshotSwaps int            `json:"snapshot_swaps"`
}

func toCmd(a []string) [][]byte { return respc.Cmd(a...) }

func worker(o *common.Opts) {
	out := workerOut{Tuples: map[string]int{}, Vehicle: "inproc"}
	var ex executor
	if *fTCP {
		out.Vehicle = "tcp"
		srv, err := procs.Start(procs.Opts{Dir: filepath.Join(o.Work, fmt.Sprintf("c6srv-%d", *fBatch)), Port: procs.FreePorts(1)[0], ShardNum: 16, Databases: 1})
		if err != nil {
			fmt.Println("server start failed:", err)
			os.Exit(4)
		}
		defer srv.Kill()
		c, err := respc.Dial(srv.Addr, 20*time.Second)
		if err != nil {
			os.Exit(4)
		}
		ex = &tcpExec{c: c, srv: srv}
	} else {
		inproc.Setup(16, 1, filepath.Join(o.Work, "log"))
		ex = &inprocExec{in: inproc.New()}
	}
	j, _ := os.OpenFile(*fJournal, os.O_CREATE|os.O_WRONLY|os.O_APPEND, 0o644)
	seen := map[string]bool{}
	for round := 0; round < *fRounds; round++ {
		r := rand.New(rand.NewSource(o.Seed*7919 + int64(*fBatch)*104729 + int64(round)))
		db := model.NewDB()
		if ie, ok := ex.(*inprocExec); ok && round > 0 {
			// the model starts every round empty, so does the database (the keys that outlived the last round are
			// not this round's business)
			ie.in.Stop()
			ex = &inprocExec{in: inproc.New()}
		}
		var plans []*keyPlan
		for i := 0; i < *fKeys; i++ {
			plans = append(plans, planKey(r, round*1000000+*fBatch*10000+i, *fMaxTTL))
		}
		// setup phase at fraction 0.75 of the next second that is at least 300 ms away
		now := time.Now()
		base := now.Truncate(time.Second).Add(time.Second)
		if base.Sub(now) < 300*time.Millisecond {
			base = base.Add(time.Second)
		}
		setupAt := base.Add(750 * time.Millisecond)
		S := base.Unix()
		time.Sleep(time.Until(setupAt))
		exec := func(p *keyPlan, cmd []string, phase string) {
			if p.poisoned {
				return
			}
			for i, a := range cmd {
				if strings.HasPrefix(a, "@abs") {
					n, _ := strconv.Atoi(a[4:])
					cmd[i] = strconv.FormatInt(S+int64(n), 10)
				}
			}
			bc := toCmd(cmd)
			fmt.Fprintf(j, "%s %s\n", phase, strings.Join(seqrun.QuoteFull(bc), " "))
			t0 := time.Now()
			v, pan := ex.Do(bc)
			t1 := time.Now()
			out.Commands++
			tm := model.Time{T0: t0.Unix(), T1: t1.Unix(), Ms0: t0.UnixMilli(), Ms1: t1.UnixMilli()}
			report := func(kind, want, got string) {
				ph := phase
				if strings.HasPrefix(ph, "post") {
					ph = "post"
				}
				sig := kind + "|" + strings.ToUpper(cmd[0]) + "|" + ph
				if p.control {
					sig += "|control:" + p.follow
				}
				p.poisoned = true
				if seen[sig] {
					return
				}
				seen[sig] = true
				if strings.HasPrefix(phase, "after-probe") && p.last != nil {
					got += "   (right after " + strings.Join(p.last, " ") + ")"
				}
				out.Divs = append(out.Divs, div{Kind: kind, Key: p.key, Type: p.typ, Attach: p.attach, Follow: p.follow, TTL: p.ttl, Phase: phase, Cmd: cmd, Want: want, Got: got,
					Times: fmt.Sprintf("setup second %d, call bracket [%d.%03d, %d.%03d]", S, t0.Unix(), t0.Nanosecond()/1e6, t1.Unix(), t1.Nanosecond()/1e6), Setup: p.setup, Sig: sig})
			}
			if strings.HasPrefix(pan, hangMark) {
				report("hang", "a reply (only the blocking pops may wait, and only for their timeout)", pan)
				b, _ := json.Marshal(out)
				_ = os.WriteFile(*fOut, b, 0o644)
				os.Exit(0)
			}
			if pan != "" {
				report("panic", "a reply", pan)
				return
			}
			res := db.Step(bc, v, tm)
			if res.Unspecified {
				if strings.Contains(res.Note, "deadline inside") || strings.Contains(res.Note, "clock bracket") {
					if phase != "setup" {
						out.Ambiguous++
					}
				}
				p.poisoned = true // the model did not advance: leave this key alone
				return
			}
			if phase != "setup" {
				out.Decisive++
				switch {
				case p.control:
					out.Control++
				case phase == "pre":
					out.PreAlive++
				default:
					out.PostDead++
				}
				out.Tuples[strings.ToUpper(cmd[0])+"|"+p.typ+"|"+phase]++
			}
			if !res.OK {
				report("reply", res.Want, v.String())
			}
			p.last = cmd
		}
		for _, p := range plans {
			for _, c := range p.setup {
				exec(p, append([]string{}, c...), "setup")
			}
		}
		// deadlines as stored must lie in the model's interval (in-process only)
		endSetup := time.Now()
		if d := ex.Dump(); d != nil && endSetup.Unix() == S {
			tm := model.Time{T0: S, T1: S}
			want, _ := db.Dump(tm)
			poisoned := map[string]bool{}
			for _, p := range plans {
				if p.poisoned {
					poisoned[p.key] = true
					poisoned[p.key+":dst"] = true
				}
			}
			filter := func(es []model.Entry) []model.Entry {
				var o2 []model.Entry
				for _, e := range es {
					if !poisoned[e.Key] {
						o2 = append(o2, e)
					}
				}
				return o2
			}
			out.DumpChecks++
			for _, diff := range model.CompareDumps(filter(want), filter(d)) {
				sig := "state-after-setup|" + seqrun.Generalise(diff)
				if !seen[sig] {
					seen[sig] = true
					out.Divs = append(out.Divs, div{Kind: "state", Phase: "setup", Want: "stored deadline inside the model interval / same keyspace", Got: diff, Sig: sig})
				}
			}
		}
		// schedule probes from the model's view of each key
		var acts []action
		for _, p := range plans {
			if p.poisoned {
				continue
			}
			D := S + int64(p.ttl)
			if v := db.Keys[p.key]; v != nil && v.HasDead && !p.control {
				D = v.Dmin
				if v.Dmin != v.Dmax || D > S+int64(*fMaxTTL) || D <= S {
					continue // setup slipped over a second boundary, or a far deadline: not probed in this round
				}
			}
			dt := time.Unix(D, 0)
			if p.pre != nil && !p.control && D-1 > S {
				acts = append(acts, action{at: dt.Add(-100 * time.Millisecond), plan: p, cmd: p.pre, kind: "pre"})
			} else if p.pre != nil && !p.control && D-1 == S {
				// last live second is the setup second itself: probe right away (fraction ~0.9)
				acts = append(acts, action{at: time.Unix(S, 0).Add(900 * time.Millisecond), plan: p, cmd: p.pre, kind: "pre"})
			}
			off := []time.Duration{100 * time.Millisecond, 450 * time.Millisecond, 1100 * time.Millisecond, 1450 * time.Millisecond}[p.instant]
			acts = append(acts, action{at: dt.Add(off), plan: p, cmd: p.probe, kind: fmt.Sprintf("post+%.2f", off.Seconds())})
			// what the probe left behind: a key it created from the deadline on is a new key without a deadline (TTL -1,
			// and it stays), a key it merely found missing is missing (TTL -2)
			acts = append(acts, action{at: dt.Add(off + 40*time.Millisecond), plan: p, cmd: []string{"TTL", p.key}, kind: fmt.Sprintf("after-probe+%.2f", off.Seconds())})
		}
		var snapBytes []byte
		if ie, ok := ex.(*inprocExec); ok && *fSnap && time.Now().Unix() == S {
			// taken in the setup second, loaded in the next one: a format that stored anything but the deadline itself
			// (remaining time, say) would move every deadline by the age of the snapshot
			if b, err := ie.in.Mgr.CurrentDB.GetSnapshot(); err == nil {
				snapBytes = b
				acts = append(acts, action{at: time.Unix(S+1, 0).Add(20 * time.Millisecond), kind: "swap"})
			} else if !seen["snapshot-failed"] {
				seen["snapshot-failed"] = true
				out.Divs = append(out.Divs, div{Kind: "state", Phase: "snapshot", Want: "a snapshot of the keyspace", Got: "GetSnapshot: " + err.Error(), Sig: "snapshot-failed"})
			}
		}
		sort.SliceStable(acts, func(a, b int) bool { return acts[a].at.Before(acts[b].at) })
		for _, a := range acts {
			if d := time.Until(a.at); d > 0 {
				time.Sleep(d)
			}
			if a.kind == "swap" {
				fresh := inproc.New()
				fmt.Fprintf(j, "swap: the keyspace continues in a fresh database loaded from the snapshot (%d bytes)\n", len(snapBytes))
				if err := fresh.Mgr.CurrentDB.LoadSnapshot(snapBytes); err != nil {
					if !seen["snapshot-load-failed"] {
						seen["snapshot-load-failed"] = true
						out.Divs = append(out.Divs, div{Kind: "state", Phase: "snapshot", Want: "the snapshot loads", Got: "LoadSnapshot: " + err.Error(), Sig: "snapshot-load-failed"})
					}
					continue
				}
				ex.(*inprocExec).in.Stop()
				ex = &inprocExec{in: fresh}
				out.SnapshotSwaps++
				continue
			}
			exec(a.plan, append([]string{}, a.cmd...), a.kind)
		}
		out.Keys += len(plans)
	}
	b, _ := json.Marshal(out)
	_ = os.WriteFile(*fOut, b, 0o644)
}

func main() {
	o := common.Parse(prop)
	if *fWorker {
		worker(o)
		return
	}
	defer o.Cleanup()
	kf, err := findings.Load(findings.DefaultPath)
	if err != nil {
		fmt.Println("cannot load known findings:", err)
		os.Exit(common.ExitInconclusive)
	}
	if o.Replay != "" {
		fmt.Println("C06 witnesses depend on the wall clock; re-run the check with the same VERIF_SEED to regenerate the same key plans:", o.Replay)
		return
	}
	nb := o.Pick(8, 16)
	rounds := o.Pick(1, 6)
	keys := o.Pick(500, 800)
	maxttl := o.Pick(3, 5)
	tcpOK := procs.Bin(false) != ""
	batches := super.Run(o.Work, nb, nb, time.Duration(o.Pick(120, 900))*time.Second, nil, func(i int, out, journal string) []string {
		a := []string{"-worker", "-batch", strconv.Itoa(i), "-rounds", strconv.Itoa(rounds), "-keys", strconv.Itoa(keys), "-maxttl", strconv.Itoa(maxttl), "-tier", o.Tier, "-seed", fmt.Sprint(o.Seed), "-out", out, "-journal", journal, "-work", o.Work}
		if tcpOK && i%2 == 1 {
			a = append(a, "-tcp")
		} else if i%4 == 2 {
			a = append(a, "-snap")
		}
		return a
	})
	agg := workerOut{Tuples: map[string]int{}}
	bySig := map[string]div{}
	inconclusive := ""
	vehicles := map[string]int{}
	for _, b := range batches {
		if b.TimedOut {
			inconclusive = "a batch exceeded its wall-clock limit"
			continue
		}
		if b.Died() {
			sig := "crash|" + seqrun.Generalise(b.CrashLine())
			bySig[sig] = div{Kind: "crash", Got: "worker/server died: " + b.CrashLine() + "\nlast: " + b.LastJournal() + "\n" + inproc.TopFrames(b.LogTail(1<<16), 8), Sig: sig}
			continue
		}
		var w workerOut
		if json.Unmarshal(b.Result, &w) != nil {
			inconclusive = "unreadable worker output"
			continue
		}
		vehicles[w.Vehicle]++
		agg.Keys += w.Keys
		agg.Commands += w.Commands
		agg.Decisive += w.Decisive
		agg.Ambiguous += w.Ambiguous
		agg.PostDead += w.PostDead
		agg.PreAlive += w.PreAlive
		agg.Control += w.Control
		agg.DumpChecks += w.DumpChecks
		agg.SnapshotSwaps += w.SnapshotSwaps
		for k, v := range w.Tuples {
			agg.Tuples[k] += v
		}
		for _, d := range w.Divs {
			if _, ok := bySig[d.Sig]; !ok {
				bySig[d.Sig] = d
			}
		}
	}
	sigs := make([]string, 0, len(bySig))
	for s := range bySig {
		sigs = append(sigs, s)
	}
	sort.Strings(sigs)
	violations := 0
	knownHits := map[string]int{}
	var vs []any
	for _, s := range sigs {
		d := bySig[s]
		if k := kf.MatchSig(prop, s); k != nil {
			knownHits[k.ID]++
			continue
		}
		violations++
		path := filepath.Join(o.Replays, fmt.Sprintf("%s-%d-%03d.json", prop, o.Seed, violations))
		b, _ := json.MarshalIndent(d, "", " ")
		_ = os.WriteFile(path, b, 0o644)
		fmt.Printf("--- %s %s %v (%s, %s; %s; ttl %d) phase %s\n    want: %s\n    got:  %s\n    %s\n    setup: %v\n    sig: %s\n", prop, d.Kind, d.Cmd, d.Type, d.Attach, d.Follow, d.TTL, d.Phase, d.Want, d.Got, d.Times, d.Setup, d.Sig)
		common.Violation(prop, path)
		if len(vs) < 3 {
			vs = append(vs, d)
		}
	}
	for _, k := range kf.Known(prop) {
		if knownHits[k.ID] > 0 {
			common.Known(prop, k.ID+" "+k.What)
		}
	}
	frac := 0.0
	if agg.Decisive+agg.Ambiguous > 0 {
		frac = float64(agg.Decisive) / float64(agg.Decisive+agg.Ambiguous)
	}
	ev := &evidence.Evidence{PropertyID: prop, Tier: o.Tier, Seed: o.Seed, Level: "exploration", WallS: o.Elapsed(), Violations: violations,
		Coverage: map[string]any{
			"evaluations":         agg.Keys,
			"distinct_nontrivial": len(agg.Tuples),
			"rule": "one small program per key: value type x way of attaching the deadline (SETEX, SET EX/PX/EXAT, EXPIRE plain/NX/XX/GT/LT with the condition true and false) x ttl x follow-up (SET with/without KEEPTTL, APPEND/INCR, PERSIST, DEL+recreate, RENAME, MSET, second EXPIRE) " +
				"x one post-deadline probe command at fraction 0.10/0.45 of the deadline second or of the next one (+ a pre-deadline probe at 0.9 of the last live second); distinct = (probe command, value type, probe phase) tuples with a decisive verdict",
			"samples":                                []any{[]string{"SETEX c6:1 1 10 @0.75", "GET c6:1 @deadline+0.10 -> must be nil"}, []string{"RPUSH c6:2 a b", "EXPIRE c6:2 2 LT", "RENAME away and back", "LLEN c6:2 @deadline+0.45 -> 0"}, []string{"SET c6:3 10 EX 1", "PERSIST c6:3", "GET c6:3 @old deadline+1.10 -> 10"}},
			"keys":                                   agg.Keys,
			"commands":                               agg.Commands,
			"probes_decisive":                        agg.Decisive,
			"probes_ambiguous":                       agg.Ambiguous,
			"decisive_fraction":                      frac,
			"decisive_post_deadline":                 agg.PostDead,
			"decisive_pre_deadline_alive":            agg.PreAlive,
			"decisive_control_group":                 agg.Control,
			"stored_deadline_dump_checks":            agg.DumpChecks,
			"keyspaces_continued_through_a_snapshot": agg.SnapshotSwaps,
			"vehicles":                               vehicles,
			"signatures":                             len(sigs),
			"known_finding_hits":                     knownHits,
			"violation_samples":                      vs,
		},
		Assumptions: []string{"one-second clock granularity: a probe is decisive only if its recorded [before, after] second bracket does not contain the deadline; the rest are counted ambiguous",
			"each key gets exactly one post-deadline probe (a lazy check reaps the key, so a second probe would observe the first one's side effect)"}}
	if inconclusive != "" {
		ev.Coverage["inconclusive"] = inconclusive
	}
	_ = evidence.Write(o.Evidence, ev)
	fmt.Printf("%s %s seed=%d: %d keys, %d commands, probes decisive %d (post-deadline %d, pre %d, control %d) ambiguous %d, %d tuples, vehicles %v, %d signatures (%d unmatched), %.1fs\n",
		prop, o.Tier, o.Seed, agg.Keys, agg.Commands, agg.Decisive, agg.PostDead, agg.PreAlive, agg.Control, agg.Ambiguous, len(agg.Tuples), vehicles, len(sigs), violations, o.Elapsed())
	if violations > 0 {
		o.Cleanup()
		os.Exit(common.ExitViolation)
	}
	if inconclusive != "" || agg.PostDead < 200 || frac < 0.5 || len(agg.Tuples) < 40 {
		common.Inconclusive(prop, fmt.Sprintf("%s decisive fraction %.2f, post-deadline decisive %d, tuples %d", inconclusive, frac, agg.PostDead, len(agg.Tuples)))
		o.Cleanup()
		os.Exit(common.ExitInconclusive)
	}
}
