// Command c15 checks property C15 (Raft safety under faults and membership
// changes) by fault enumeration: many seeded schedules drive groups of
// raft.RawNode through the public API, with invariant monitors after every
// simulated event.
package main

import (
	"fmt"
	"os"
	"strconv"

	"rgverif/internal/common"
	"rgverif/internal/evidence"
	"rgverif/internal/raftsim"
)

const prop = "C15"

var assumptions = []string{
	"the network loses, duplicates, reorders and delays messages and partitions nodes, but never corrupts or forges a message",
	"the disk honours the library contract: HardState, snapshot and entries of a Ready are persisted atomically and before any message of that Ready is sent; a crash loses either the whole Ready (before persisting) or only its messages/applies (after persisting); persisted state is never lost or rolled back",
	"the application persists its applied index, its ConfState at that index and its state digest atomically with applying; a restart passes Config.Applied = that index (with the matching ConfState from Storage.InitialState) or Applied = 0 with the snapshot's ConfState, skipping redelivered entries the snapshot covers, as etcd server/raftexample do",
	"committed configuration changes are validated by the application against its configuration at that log position (dry run with the public confchange package, cf. etcd's ValidateConfigurationChange); invalid ones are not passed to ApplyConfChange, as the API allows",
	"node ids are never reused with a wiped disk; members added by a configuration change start with an empty Storage and no peers (join path)",
	"the library's election-timeout jitter comes from a package-level, time-seeded PRNG that cannot be seeded: schedules are a pure function of (seed, schedule index, events) except for the tick count at which a follower/candidate times out; monitors do not depend on it (no false alarms), only replay fidelity does; schedules with det_ticks=true tick leaders only and are exactly replayable",
	"a panic raised inside go.etcd.io/etcd/raft (its own Panicf invariant checks) counts as a violation; a panic raised by the harness itself makes the run inconclusive",
	"the observer sees Ready structs, Status and Storage of every RawNode; unstable entries become visible at the next Ready, so LeaderCompleteness is evaluated at the new leader's first Ready (a leader that crashes before any Ready is not checked)",
}

const rule = "Case = one schedule, a pure function of (seed, schedule index): cluster shape (1..5 voters, optional learner, bootstrap mode), raft.Config (PreVote, CheckQuorum, MaxSizePerMsg 0/64/1MiB, MaxInflightMsgs 1/4/256, ElectionTick 10/5/3), chaos level, one of 8 scripted danger scenarios (schedule index mod 10; two slots have none) and a PRNG-driven sequence of events (tick, deliver/drop/duplicate/delay any in-flight message, partition/heal, propose, campaign, transfer, read-index, full Ready handling, crash inside Ready before/after persisting, crash, restart with Applied=persisted or 0, compact+snapshot, conf change v1/v2/leave-joint, report-unreachable). All monitors (ElectionSafety, LogMatching incl. prefix hash, CommitLedger/StateMachineSafety, LeaderCompleteness, NoCommittedRewrite, HardStateMonotone, ApplyOrder, library panic) run after every event. distinct_nontrivial = number of DISTINCT abstract cluster states observed after events over the whole run, where the abstract state is the hash over all nodes of (role or down, rank of term, rank of persisted last index, rank of commit, voters/learners/outgoing/next-learner sets and auto-leave flag as applied by that node); it is counted in a global set, not derived from evaluations."

func main() {
	o := common.Parse(prop)
	defer o.Cleanup()
	if o.Replay != "" {
		code := replay(o)
		o.Cleanup()
		os.Exit(code)
	}
	if v, err := strconv.Atoi(os.Getenv("C15_TIMELINE")); err == nil {
		// diagnostics: print the timeline and trace tail of one schedule
		ev := 3000
		if e, err := strconv.Atoi(os.Getenv("C15_EVENTS")); err == nil && e > 0 {
			ev = e
		}
		cfg := raftsim.DeriveConfig(o.Seed, v, ev)
		fmt.Printf("%+v\n", cfg)
		lines, trace, viol := raftsim.Timeline(cfg, 250)
		for _, l := range lines {
			fmt.Println(l)
		}
		if os.Getenv("C15_TRACE") != "" {
			for _, l := range trace {
				fmt.Println(l)
			}
		}
		fmt.Println("violation:", viol)
		o.Cleanup()
		return
	}
	schedules, events := 4800, 3000
	if o.Thorough() {
		schedules, events = 500000, 8000
	}
	if v, err := strconv.Atoi(os.Getenv("C15_SCHEDULES")); err == nil && v > 0 {
		schedules = v
	}
	if v, err := strconv.Atoi(os.Getenv("C15_EVENTS")); err == nil && v > 0 {
		events = v
	}
	sum := raftsim.RunMany(o.Seed, schedules, events, 0, func(d int) {
		fmt.Fprintf(os.Stderr, "c15: %d/%d schedules, %.0fs\n", d, schedules, o.Elapsed())
	})
	st := &sum.Stats

	byKind := map[string]int64{}
	minKind, minName := int64(1)<<62, ""
	for k := 0; k < int(raftsim.NumEv); k++ {
		byKind[raftsim.EvNames[k]] = st.Events[k]
		if st.Events[k] < minKind {
			minKind, minName = st.Events[k], raftsim.EvNames[k]
		}
	}
	bias := map[string]interface{}{}
	for b := 1; b < len(raftsim.BiasNames); b++ {
		bias[raftsim.BiasNames[b]] = map[string]int64{"ran": st.BiasRan[b], "completed": st.BiasCompleted[b]}
	}
	samples := sum.Samples
	if len(samples) == 0 {
		samples = []interface{}{"no sample schedule finished"}
	}
	cov := map[string]any{
		"evaluations":                  int(st.Schedules),
		"distinct_nontrivial":          sum.Distinct,
		"rule":                         rule,
		"samples":                      samples,
		"events_per_schedule":          events,
		"total_events":                 st.TotalEvents,
		"events_per_second":            float64(st.TotalEvents) / (o.Elapsed() + 1e-9),
		"monitor_evaluations":          st.MonitorEvals,
		"events_by_kind":               byKind,
		"max_term":                     st.MaxTerm,
		"leader_changes":               st.LeaderChanges,
		"schedules_with_leader":        st.WithLeader,
		"schedules_with_commits":       st.WithCommit,
		"schedules_exactly_replayable": st.DetSchedules,
		"max_log_length":               st.MaxLog,
		"mean_committed_index":         float64(st.SumCommitted) / float64(st.Schedules+1),
		"max_committed_index":          st.MaxCommitted,
		"conf_changes_applied":         st.ConfApplied,
		"conf_changes_rejected_app":    st.ConfRejected,
		"joint_configs_entered":        st.JointEntered,
		"snapshots_sent":               st.SnapshotsSent,
		"snapshots_applied":            st.SnapshotsApplied,
		"compactions":                  st.Compactions,
		"crashes":                      st.Crashes,
		"restarts":                     st.Restarts,
		"nodes_started_by_confchange":  st.NodesStarted,
		"proposals_dropped":            st.ProposalsDropped,
		"redelivered_entries_skipped":  st.ReapplySkipped,
		"read_states":                  st.ReadStates,
		"bias_scenarios":               bias,
		"exhaustive":                   false,
	}

	// Verdict.
	var replays []string
	var vio []map[string]interface{}
	for i := range sum.Violations {
		r := &sum.Violations[i]
		p, err := raftsim.WriteReplay(o.Replays, r)
		if err != nil {
			fmt.Fprintf(os.Stderr, "c15: cannot write replay: %v\n", err)
			p = "(unwritable)"
		}
		replays = append(replays, p)
		vio = append(vio, map[string]interface{}{"schedule": r.Config.Index, "invariant": r.Violation.Invariant, "detail": r.Violation.Detail, "step": r.Violation.Step, "replay": p})
	}
	if len(vio) > 0 {
		cov["violating_schedules"] = vio
		cov["violating_schedules_total"] = sum.NViol
	}

	var why string
	floorKind, floorStates := int64(100), 5000
	if o.Thorough() {
		floorKind, floorStates = 5000, 50000
	}
	switch {
	case len(sum.Harness) > 0:
		why = "harness failure: " + sum.Harness[0]
	case minKind < floorKind:
		why = fmt.Sprintf("coverage floor: event kind %s executed %d times (< %d)", minName, minKind, floorKind)
	case st.WithLeader*10 < st.Schedules*9:
		why = fmt.Sprintf("coverage floor: a leader was elected in only %d of %d schedules (< 90%%)", st.WithLeader, st.Schedules)
	case st.WithCommit*10 < st.Schedules*8:
		why = fmt.Sprintf("coverage floor: client entries were committed in only %d of %d schedules (< 80%%)", st.WithCommit, st.Schedules)
	case sum.Distinct < floorStates:
		why = fmt.Sprintf("coverage floor: %d distinct abstract states (< %d)", sum.Distinct, floorStates)
	}
	if why != "" {
		cov["inconclusive_reason"] = why
	}

	ev := &evidence.Evidence{PropertyID: prop, Tier: o.Tier, Seed: o.Seed, Level: "fault_enumeration",
		Coverage: cov, Assumptions: assumptions, WallS: o.Elapsed(), Violations: sum.NViol}
	if err := evidence.Write(o.Evidence, ev); err != nil {
		fmt.Fprintf(os.Stderr, "c15: cannot write evidence: %v\n", err)
	}
	fmt.Printf("c15: tier=%s seed=%d schedules=%d events=%d distinct_states=%d leaders=%d max_term=%d violations=%d wall=%.1fs\n",
		o.Tier, o.Seed, st.Schedules, st.TotalEvents, sum.Distinct, st.LeaderChanges, st.MaxTerm, sum.NViol, o.Elapsed())
	if sum.NViol > 0 {
		for i, p := range replays {
			r := &sum.Violations[i]
			fmt.Printf("c15: schedule %d: %s: %s\n", r.Config.Index, r.Violation.Invariant, r.Violation.Detail)
			common.Violation(prop, p)
		}
		o.Cleanup()
		os.Exit(common.ExitViolation)
	}
	if why != "" {
		common.Inconclusive(prop, why)
		o.Cleanup()
		os.Exit(common.ExitInconclusive)
	}
	fmt.Printf("HELD property=%s\n", prop)
	o.Cleanup()
	os.Exit(common.ExitHeld)
}

// replay re-runs the schedule of a witness file. Because the library's
// election jitter cannot be seeded, schedules that tick followers are tried a
// few times.
func replay(o *common.Opts) int {
	rf, err := raftsim.ReadReplay(o.Replay)
	if err != nil {
		common.Inconclusive(prop, "cannot read replay file: "+err.Error())
		return common.ExitInconclusive
	}
	cfg := raftsim.DeriveConfig(rf.Seed, rf.Schedule, rf.Events)
	if cfg != rf.Config {
		fmt.Printf("c15: warning: config in witness differs from the derived one; using the derived one\n")
	}
	attempts := 25
	if cfg.DetTicks {
		attempts = 1
	}
	for a := 1; a <= attempts; a++ {
		res := raftsim.RunSchedule(cfg, nil)
		if res.Harness != "" {
			common.Inconclusive(prop, "harness failure in replay: "+res.Harness)
			return common.ExitInconclusive
		}
		if res.Violation != nil {
			fmt.Printf("c15: replay attempt %d reproduces: %s at step %d: %s\n", a, res.Violation.Invariant, res.Violation.Step, res.Violation.Detail)
			if os.Getenv("RAFTSIM_LOGS") != "" {
				for _, l := range res.Final {
					fmt.Println(l)
				}
			}
			common.Violation(prop, o.Replay)
			return common.ExitViolation
		}
	}
	fmt.Printf("c15: replay of seed=%d schedule=%d did not violate in %d attempt(s) (witness recorded %s)\n", rf.Seed, rf.Schedule, attempts, rf.Invariant)
	return common.ExitHeld
}
