//go:build verif

// Command c02 decides C02 (RESP request decoding is exact, binary-safe and
// fragmentation-independent; malformed bytes never crash the server nor
// execute anything): (1) in-process, the real resp.ParseStream is fed each
// stream through a reader that returns exactly the planned chunk per Read,
// and what it delivers is compared with an independent strict recogniser;
// (2) the same kinds of streams are written to the real server binary over
// TCP with pauses between chunks, observing replies, canary keys and the
// liveness of other connections.
package main

import (
	"bytes"
	"context"
	"encoding/hex"
	"encoding/json"
	"flag"
	"fmt"
	"io"
	"math/rand"
	"os"
	"path/filepath"
	"sort"
	"strconv"
	"strings"
	"time"

	"github.com/innovationb1ue/RedisGO/resp"

	"rgverif/internal/cluster"
	"rgverif/internal/common"
	"rgverif/internal/evidence"
	"rgverif/internal/findings"
	"rgverif/internal/inproc"
	"rgverif/internal/procs"
	"rgverif/internal/respc"
	"rgverif/internal/super"
)

const prop = "C02"

var (
	fWorker  = flag.Bool("worker", false, "run as batch worker")
	fBatch   = flag.Int("batch", 0, "batch index")
	fBatches = flag.Int("batches", 1, "number of batches")
	fOut     = flag.String("out", "", "worker result file")
	fJournal = flag.String("journal", "", "worker journal file")
	fSkip    = flag.Int("skip", 0, "inputs of this batch to skip (resume after a crash)")
)

// chunkReader returns exactly the planned chunk per Read.
type chunkReader struct {
	data []byte
	cuts []int // ascending cut offsets
	pos  int
	ci   int
}

func (c *chunkReader) Read(p []byte) (int, error) {
	if c.pos >= len(c.data) {
		return 0, io.EOF
	}
	end := len(c.data)
	for c.ci < len(c.cuts) && c.cuts[c.ci] <= c.pos {
		c.ci++
	}
	if c.ci < len(c.cuts) {
		end = c.cuts[c.ci]
	}
	if end-c.pos > len(p) {
		end = c.pos + len(p)
	}
	n := copy(p, c.data[c.pos:end])
	c.pos += n
	return n, nil
}

type item struct {
	cmd   [][]byte // non-nil: a command-shaped array
	other bool     // some other value
	err   string   // non-empty: error item ("EOF" for io.EOF)
}

// parse runs the real parser over the stream with the given cut plan.
func parse(stream []byte, cuts []int) (items []item, hung bool) {
	ctx, cancel := context.WithCancel(context.Background())
	defer cancel()
	ch := resp.ParseStream(ctx, &chunkReader{data: stream, cuts: cuts})
	deadline := time.After(20 * time.Second)
	for {
		select {
		case pr, ok := <-ch:
			if !ok {
				return items, false
			}
			if pr.Err != nil {
				if pr.Err == io.EOF {
					items = append(items, item{err: "EOF"})
				} else {
					items = append(items, item{err: "protocol: " + pr.Err.Error()})
				}
				continue
			}
			if pr.Data == nil {
				items = append(items, item{other: true})
				continue
			}
			v := inproc.Conv(pr.Data)
			if v.IsCommand() {
				items = append(items, item{cmd: v.Argv()})
			} else {
				items = append(items, item{other: true})
			}
		case <-deadline:
			return items, true
		}
	}
}

func sameCmd(a, b [][]byte) bool {
	if len(a) != len(b) {
		return false
	}
	for i := range a {
		if !bytes.Equal(a[i], b[i]) {
			return false
		}
	}
	return true
}

// judge compares what the parser delivered with the strict recogniser. "" = fine.
func judge(sc respc.ScanResult, items []item) string {
	if sc.Unspec || !sc.Pure {
		return "" // only crash/termination matter (checked by the caller)
	}
	// items before the first error
	var cmds [][][]byte
	others := 0
	firstErr := ""
	for _, it := range items {
		if it.err != "" {
			firstErr = it.err
			break
		}
		if it.cmd != nil {
			cmds = append(cmds, it.cmd)
		} else {
			others++
		}
	}
	if len(cmds) < len(sc.Commands) {
		return fmt.Sprintf("well-formed command #%d not delivered (got %d of %d before %q)", len(cmds)+1, len(cmds), len(sc.Commands), firstErr)
	}
	for i := range sc.Commands {
		if !sameCmd(cmds[i], sc.Commands[i]) {
			return fmt.Sprintf("command #%d decoded differently: sent %q got %q", i+1, sc.Commands[i], cmds[i])
		}
	}
	if len(cmds) > len(sc.Commands) {
		return fmt.Sprintf("a command was delivered from bytes at or after the protocol violation: %q", cmds[len(sc.Commands)])
	}
	if others > 0 {
		return fmt.Sprintf("%d non-command value(s) delivered from a stream of pure commands", others)
	}
	if sc.Violation >= 0 && firstErr == "" {
		return "protocol violation neither reported nor the stream ended"
	}
	if sc.Violation < 0 && firstErr != "EOF" {
		return "well-formed stream ended with " + firstErr
	}
	return ""
}

// ---- stream generators ----------------------------------------------------

var argPool = [][]byte{[]byte(""), []byte("\r"), []byte("\n"), []byte("\r\n"), []byte("$3\r\nfoo\r\n"), []byte("\x00"), bytes.Repeat([]byte{0xff}, 7),
	[]byte("PING"), []byte("a b"), []byte("*1\r\n"), []byte("x")}

func genArg(r *rand.Rand) []byte {
	switch r.Intn(20) {
	case 0:
		b := make([]byte, 4096)
		r.Read(b)
		return b
	case 1:
		b := make([]byte, 70*1024)
		r.Read(b)
		return b
	case 2:
		b := make([]byte, 4090+r.Intn(12))
		for i := range b {
			b[i] = "\r\n$*"[r.Intn(4)]
		}
		return b
	}
	return argPool[r.Intn(len(argPool))]
}

func genCommands(r *rand.Rand) [][][]byte {
	n := 1 + r.Intn(8)
	var cmds [][][]byte
	for i := 0; i < n; i++ {
		na := 1 + r.Intn(6)
		var c [][]byte
		for j := 0; j < na; j++ {
			c = append(c, genArg(r))
		}
		cmds = append(cmds, c)
	}
	return cmds
}

func encodeAll(cmds [][][]byte) []byte {
	var b bytes.Buffer
	for _, c := range cmds {
		b.Write(respc.EncodeCommand(c))
	}
	return b.Bytes()
}

// plans returns the cut plans for a stream.
func plans(stream []byte, r *rand.Rand, nRandom int) [][]int {
	n := len(stream)
	var out [][]int
	out = append(out, nil) // one read
	if n <= 12 {
		for mask := 1; mask < 1<<(n-1); mask++ {
			var cuts []int
			for i := 0; i < n-1; i++ {
				if mask&(1<<i) != 0 {
					cuts = append(cuts, i+1)
				}
			}
			out = append(out, cuts)
		}
		return out
	}
	// one byte per read
	if n <= 20000 {
		all := make([]int, n-1)
		for i := range all {
			all[i] = i + 1
		}
		out = append(out, all)
	}
	// every single cut (bounded), cuts around structural bytes in pairs
	step := 1
	if n > 600 {
		step = n / 600
	}
	for i := 1; i < n; i += step {
		out = append(out, []int{i})
	}
	var marks []int
	for i, c := range stream {
		if (c == '\r' || c == '\n' || c == '$' || c == '*') && len(marks) < 40 {
			marks = append(marks, i)
		}
	}
	for a := 0; a < len(marks); a++ {
		for b := a + 1; b < len(marks) && b < a+6; b++ {
			for _, d := range []int{0, 1} {
				c1, c2 := marks[a]+d, marks[b]+d
				if c1 > 0 && c2 < n && c1 < c2 {
					out = append(out, []int{c1, c2})
				}
			}
		}
	}
	for _, al := range []int{4095, 4096, 4097} {
		var cuts []int
		for i := al; i < n; i += al {
			cuts = append(cuts, i)
		}
		if len(cuts) > 0 {
			out = append(out, cuts)
		}
	}
	for k := 0; k < nRandom; k++ {
		nc := 1 + r.Intn(8)
		set := map[int]bool{}
		for i := 0; i < nc; i++ {
			set[1+r.Intn(n-1)] = true
		}
		var cuts []int
		for c := range set {
			cuts = append(cuts, c)
		}
		sort.Ints(cuts)
		out = append(out, cuts)
	}
	return out
}

// mutate returns malformed variants of a valid stream.
func mutate(valid []byte, r *rand.Rand, n int) [][]byte {
	var out [][]byte
	for k := 0; k < n; k++ {
		b := append([]byte{}, valid...)
		if len(b) == 0 {
			continue
		}
		i := r.Intn(len(b))
		switch r.Intn(7) {
		case 0: // delete a byte
			b = append(b[:i], b[i+1:]...)
		case 1: // insert a byte
			b = append(b[:i], append([]byte{"\r\n$*0a-"[r.Intn(7)]}, b[i:]...)...)
		case 2: // replace
			b[i] = "\r\n$*0a-:+"[r.Intn(9)]
		case 3: // truncate
			b = b[:i]
		case 4: // bare LF
			b = bytes.Replace(b, []byte("\r\n"), []byte("\n"), 1)
		case 5: // huge / negative / non-numeric length
			repl := [][]byte{[]byte("$9223372036854775805\r\n"), []byte("$-2\r\n"), []byte("$x\r\n"), []byte("*9223372036854775807\r\n"), []byte("*-5\r\n"), []byte("$18446744073709551616\r\n")}
			j := bytes.IndexByte(b, '$')
			if j >= 0 {
				e := bytes.IndexByte(b[j:], '\n')
				if e > 0 {
					b = append(append(append([]byte{}, b[:j]...), repl[r.Intn(len(repl))]...), b[j+e+1:]...)
				}
			}
		case 6: // wrong bulk length +-1
			j := bytes.IndexByte(b, '$')
			if j >= 0 && j+1 < len(b) && b[j+1] >= '1' && b[j+1] <= '8' {
				b[j+1] += byte(1 - 2*r.Intn(2))
			}
		}
		out = append(out, b)
	}
	return out
}

func enumerateShort(alpha []byte, maxLen int, f func([]byte)) {
	var rec func(cur []byte)
	rec = func(cur []byte) {
		if len(cur) > 0 {
			f(cur)
		}
		if len(cur) == maxLen {
			return
		}
		for _, c := range alpha {
			rec(append(append([]byte{}, cur...), c))
		}
	}
	rec(nil)
}

type witness struct {
	Kind   string `json:"kind"` // mismatch | hang | crash | tcp
	Stream string `json:"stream_hex"`
	Cuts   []int  `json:"cuts"`
	Detail string `json:"detail"`
	Sig    string `json:"sig"`
}

type workerOut struct {
	Streams   int            `json:"streams"`
	Parses    int            `json:"parses"`
	PureOK    int            `json:"pure_ok"`    // category A parses judged
	ViolOK    int            `json:"viol_ok"`    // category B parses judged
	NoVerdict int            `json:"no_verdict"` // category C parses (crash/termination only)
	Wits      []witness      `json:"wits"`
	Done      int            `json:"done"`
	Classes   map[string]int `json:"classes"`
}

func sigOf(detail string) string {
	d := detail
	if i := strings.IndexAny(d, ":("); i > 0 {
		d = d[:i]
	}
	return d
}

func worker(o *common.Opts) {
	inproc.Setup(4, 1, filepath.Join(o.Work, "log"))
	j, _ := os.OpenFile(*fJournal, os.O_CREATE|os.O_WRONLY|os.O_APPEND, 0o644)
	out := workerOut{Classes: map[string]int{}}
	seen := map[string]bool{}
	mine := 0
	flush := func() {
		b, _ := json.Marshal(out)
		_ = os.WriteFile(*fOut+".tmp", b, 0o644)
		_ = os.Rename(*fOut+".tmp", *fOut)
	}
	n := 0
	one := func(stream []byte, pl [][]int) {
		n++
		if n%*fBatches != *fBatch {
			return
		}
		mine++
		out.Done = mine
		if mine <= *fSkip {
			return
		}
		fmt.Fprintf(j, "%d %s\n", mine, hex.EncodeToString(stream))
		sc := respc.Scan(stream)
		out.Streams++
		class := "C-nonpure"
		switch {
		case sc.Unspec:
			class = "unspecified"
		case sc.Pure && sc.Violation < 0:
			class = "A-wellformed"
		case sc.Pure && sc.Truncated:
			class = "B-truncated"
		case sc.Pure:
			class = "B-malformed"
		}
		out.Classes[class]++
		for _, cuts := range pl {
			items, hung := parse(stream, cuts)
			out.Parses++
			if hung {
				sig := "hang|" + class
				if !seen[sig] {
					seen[sig] = true
					out.Wits = append(out.Wits, witness{Kind: "hang", Stream: hex.EncodeToString(stream), Cuts: cuts, Detail: "parser neither delivered nor ended within 20s after the reader hit EOF", Sig: sig})
				}
				continue
			}
			if v := judge(sc, items); v != "" {
				sig := "mismatch|" + class + "|" + sigOf(v)
				if !seen[sig] {
					seen[sig] = true
					out.Wits = append(out.Wits, witness{Kind: "mismatch", Stream: hex.EncodeToString(stream), Cuts: cuts, Detail: v, Sig: sig})
				}
			}
			switch class[0] {
			case 'A':
				out.PureOK++
			case 'B':
				out.ViolOK++
			default:
				out.NoVerdict++
			}
		}
		if mine%2000 == 0 {
			flush()
		}
	}
	r := rand.New(rand.NewSource(o.Seed))
	// (a) well-formed pipelines under their chunk plans, (b) mutations of them
	nValid := o.Pick(2000, 50000)
	for i := 0; i < nValid; i++ {
		cmds := genCommands(r)
		if i%5 != 0 {
			// keep most streams small so that many plans can be run
			for ci := range cmds {
				for ai := range cmds[ci] {
					if len(cmds[ci][ai]) > 64 {
						cmds[ci][ai] = argPool[r.Intn(len(argPool))]
					}
				}
			}
		}
		s := encodeAll(cmds)
		nr := 8
		if len(s) > 20000 {
			nr = 3
		}
		pl := plans(s, r, nr)
		if len(s) > 20000 && len(pl) > 40 {
			pl = pl[:40]
		}
		one(s, pl)
		if i%4 == 0 {
			// canary: a further command after the damage must never be delivered
			for _, m := range mutate(s, r, 3) {
				m = append(m, respc.EncodeCommand(respc.Cmd("SET", "canary", "1"))...)
				mp := plans(m, r, 2)
				if len(mp) > 12 {
					mp = append(mp[:6], mp[len(mp)-6:]...)
				}
				one(m, mp)
			}
		}
	}
	// (c) exhaustive short streams over the structural alphabet
	enumerateShort([]byte{'*', '$', '\r', '\n', '0', '1', '-', 'a'}, o.Pick(5, 6), func(s []byte) {
		one(append([]byte{}, s...), [][]int{nil})
	})
	// tiny valid commands under ALL partitions
	for _, c := range [][]string{{"a"}, {""}, {"\r"}, {"\n"}} {
		s := respc.EncodeCommand(respc.Cmd(c...))
		one(s, plans(s, r, 0))
	}
	flush()
}

func unhex(s string) []byte { b, _ := hex.DecodeString(s); return b }

// tcpVehicle observes decoding end to end on the real binary.
// With asCluster the target is a one-node cluster: the same streams go through HandleCluster (its own connection
// loop), the command filter, the proposal round trip and the apply loop.
func tcpVehicle(o *common.Opts, n int, asCluster bool, report0 func(witness)) (streams, cmds int, note string) {
	if procs.Bin(false) == "" {
		return 0, 0, "server binary not available"
	}
	report := report0
	seedOff := int64(5)
	if asCluster {
		seedOff = 6
		report = func(w witness) {
			w.Kind = "cluster"
			w.Detail = "one-node cluster: " + w.Detail
			w.Sig = "cluster|" + strings.TrimPrefix(w.Sig, "tcp|")
			report0(w)
		}
	}
	r := rand.New(rand.NewSource(o.Seed + seedOff))
	var srv *procs.Server
	start := func() error {
		var err error
		for try := 0; try < 5; try++ {
			if asCluster {
				dir := filepath.Join(o.Work, fmt.Sprintf("cl-%d", r.Int63()))
				var cl *cluster.Cluster
				if cl, err = cluster.New(dir, 1, false, nil); err != nil {
					continue
				}
				if err = cl.StartAll(); err == nil && cl.WaitAllWritable(90*time.Second) {
					srv = cl.Nodes[0].Srv
					return nil
				}
				cl.Stop()
				err = fmt.Errorf("one-node cluster did not become writable")
				continue
			}
			srv, err = procs.Start(procs.Opts{Dir: filepath.Join(o.Work, fmt.Sprintf("srv-%d", r.Int63())), Port: procs.FreePorts(1)[0], ShardNum: 8, Databases: 1})
			if err == nil {
				return nil
			}
		}
		return err
	}
	if err := start(); err != nil {
		return 0, 0, "server start failed: " + err.Error()
	}
	defer func() { srv.Kill() }()
	watch, err := respc.Dial(srv.Addr, 10*time.Second) // a bystander connection that must stay usable
	if err != nil {
		return 0, 0, "dial failed"
	}
	_, _ = watch.Do("SET", "sentinel", "s")
	bystander := func(ctxt string, stream []byte) bool {
		v, err := watch.Do("GET", "sentinel")
		if err != nil || string(v.Str) != "s" {
			report(witness{Kind: "tcp", Stream: hex.EncodeToString(stream), Detail: ctxt + ": another connection was disturbed: " + fmt.Sprint(err) + " " + v.String() + " crash=" + srv.CrashLine(), Sig: "tcp|bystander disturbed"})
			return false
		}
		return true
	}
	for i := 0; i < n; i++ {
		if srv.Exited() {
			report(witness{Kind: "tcp", Detail: "server process exited: " + srv.CrashLine(), Sig: "tcp|server exited"})
			return streams, cmds, ""
		}
		// commands whose replies reveal the decoded arguments: PING <arg> echoes; SET/GET round trip
		var cs [][][]byte
		nc := 1 + r.Intn(6)
		for k := 0; k < nc; k++ {
			a := genArg(r)
			if len(a) > 8192 && i%7 != 0 {
				a = argPool[r.Intn(len(argPool))]
			}
			if r.Intn(2) == 0 {
				cs = append(cs, [][]byte{[]byte("PING"), a})
			} else {
				key := []byte(fmt.Sprintf("k%d\r\n\x00%d", i, k))
				cs = append(cs, [][]byte{[]byte("SET"), key, a}, [][]byte{[]byte("GET"), key})
			}
		}
		stream := encodeAll(cs)
		malformed := i%3 == 2
		canary := fmt.Sprintf("canary:%d:%d", o.Seed, i)
		var sc respc.ScanResult
		if malformed {
			ms := mutate(stream, r, 1)[0]
			ms = append(ms, respc.EncodeCommand(respc.Cmd("SET", canary, "1"))...)
			sc = respc.Scan(ms)
			if sc.Unspec || !sc.Pure || sc.Violation < 0 {
				continue
			}
			stream = ms
		} else {
			sc = respc.Scan(stream)
		}
		c, err := respc.Dial(srv.Addr, 10*time.Second)
		if err != nil {
			report(witness{Kind: "tcp", Detail: "cannot connect: " + err.Error() + " crash=" + srv.CrashLine(), Sig: "tcp|cannot connect"})
			return streams, cmds, ""
		}
		streams++
		// chunked writes with pauses
		rest := stream
		nchunks := 1 + r.Intn(5)
		for len(rest) > 0 {
			k := len(rest)
			if nchunks > 1 {
				k = 1 + r.Intn(len(rest))
			}
			_ = c.SendRaw(rest[:k])
			rest = rest[k:]
			nchunks--
			if len(rest) > 0 {
				time.Sleep(time.Duration(r.Intn(3)) * time.Millisecond)
			}
		}
		if tc, ok := c.Conn.(interface{ CloseWrite() error }); ok && malformed {
			_ = tc.CloseWrite() // half-close: a parser waiting for more bytes sees EOF
		}
		// expected replies for the well-formed prefix
		bad := ""
		for k, cmdv := range sc.Commands {
			v, err := c.RecvTimeout(10 * time.Second)
			if err != nil {
				bad = fmt.Sprintf("reply %d of %d missing: %v", k+1, len(sc.Commands), err)
				break
			}
			switch strings.ToUpper(string(cmdv[0])) {
			case "PING":
				if len(cmdv) == 2 && (v.Kind != '$' || !bytes.Equal(v.Str, cmdv[1])) {
					bad = fmt.Sprintf("PING echo differs: sent %d bytes %q got %s", len(cmdv[1]), trunc(cmdv[1]), v.String())
				}
			case "GET":
				// value set by the preceding SET of the same key
				if k > 0 && len(sc.Commands[k-1]) == 3 && bytes.Equal(sc.Commands[k-1][1], cmdv[1]) {
					if v.Kind != '$' || !bytes.Equal(v.Str, sc.Commands[k-1][2]) {
						bad = fmt.Sprintf("GET after SET differs: sent %d bytes %q got %s", len(sc.Commands[k-1][2]), trunc(sc.Commands[k-1][2]), v.String())
					}
				}
			}
			cmds++
			if bad != "" {
				break
			}
		}
		if bad == "" && malformed {
			// then: an error reply and/or a close; never a further normal reply
			v, err := c.RecvTimeout(10 * time.Second)
			if err == nil && v.Kind != '-' {
				// one more well-formed reply: allowed only if it answers nothing of ours; be strict: it must be an error
				bad = "a non-error reply followed the protocol violation: " + v.String()
			} else if err != nil {
				if ne, ok := err.(interface{ Timeout() bool }); ok && ne.Timeout() {
					bad = "neither an error reply nor a close within 10s after the violation"
				}
			}
		}
		c.Close()
		if bad != "" {
			report(witness{Kind: "tcp", Stream: hex.EncodeToString(stream), Detail: bad, Sig: "tcp|" + sigOf(bad)})
		}
		if malformed {
			time.Sleep(2 * time.Millisecond)
			if srv.Exited() {
				report(witness{Kind: "tcp", Stream: hex.EncodeToString(stream), Detail: "server process exited after a malformed stream: " + srv.CrashLine(), Sig: "tcp|server exited"})
				return streams, cmds, ""
			}
			v, err := watch.Do("EXISTS", canary)
			if err == nil && v.Kind == ':' && v.Int != 0 {
				report(witness{Kind: "tcp", Stream: hex.EncodeToString(stream), Detail: "a command after the protocol violation was executed (canary key exists)", Sig: "tcp|canary executed"})
			}
		}
		if i%20 == 0 && !bystander("after stream", stream) {
			return streams, cmds, ""
		}
	}
	bystander("end", nil)
	watch.Close()
	return streams, cmds, ""
}

func trunc(b []byte) string {
	if len(b) > 40 {
		return string(b[:40]) + "..."
	}
	return string(b)
}

func main() {
	o := common.Parse(prop)
	if *fWorker {
		worker(o)
		return
	}
	defer o.Cleanup()
	kf, err := findings.Load(findings.DefaultPath)
	if err != nil {
		fmt.Println("cannot load known findings:", err)
		os.Exit(common.ExitInconclusive)
	}
	if o.Replay != "" {
		b, _ := os.ReadFile(o.Replay)
		var w witness
		_ = json.Unmarshal(b, &w)
		inproc.Setup(4, 1, filepath.Join(o.Work, "log"))
		stream := unhex(w.Stream)
		items, hung := parse(stream, w.Cuts)
		v := judge(respc.Scan(stream), items)
		fmt.Printf("stream %q cuts %v -> hung=%v verdict=%q\n", stream, w.Cuts, hung, v)
		if hung || v != "" {
			common.Violation(prop, o.Replay)
			o.Cleanup()
			os.Exit(common.ExitViolation)
		}
		return
	}
	nb := 16
	limit := time.Duration(o.Pick(300, 3000)) * time.Second
	agg := workerOut{Classes: map[string]int{}}
	bySig := map[string]witness{}
	inconclusive := ""
	skipOf := make([]int, nb)
	pending := make([]int, nb)
	for i := range pending {
		pending[i] = i
	}
	for round := 0; round < 30 && len(pending) > 0; round++ {
		cur := pending
		rs := super.Run(filepath.Join(o.Work, fmt.Sprintf("round-%d", round)), len(cur), 0, limit, nil, func(k int, out, journal string) []string {
			i := cur[k]
			return []string{"-worker", "-batch", strconv.Itoa(i), "-batches", strconv.Itoa(nb), "-skip", strconv.Itoa(skipOf[i]), "-tier", o.Tier, "-seed", fmt.Sprint(o.Seed), "-out", out, "-journal", journal, "-work", o.Work}
		})
		pending = nil
		for k, b := range rs {
			var w workerOut
			ok := b.Result != nil && json.Unmarshal(b.Result, &w) == nil
			if ok {
				agg.Streams += w.Streams
				agg.Parses += w.Parses
				agg.PureOK += w.PureOK
				agg.ViolOK += w.ViolOK
				agg.NoVerdict += w.NoVerdict
				for c, v := range w.Classes {
					agg.Classes[c] += v
				}
				for _, x := range w.Wits {
					if _, dup := bySig[x.Sig]; !dup {
						bySig[x.Sig] = x
					}
				}
			}
			if b.TimedOut {
				inconclusive = "a batch exceeded its wall-clock limit"
				continue
			}
			if b.Err != nil {
				// the process died (a panic in the parser goroutine cannot be recovered): the journal pins the stream
				last := strings.Fields(b.LastJournal())
				if len(last) == 2 {
					ord, _ := strconv.Atoi(last[0])
					sig := "crash|" + sigOf(b.CrashLine())
					if _, dup := bySig[sig]; !dup {
						bySig[sig] = witness{Kind: "crash", Stream: last[1], Detail: "parser killed the process: " + b.CrashLine() + "\n" + inproc.TopFrames(b.LogTail(1<<16), 6), Sig: sig}
					}
					skipOf[cur[k]] = ord
					pending = append(pending, cur[k])
				} else {
					inconclusive = "a batch died without a journal entry"
				}
			}
		}
	}
	if len(pending) > 0 {
		inconclusive = "more than 30 crashing streams in one batch"
	}
	tcpStreams, tcpCmds, tcpNote := tcpVehicle(o, o.Pick(500, 10000), false, func(w witness) {
		if _, dup := bySig[w.Sig]; !dup {
			bySig[w.Sig] = w
		}
	})
	clStreams, clCmds, clNote := tcpVehicle(o, o.Pick(250, 4000), true, func(w witness) {
		if _, dup := bySig[w.Sig]; !dup {
			bySig[w.Sig] = w
		}
	})
	if clNote != "" {
		tcpNote += " cluster vehicle: " + clNote
	}
	sigs := make([]string, 0, len(bySig))
	for s := range bySig {
		sigs = append(sigs, s)
	}
	sort.Strings(sigs)
	violations := 0
	knownHits := map[string]int{}
	var vs []any
	for _, s := range sigs {
		w := bySig[s]
		if k := kf.MatchSig(prop, s); k != nil {
			knownHits[k.ID]++
			continue
		}
		violations++
		path := filepath.Join(o.Replays, fmt.Sprintf("%s-%d-%03d.json", prop, o.Seed, violations))
		b, _ := json.MarshalIndent(w, "", " ")
		_ = os.WriteFile(path, b, 0o644)
		st := unhex(w.Stream)
		if len(st) > 120 {
			st = st[:120]
		}
		fmt.Printf("--- %s %s stream=%q cuts=%v\n    %s\n    sig: %s\n", prop, w.Kind, st, w.Cuts, strings.ReplaceAll(w.Detail, "\n", "\n    "), w.Sig)
		common.Violation(prop, path)
		if len(vs) < 3 {
			vs = append(vs, w)
		}
	}
	for _, k := range kf.Known(prop) {
		if knownHits[k.ID] > 0 {
			common.Known(prop, k.ID+" "+k.What)
		}
	}
	ev := &evidence.Evidence{PropertyID: prop, Tier: o.Tier, Seed: o.Seed, Level: "exploration", WallS: o.Elapsed(), Violations: violations,
		Coverage: map[string]any{
			"evaluations":         agg.Parses + tcpStreams + clStreams,
			"distinct_nontrivial": agg.PureOK + agg.ViolOK,
			"rule": "streams = seeded pipelines of 1-8 commands with binary arguments (CR, LF, CRLF, RESP-looking payloads, NUL, 0xFF, 4 KiB, 70 KiB) + byte-level mutations of them followed by a canary command + all streams of length <= N over {* $ CR LF 0 1 - a}; " +
				"each stream is parsed by the real resp.ParseStream under every cut plan (all partitions for streams <= 12 bytes; every single cut, cut pairs around structural bytes, 1 byte per read, 4095/4096/4097 alignment, random partitions otherwise); " +
				"non-trivial = parses with a verdict: (stream, plan) pairs whose delivered commands were compared with the strict recogniser (classes A and B); class C only has to terminate without crashing",
			"samples":                     []any{"*2\\r\\n$4\\r\\nPING\\r\\n$2\\r\\n\\r\\n\\r\\n cut at every offset", "*1\\r\\n$4\\r\\nPINX\\n + canary SET", "\\n", "$9223372036854775805\\r\\n"},
			"streams":                     agg.Streams,
			"parses":                      agg.Parses,
			"parses_wellformed_judged":    agg.PureOK,
			"parses_violation_judged":     agg.ViolOK,
			"parses_no_verdict":           agg.NoVerdict,
			"stream_classes":              agg.Classes,
			"tcp_streams":                 tcpStreams,
			"cluster_streams":             clStreams,
			"cluster_commands_round_trip": clCmds,
			"tcp_commands_round_trip":     tcpCmds,
			"tcp_note":                    tcpNote,
			"signatures":                  len(sigs),
			"known_finding_hits":          knownHits,
			"violation_samples":           vs,
		},
		Assumptions: []string{"well-formed top-level values that are not arrays of bulk strings (inline text, +x, :1, lone bulk, *0, *-1, nested arrays) are an open corner: only crash-freedom and termination are demanded for streams containing them",
			"length fields written as +N, -0 or with leading zeros are unspecified"}}
	if inconclusive != "" {
		ev.Coverage["inconclusive"] = inconclusive
	}
	_ = evidence.Write(o.Evidence, ev)
	fmt.Printf("%s %s seed=%d: %d streams, %d parses (%d+%d judged), %d TCP streams / %d commands, %d streams / %d commands through a one-node cluster, %d signatures (%d unmatched), %.1fs %s\n",
		prop, o.Tier, o.Seed, agg.Streams, agg.Parses, agg.PureOK, agg.ViolOK, tcpStreams, tcpCmds, clStreams, clCmds, len(sigs), violations, o.Elapsed(), tcpNote)
	if violations > 0 {
		o.Cleanup()
		os.Exit(common.ExitViolation)
	}
	if inconclusive != "" || tcpNote != "" || agg.PureOK < 1000 || agg.ViolOK < 100 {
		common.Inconclusive(prop, inconclusive+" "+tcpNote)
		o.Cleanup()
		os.Exit(common.ExitInconclusive)
	}
}
