//go:build verif

package main

import (
	"fmt"
	"math/rand"
	"path/filepath"
	"sort"
	"strings"
	"sync"
	"time"

	"github.com/anishathalye/porcupine"

	"rgverif/internal/common"
	"rgverif/internal/procs"
	"rgverif/internal/respc"
	"rgverif/internal/seqrun"
)

// tcpOut is what the TCP phase observed.
type tcpOut struct {
	Histories, Ops, Decided, Unknown, Overlapping, Pipelined int
	Races, RacesFirstParty                                   int
	OpKinds                                                  map[string]int
	Note                                                     string
	Wits                                                     []witness
}

// tcpPhaseC05 drives the same single-key histories through real connections of the race-built server: parser
// goroutine, connection handler, reply writer and executors all run under the race detector, several connections
// at once on colliding keys. Histories are recorded at the client boundary (call before the write, return after
// the reply is decoded) and judged by porcupine against the reference model; some clients pipeline short bursts
// (every command of a burst is called when the burst is written). At quiescence the structural self-check, the
// stripe sweep and KEYS-versus-data run through the verif commands; at the end the race log is read.
func tcpPhaseC05(o *common.Opts, nHist int) (out tcpOut) {
	out.OpKinds = map[string]int{}
	race := procs.Bin(true) != ""
	if !race && procs.Bin(false) == "" {
		out.Note = "server binary not available"
		return
	}
	r := rand.New(rand.NewSource(o.Seed*7 + 12345))
	seen := map[string]bool{}
	report := func(w witness) {
		if !seen[w.Sig] {
			seen[w.Sig] = true
			out.Wits = append(out.Wits, w)
		}
	}
	for _, shards := range []int{1, 4} {
		var srv *procs.Server
		var err error
		for try := 0; try < 5; try++ {
			srv, err = procs.Start(procs.Opts{Dir: filepath.Join(o.Work, fmt.Sprintf("tcp-%d-%d", shards, try)), Port: procs.FreePorts(1)[0], ShardNum: shards, Databases: 1, Race: race})
			if err == nil {
				break
			}
		}
		if err != nil {
			out.Note = "server start failed: " + err.Error()
			return
		}
		start := time.Now()
		ctl, err := respc.Dial(srv.Addr, 20*time.Second)
		if err != nil {
			srv.Kill()
			out.Note = "dial failed"
			return
		}
		for h := 0; h < nHist/2; h++ {
			classes := []string{"same-stripe", "same-shard-other-stripe", "independent"}
			class := classes[r.Intn(len(classes))]
			nKeys := 1 + r.Intn(3)
			keys := pickKeys(r, shards, nKeys, class)
			fams := make([]string, nKeys)
			for i := range fams {
				fams[i] = families[r.Intn(len(families))]
				_, _ = ctl.Do("DEL", keys[i])
			}
			nClients := 2 + r.Intn(7)
			perClient := 10 + r.Intn(20)
			var mu sync.Mutex
			var ops []porcupine.Operation
			var wg sync.WaitGroup
			failed := ""
			seeds := make([]int64, nClients)
			for i := range seeds {
				seeds[i] = r.Int63()
			}
			stop := make(chan struct{})
			var bg sync.WaitGroup
			bg.Add(1)
			go func() { // churn on other keys and KEYS on its own connection
				defer bg.Done()
				c, err := respc.Dial(srv.Addr, 20*time.Second)
				if err != nil {
					return
				}
				defer c.Close()
				for i := 0; ; i++ {
					select {
					case <-stop:
						return
					default:
					}
					k := fmt.Sprintf("tmp%d", i%5)
					if _, err := c.Do("SET", k, "x"); err != nil {
						return
					}
					_, _ = c.Do("KEYS", "*")
					_, _ = c.Do("DEL", k)
				}
			}()
			for ci := 0; ci < nClients; ci++ {
				wg.Add(1)
				go func(ci int) {
					defer wg.Done()
					cr := rand.New(rand.NewSource(seeds[ci]))
					c, err := respc.Dial(srv.Addr, 20*time.Second)
					if err != nil {
						mu.Lock()
						failed = "cannot connect: " + err.Error()
						mu.Unlock()
						return
					}
					defer c.Close()
					pipeliner := cr.Intn(3) == 0
					for i := 0; i < perClient; {
						burst := 1
						if pipeliner {
							burst = 1 + cr.Intn(4)
						}
						var cmds [][][]byte
						var ks []string
						var raw []byte
						for b := 0; b < burst && i < perClient; b++ {
							ki := cr.Intn(nKeys)
							cmd := genOp(cr, fams[ki], keys[ki], fmt.Sprintf("t%d-%d", ci, i))
							cmds = append(cmds, cmd)
							ks = append(ks, keys[ki])
							raw = append(raw, respc.EncodeCommand(cmd)...)
							i++
						}
						call := time.Since(start).Nanoseconds()
						if err := c.SendRaw(raw); err != nil {
							mu.Lock()
							failed = "write failed: " + err.Error()
							mu.Unlock()
							return
						}
						for b, cmd := range cmds {
							v, err := c.Recv()
							ret := time.Since(start).Nanoseconds()
							if err != nil {
								mu.Lock()
								failed = fmt.Sprintf("no reply to %s: %v", cmdStr(cmd), err)
								mu.Unlock()
								return
							}
							mu.Lock()
							ops = append(ops, porcupine.Operation{ClientId: ci, Input: opIn{Cmd: cmd, Key: ks[b]}, Call: call, Output: v, Return: ret})
							if len(cmds) > 1 {
								out.Pipelined++
							}
							mu.Unlock()
						}
					}
				}(ci)
			}
			wg.Wait()
			close(stop)
			bg.Wait()
			if srv.Exited() {
				report(witness{Kind: "crash", Detail: "the server process died under concurrent connections: " + srv.CrashBlock(24), Sig: "tcp-crash|" + seqrun.Generalise(srv.CrashLine())})
				break
			}
			if failed != "" {
				report(witness{Kind: "tcp", Detail: "a client connection failed although the server is alive: " + failed, Sig: "tcp-conn|" + seqrun.Generalise(failed)})
				break
			}
			out.Histories++
			out.Ops += len(ops)
			for _, op := range ops {
				out.OpKinds[strings.ToUpper(string(op.Input.(opIn).Cmd[0]))]++
			}
			// quiescence: structure, stripes, KEYS against the data
			if v, err := ctl.Do("verif.stripes"); err == nil && v.Kind == ':' && v.Int != 0 {
				time.Sleep(300 * time.Millisecond)
				if v, err = ctl.Do("verif.stripes"); err == nil && v.Kind == ':' && v.Int != 0 {
					report(witness{Kind: "wedge", Detail: fmt.Sprintf("%d stripes still held at quiescence (TCP)", v.Int), Sig: "wedge|tcp"})
				}
			}
			if v, err := ctl.Do("verif.check"); err == nil && v.Kind == '$' && string(v.Str) != "[]" && string(v.Str) != "null" {
				report(witness{Kind: "bookkeeping", Detail: "structural self-check at quiescence (TCP): " + string(v.Str), Sig: "bookkeeping|tcp|" + seqrun.Generalise(string(v.Str))})
			}
			_, ov := interleavingSig(append([]porcupine.Operation{}, ops...))
			if ov {
				out.Overlapping++
			}
			res, _ := porcupine.CheckOperationsVerbose(pModel(true), ops, 30*time.Second)
			switch res {
			case porcupine.Ok:
				out.Decided++
			case porcupine.Unknown:
				out.Unknown++
			case porcupine.Illegal:
				out.Decided++
				by := map[string][]porcupine.Operation{}
				for _, op := range ops {
					k := op.Input.(opIn).Key
					by[k] = append(by[k], op)
				}
				for k, part := range by {
					if porcupine.CheckOperations(pModel(false), part) {
						continue
					}
					names := map[string]bool{}
					for _, op := range part {
						names[strings.ToUpper(string(op.Input.(opIn).Cmd[0]))] = true
					}
					var ns []string
					for n := range names {
						ns = append(ns, n)
					}
					sort.Strings(ns)
					short := shortestIllegalPrefix(part)
					report(witness{Kind: "not-linearizable", Detail: fmt.Sprintf("TCP: key %q (%d ops, %d connections, ShardNum %d, class %s): no sequential order respecting real time explains the replies; shortest illegal prefix in time has %d ops (pending ones with their replies withheld)", k, len(part), nClients, shards, class, len(short)),
						History: historyText(short), Full: fullHistory(part), Sig: "not-linearizable|tcp|" + strings.Join(ns, ",")})
					break
				}
			}
		}
		ctl.Close()
		if !srv.Exited() {
			srv.Signal(15)
			srv.WaitExit(3 * time.Second)
		}
		srv.Kill()
		if race {
			n, sample := srv.RaceReports()
			out.Races += n
			if n > 0 && strings.Contains(sample, "innovationb1ue/RedisGO/") {
				out.RacesFirstParty++
				for _, blk := range strings.Split(sample, "==================") {
					if strings.Contains(blk, "WARNING: DATA RACE") && strings.Contains(blk, "innovationb1ue/RedisGO/") {
						if len(blk) > 5000 {
							blk = blk[:5000]
						}
						report(witness{Kind: "data-race", Detail: "server process (race build) under concurrent connections:\n" + blk, Sig: "race|tcp|" + raceSig(blk)})
					}
				}
			}
		}
	}
	return
}
