//go:build verif

// Command conc decides C05 (linearizable single-key operations under
// concurrency) and C13 (multi-key commands are deadlock-free and atomic).
// Worker processes (built with -race) run many short concurrent histories
// in-process through Manager.ExecCommand, with schedule perturbation at the
// verif yield points, and judge them with: porcupine against the reference
// model (per key for C05, jointly over a key group for C13), conservation
// counters and bookkeeping checks at quiescence, a lockdep-style monitor over
// the stripe lock events (re-entrancy, order cycles), a per-command watchdog,
// and the race detector's reports.
package main

import (
	"encoding/hex"
	"encoding/json"
	"flag"
	"fmt"
	"hash/fnv"
	"math/rand"
	"os"
	"path/filepath"
	"runtime"
	"sort"
	"strconv"
	"strings"
	"sync"
	"sync/atomic"
	"time"

	"github.com/anishathalye/porcupine"
	"github.com/innovationb1ue/RedisGO/memdb"
	"github.com/innovationb1ue/RedisGO/util"

	"rgverif/internal/common"
	"rgverif/internal/evidence"
	"rgverif/internal/findings"
	"rgverif/internal/inproc"
	"rgverif/internal/model"
	"rgverif/internal/respc"
	"rgverif/internal/seqrun"
	"rgverif/internal/super"
)

var (
	fProp    = flag.String("prop", "C05", "C05 or C13")
	fWorker  = flag.Bool("worker", false, "run as batch worker")
	fBatch   = flag.Int("batch", 0, "batch index")
	fOut     = flag.String("out", "", "worker result file")
	fJournal = flag.String("journal", "", "worker journal file")
	fShards  = flag.Int("shards", 2, "ShardNum of this worker process")
	fHist    = flag.Int("histories", 40, "histories of this worker")
	fProcs   = flag.Int("gomaxprocs", 0, "GOMAXPROCS of this worker")
)

// ---- schedule perturbation --------------------------------------------------

var yieldState uint64 = 88172645463325252

func yieldHook(site string) {
	x := atomic.AddUint64(&yieldState, 0x9E3779B97F4A7C15)
	x ^= x >> 31
	switch x % 16 {
	case 0, 1, 2, 3:
		runtime.Gosched()
	case 4:
		time.Sleep(time.Duration(1+x%40) * time.Microsecond)
	}
}

// ---- lock monitor (C13) -----------------------------------------------------

type lockMon struct {
	mu       sync.Mutex
	held     map[uint64][]int // goroutine -> stripes held (with multiplicity)
	edges    map[[2]int]string
	reentry  []string
	events   int64
	maxHeld  int
	journal  *os.File
	disabled bool
}

func goid() uint64 {
	var b [40]byte
	n := runtime.Stack(b[:], false)
	s := string(b[:n])
	s = strings.TrimPrefix(s, "goroutine ")
	if i := strings.IndexByte(s, ' '); i > 0 {
		id, _ := strconv.ParseUint(s[:i], 10, 64)
		return id
	}
	return 0
}

var curCmd sync.Map // goroutine id -> command text (for diagnostics)

func (lm *lockMon) hook(kind string, stripe int) {
	if lm.disabled {
		return
	}
	if kind == "lock-begin" || kind == "rlock-begin" {
		yieldHook("lock")
	}
	g := goid()
	lm.mu.Lock()
	defer lm.mu.Unlock()
	lm.events++
	switch kind {
	case "lock-begin", "rlock-begin":
		hs := lm.held[g]
		for _, h := range hs {
			if h == stripe {
				c, _ := curCmd.Load(g)
				msg := fmt.Sprintf("goroutine %d requests stripe %d (%s) while already holding it; command %v", g, stripe, kind, c)
				lm.reentry = append(lm.reentry, msg)
				if lm.journal != nil {
					// written before the goroutine goes on to block for ever
					fmt.Fprintf(lm.journal, "REENTRY %s\n", msg)
				}
			} else {
				e := [2]int{h, stripe}
				if _, ok := lm.edges[e]; !ok {
					c, _ := curCmd.Load(g)
					lm.edges[e] = fmt.Sprint(c)
				}
			}
		}
	case "lock-end", "rlock-end":
		lm.held[g] = append(lm.held[g], stripe)
		if len(lm.held[g]) > lm.maxHeld {
			lm.maxHeld = len(lm.held[g])
		}
	case "unlock", "runlock":
		hs := lm.held[g]
		for i := len(hs) - 1; i >= 0; i-- {
			if hs[i] == stripe {
				hs = append(hs[:i], hs[i+1:]...)
				break
			}
		}
		if len(hs) == 0 {
			delete(lm.held, g)
		} else {
			lm.held[g] = hs
		}
	}
}

// cycle returns a cycle in the stripe-order graph, or nil.
func (lm *lockMon) cycle() []string {
	adj := map[int][]int{}
	for e := range lm.edges {
		adj[e[0]] = append(adj[e[0]], e[1])
	}
	color := map[int]int{}
	var stack []int
	var found []int
	var dfs func(u int) bool
	dfs = func(u int) bool {
		color[u] = 1
		stack = append(stack, u)
		for _, v := range adj[u] {
			if color[v] == 1 {
				for i, s := range stack {
					if s == v {
						found = append(append([]int{}, stack[i:]...), v)
						return true
					}
				}
			}
			if color[v] == 0 && dfs(v) {
				return true
			}
		}
		color[u] = 2
		stack = stack[:len(stack)-1]
		return false
	}
	nodes := make([]int, 0, len(adj))
	for u := range adj {
		nodes = append(nodes, u)
	}
	sort.Ints(nodes)
	for _, u := range nodes {
		if color[u] == 0 && dfs(u) {
			var out []string
			for i := 0; i+1 < len(found); i++ {
				out = append(out, fmt.Sprintf("%d->%d by %s", found[i], found[i+1], lm.edges[[2]int{found[i], found[i+1]}]))
			}
			return out
		}
	}
	return nil
}

// ---- histories ---------------------------------------------------------------

type opIn struct {
	Cmd [][]byte
	Key string
	// Unknown: the reply is not part of the history (an operation still pending at the cut of a prefix); it may take
	// effect at any point after its call, with whatever reply
	Unknown bool
}

type witness struct {
	Kind    string     `json:"kind"`
	Detail  string     `json:"detail"`
	History [][]string `json:"history,omitempty"`
	// Full is the whole recorded history of the offending key in a re-loadable form:
	// client, call ns, return ns, hex(RESP reply), then the Go-quoted arguments (conc -explain <file> re-judges it)
	Full [][]string `json:"full,omitempty"`
	Sig  string     `json:"sig"`
}

func fullHistory(ops []porcupine.Operation) [][]string {
	var out [][]string
	for _, op := range ops {
		in := op.Input.(opIn)
		row := []string{strconv.Itoa(op.ClientId), strconv.FormatInt(op.Call, 10), strconv.FormatInt(op.Return, 10), hex.EncodeToString(op.Output.(respc.Value).Encode()), in.Key}
		out = append(out, append(row, seqrun.QuoteFull(in.Cmd)...))
	}
	return out
}

// explain re-judges a stored witness.
func explain(path string) {
	b, err := os.ReadFile(path)
	if err != nil {
		fmt.Println(err)
		return
	}
	var w witness
	if json.Unmarshal(b, &w) != nil || len(w.Full) == 0 {
		fmt.Println("no full history in", path)
		return
	}
	var ops []porcupine.Operation
	for _, row := range w.Full {
		ci, _ := strconv.Atoi(row[0])
		call, _ := strconv.ParseInt(row[1], 10, 64)
		ret, _ := strconv.ParseInt(row[2], 10, 64)
		raw, _ := hex.DecodeString(row[3])
		vals, _, _ := respc.DecodeAll(raw)
		cmd, err := seqrun.Unquote(row[5:])
		if err != nil || len(vals) != 1 {
			fmt.Println("unreadable row", row)
			return
		}
		ops = append(ops, porcupine.Operation{ClientId: ci, Input: opIn{Cmd: cmd, Key: row[4]}, Call: call, Output: vals[0], Return: ret})
	}
	joint := false
	keys := map[string]bool{}
	for _, op := range ops {
		keys[op.Input.(opIn).Key] = true
	}
	joint = len(keys) > 1
	res, _ := porcupine.CheckOperationsVerbose(pModel(false), append([]porcupine.Operation{}, ops...), 5*time.Minute)
	fmt.Printf("%d operations, joint=%v: porcupine says %v\n", len(ops), joint, res)
	if res == porcupine.Illegal {
		short := shortestIllegalPrefix(ops)
		fmt.Printf("shortest illegal prefix in time: %d operations\n", len(short))
		for _, h := range historyText(short) {
			fmt.Println("  ", strings.Join(h, " "))
		}
	}
}

type workerOut struct {
	Histories   int            `json:"histories"`
	Ops         int            `json:"ops"`
	Decided     int            `json:"decided"`     // porcupine partitions/histories with a verdict
	Unknown     int            `json:"unknown"`     // porcupine timeouts
	Overlapping int            `json:"overlapping"` // histories with >=1 overlapping read-modify-write pair on one key
	Signatures  map[string]int `json:"signatures"`  // distinct interleaving signatures (hash -> count), capped
	Classes     map[string]int `json:"classes"`     // collision classes used
	Conserv     int            `json:"conservation_checks"`
	LockEvents  int64          `json:"lock_events"`
	LockEdges   int            `json:"lock_edges"`
	MaxHeld     int            `json:"max_held"`
	Wits        []witness      `json:"wits"`
	OpKinds     map[string]int `json:"op_kinds"`
	// keys hammered while their (single) deadline passed
	ExpiryStorms  int `json:"expiry_storms"`
	CrossedStorms int `json:"crossed_storms"`
	ExpiryRounds  int `json:"expiry_rounds"`
	ExpirySkipped int `json:"expiry_rounds_skipped_slow_setup"`
	ExpiryKeys    int `json:"expiry_keys"`
	ExpiryCrossed int `json:"expiry_keys_with_replies_on_both_sides"`
}

func cmdStr(c [][]byte) string { return strings.Join(seqrun.QuoteFull(c), " ") }

// pickKeys returns n key names of a collision class for the given ShardNum.
func pickKeys(r *rand.Rand, shards, n int, class string) []string {
	stripes := 2 * shards
	base := r.Intn(1 << 20)
	var out []string
	var first string
	for i := 0; len(out) < n && i < 200000; i++ {
		k := fmt.Sprintf("k%d", base+i)
		if first == "" {
			first = k
			out = append(out, k)
			continue
		}
		h0, h := util.HashKey(first), util.HashKey(k)
		sameStripe := h0%stripes == h%stripes
		sameShard := h0%shards == h%shards
		switch class {
		case "same-stripe":
			if sameStripe {
				out = append(out, k)
			}
		case "same-shard-other-stripe":
			if sameShard && !sameStripe {
				out = append(out, k)
			}
		default:
			if !sameShard && !sameStripe {
				out = append(out, k)
			} else if shards == 1 && !sameStripe {
				out = append(out, k)
			}
		}
	}
	for len(out) < n {
		out = append(out, fmt.Sprintf("k%d", base+len(out)+300000))
	}
	return out
}

var families = []string{"string", "counter", "list", "set", "hash", "zset", "string+", "counter+", "list+", "set+", "hash+", "zset+", "stream"}

// genOp returns one single-key command of the key's family with unique written values.
func genOp(r *rand.Rand, fam, key, uniq string) [][]byte {
	c := respc.Cmd
	switch fam {
	case "string":
		switch r.Intn(9) {
		case 0, 1:
			return c("SET", key, uniq)
		case 2, 3:
			return c("GET", key)
		case 4:
			return c("SETNX", key, uniq)
		case 5:
			return c("APPEND", key, uniq)
		case 6:
			return c("STRLEN", key)
		case 7:
			return c("DEL", key)
		}
		return c("EXISTS", key)
	case "counter":
		switch r.Intn(7) {
		case 0, 1, 2:
			return c("INCR", key)
		case 3:
			return c("DECR", key)
		case 4:
			return c("INCRBY", key, strconv.Itoa(1+r.Intn(5)))
		case 5:
			return c("GET", key)
		}
		return c("EXISTS", key)
	case "list":
		switch r.Intn(9) {
		case 0, 1:
			return c("LPUSH", key, uniq)
		case 2, 3:
			return c("RPUSH", key, uniq)
		case 4:
			return c("LPOP", key)
		case 5:
			return c("RPOP", key)
		case 6:
			return c("LLEN", key)
		case 7:
			return c("LRANGE", key, "0", "-1")
		}
		return c("LINDEX", key, strconv.Itoa(r.Intn(3)-1))
	case "set":
		m := "m" + strconv.Itoa(r.Intn(4))
		switch r.Intn(8) {
		case 0, 1:
			return c("SADD", key, m)
		case 2:
			return c("SREM", key, m)
		case 3:
			return c("SISMEMBER", key, m)
		case 4:
			return c("SCARD", key)
		case 5:
			return c("SMEMBERS", key)
		case 6:
			return c("SPOP", key)
		}
		return c("EXISTS", key)
	case "hash":
		f := "f" + strconv.Itoa(r.Intn(3))
		switch r.Intn(8) {
		case 0, 1:
			return c("HSET", key, f, uniq)
		case 2:
			return c("HGET", key, f)
		case 3:
			return c("HDEL", key, f)
		case 4:
			return c("HINCRBY", key, "n", strconv.Itoa(1+r.Intn(3)))
		case 5:
			return c("HLEN", key)
		case 6:
			return c("HSETNX", key, f, uniq)
		}
		return c("HGETALL", key)
	case "zset":
		m := "m" + strconv.Itoa(r.Intn(4))
		switch r.Intn(6) {
		case 0, 1:
			return c("ZADD", key, strconv.Itoa(r.Intn(5)), m)
		case 2:
			return c("ZREM", key, m)
		case 3:
			return c("ZRANGE", key, "0", "-1", "WITHSCORES")
		case 4:
			return c("ZRANK", key, m)
		}
		return c("ZADD", key, "INCR", "1", m)
	case "string+":
		// the wider string surface: range writes/reads, conditional SETs, the array-replying MGET, TYPE and the
		// deadline commands with far-away deadlines (their replies do not depend on the clock)
		switch r.Intn(14) {
		case 0:
			return c("SETRANGE", key, strconv.Itoa(r.Intn(7)), uniq)
		case 1:
			return c("GETRANGE", key, strconv.Itoa(r.Intn(5)-2), strconv.Itoa(r.Intn(9)-3))
		case 2:
			return c("SET", key, uniq, "NX")
		case 3:
			return c("SET", key, uniq, "XX")
		case 4:
			return c("SET", key, uniq, "GET")
		case 5:
			return c("MGET", key)
		case 6:
			return c("TYPE", key)
		case 7:
			// every deadline of a history is at a distance of its own (>= 1000 s apart): GT/LT then compare the same
			// way on the frozen clock of the model and on the real clock, whatever second boundary the history crosses
			return c("EXPIRE", key, farTTL(uniq), []string{"NX", "XX", "GT", "LT"}[r.Intn(4)])
		case 8:
			return c("PERSIST", key)
		case 9:
			return c("SETEX", key, farTTL(uniq), uniq)
		case 10:
			return c("SET", key, uniq, "KEEPTTL")
		case 11:
			return c("APPEND", key, uniq)
		case 12:
			return c("DEL", key)
		}
		return c("GET", key)
	case "counter+":
		switch r.Intn(8) {
		case 0, 1:
			return c("INCRBYFLOAT", key, []string{"0.5", "1.25", "-0.75", "2"}[r.Intn(4)])
		case 2:
			return c("DECRBY", key, strconv.Itoa(1+r.Intn(5)))
		case 3:
			return c("INCRBY", key, strconv.Itoa(r.Intn(9)-4))
		case 4:
			return c("SETNX", key, strconv.Itoa(r.Intn(100)))
		case 5:
			return c("GET", key)
		case 6:
			return c("STRLEN", key)
		}
		return c("DEL", key)
	case "list+":
		switch r.Intn(14) {
		case 0:
			return c("LPUSH", key, uniq, uniq+"b")
		case 1:
			return c("RPUSH", key, uniq, "dup")
		case 2:
			return c("LPUSHX", key, uniq)
		case 3:
			return c("RPUSHX", key, uniq)
		case 4:
			return c("LPOP", key, strconv.Itoa(r.Intn(3)))
		case 5:
			return c("RPOP", key, strconv.Itoa(1+r.Intn(2)))
		case 6:
			return c("LSET", key, strconv.Itoa(r.Intn(5)-2), uniq)
		case 7:
			return c("LREM", key, strconv.Itoa(r.Intn(3)-1), "dup")
		case 8:
			return c("LTRIM", key, strconv.Itoa(r.Intn(3)-1), strconv.Itoa(r.Intn(6)-2))
		case 9:
			return c("LPOS", key, "dup")
		case 10:
			return c("LRANGE", key, strconv.Itoa(r.Intn(5)-2), strconv.Itoa(r.Intn(7)-3))
		case 11:
			return c("LMOVE", key, key, []string{"LEFT", "RIGHT"}[r.Intn(2)], []string{"LEFT", "RIGHT"}[r.Intn(2)])
		case 12:
			return c("LLEN", key)
		}
		return c("LINDEX", key, strconv.Itoa(r.Intn(5)-2))
	case "set+":
		m := "m" + strconv.Itoa(r.Intn(5))
		switch r.Intn(10) {
		case 0:
			return c("SADD", key, m, "m"+strconv.Itoa(r.Intn(5)), uniq)
		case 1:
			return c("SREM", key, m, "m"+strconv.Itoa(r.Intn(5)))
		case 2:
			return c("SPOP", key, strconv.Itoa(r.Intn(3)))
		case 3:
			return c("SRANDMEMBER", key)
		case 4:
			return c("SRANDMEMBER", key, strconv.Itoa(r.Intn(7)-3))
		case 5:
			return c("SMOVE", key, key, m)
		case 6:
			return c("SUNION", key)
		case 7:
			return c("SINTER", key, key)
		case 8:
			return c("SDIFF", key)
		}
		return c("SCARD", key)
	case "hash+":
		f := "f" + strconv.Itoa(r.Intn(3))
		switch r.Intn(12) {
		case 0:
			return c("HSET", key, f, uniq, "f"+strconv.Itoa(r.Intn(3)), uniq+"b")
		case 1:
			return c("HMGET", key, "f0", "f1", "f2", "n")
		case 2:
			return c("HKEYS", key)
		case 3:
			return c("HVALS", key)
		case 4:
			return c("HEXISTS", key, f)
		case 5:
			return c("HSTRLEN", key, f)
		case 6:
			return c("HINCRBYFLOAT", key, "x", []string{"0.5", "1.25", "-0.75"}[r.Intn(3)])
		case 7:
			return c("HRANDFIELD", key)
		case 8:
			return c("HRANDFIELD", key, strconv.Itoa(r.Intn(7)-3), "WITHVALUES")
		case 9:
			return c("HDEL", key, "f0", "f1", "f2", "n", "x")
		case 10:
			return c("HSET", key, f, "")
		}
		return c("HINCRBY", key, "n", strconv.Itoa(r.Intn(7)-3))
	case "zset+":
		m := "m" + strconv.Itoa(r.Intn(5))
		sc := []string{"0", "1", "1", "2", "-1.5", "2.25", "inf", "-inf"}[r.Intn(8)]
		switch r.Intn(11) {
		case 0:
			return c("ZADD", key, []string{"NX", "XX", "GT", "LT"}[r.Intn(4)], sc, m)
		case 1:
			return c("ZADD", key, "CH", sc, m, "1", "m"+strconv.Itoa(r.Intn(5)))
		case 2:
			return c("ZADD", key, []string{"GT", "LT"}[r.Intn(2)], "CH", sc, m)
		case 3:
			return c("ZADD", key, "XX", "INCR", []string{"1", "-1", "0.5"}[r.Intn(3)], m)
		case 4:
			return c("ZREM", key, m, "m"+strconv.Itoa(r.Intn(5)))
		case 5:
			return c("ZRANGE", key, strconv.Itoa(r.Intn(5)-2), strconv.Itoa(r.Intn(7)-3), "REV", "WITHSCORES")
		case 6:
			return c("ZRANGE", key, "0", "-1")
		case 7:
			return c("ZRANK", key, m)
		case 8:
			return c("ZADD", key, sc, m, sc, "m"+strconv.Itoa(r.Intn(5)))
		case 9:
			return c("TYPE", key)
		}
		return c("ZRANGE", key, "0", "-1", "WITHSCORES")
	case "stream":
		// explicit and ms-* ids only (an id chosen from the clock is judged in C18, not by a sequential model)
		ms := strconv.Itoa(1 + r.Intn(6))
		switch r.Intn(8) {
		case 0, 1:
			return c("XADD", key, ms+"-"+strconv.Itoa(r.Intn(4)), "f", uniq)
		case 2, 3:
			return c("XADD", key, ms+"-*", "f", uniq)
		case 4:
			return c("XADD", key, "NOMKSTREAM", ms+"-*", "f", uniq)
		case 5:
			return c("XADD", key, "MAXLEN", strconv.Itoa(1+r.Intn(3)), ms+"-*", "f", uniq)
		case 6:
			return c("XRANGE", key, "-", "+")
		}
		return c("XRANGE", key, strconv.Itoa(r.Intn(4)), strconv.Itoa(2+r.Intn(5)))
	}
	return c("GET", key)
}

// farTTL derives a far-away time to live from the operation's unique tag ("c3-15" -> client 3, operation 15).
func farTTL(uniq string) string {
	var ci, i int
	if _, err := fmt.Sscanf(uniq[1:], "%d-%d", &ci, &i); err != nil {
		return "1000000"
	}
	return strconv.Itoa(1000000 + 1000*(ci*1000+i))
}

func isRMW(name string) bool {
	switch name {
	case "GET", "STRLEN", "EXISTS", "LLEN", "LRANGE", "LINDEX", "SISMEMBER", "SCARD", "SMEMBERS", "HGET", "HLEN", "HGETALL", "ZRANGE", "ZRANK",
		"GETRANGE", "MGET", "TYPE", "LPOS", "SRANDMEMBER", "SUNION", "SINTER", "SDIFF", "HMGET", "HKEYS", "HVALS", "HEXISTS", "HSTRLEN", "HRANDFIELD", "XRANGE":
		return false
	}
	return true
}

func pModel(partition bool) porcupine.Model {
	m := porcupine.Model{
		Init: func() interface{} { return model.NewPState() },
		Step: func(state, input, output interface{}) (bool, interface{}) {
			st := state.(model.PState)
			in := input.(opIn)
			if in.Unknown {
				return true, st.ApplyUnknown(in.Cmd)
			}
			ok, next, _ := st.Apply(in.Cmd, output.(respc.Value))
			return ok, next
		},
		Equal: func(a, b interface{}) bool { return a.(model.PState).Repr == b.(model.PState).Repr },
		DescribeOperation: func(input, output interface{}) string {
			return cmdStr(input.(opIn).Cmd) + " -> " + output.(respc.Value).String()
		},
		DescribeState: func(s interface{}) string { return s.(model.PState).Repr },
	}
	if partition {
		m.Partition = func(h []porcupine.Operation) [][]porcupine.Operation {
			by := map[string][]porcupine.Operation{}
			var keys []string
			for _, op := range h {
				k := op.Input.(opIn).Key
				if _, ok := by[k]; !ok {
					keys = append(keys, k)
				}
				by[k] = append(by[k], op)
			}
			sort.Strings(keys)
			var out [][]porcupine.Operation
			for _, k := range keys {
				out = append(out, by[k])
			}
			return out
		}
	}
	return m
}

// shortestIllegalPrefix returns the shortest prefix in time of an illegal history that is itself illegal: the operations
// that had returned by the cut with their replies, plus the operations pending at the cut with their replies withheld
// (they may take effect at any later point). Such a prefix is a witness in its own right, and its last completed
// operation carries the first reply that cannot be explained. Only for histories of deterministic commands.
func shortestIllegalPrefix(part []porcupine.Operation) []porcupine.Operation {
	ops := append([]porcupine.Operation{}, part...)
	for _, op := range ops {
		switch strings.ToUpper(string(op.Input.(opIn).Cmd[0])) {
		case "SPOP", "SRANDMEMBER", "HRANDFIELD":
			return ops
		}
	}
	sort.Slice(ops, func(i, j int) bool { return ops[i].Return < ops[j].Return })
	var maxT int64
	for _, op := range ops {
		if op.Return > maxT {
			maxT = op.Return
		}
	}
	prefix := func(n int) []porcupine.Operation { // the first n operations by return time are complete
		cut := ops[n-1].Return
		var out []porcupine.Operation
		out = append(out, ops[:n]...)
		for _, op := range ops[n:] {
			if op.Call < cut {
				in := op.Input.(opIn)
				in.Unknown = true
				out = append(out, porcupine.Operation{ClientId: op.ClientId, Input: in, Call: op.Call, Output: respc.Value{}, Return: maxT + 1})
			}
		}
		return out
	}
	lo, hi := 1, len(ops)
	for lo < hi {
		mid := (lo + hi) / 2
		if porcupine.CheckOperations(pModel(false), prefix(mid)) {
			lo = mid + 1
		} else {
			hi = mid
		}
	}
	return prefix(lo)
}

func historyText(ops []porcupine.Operation) [][]string {
	sort.Slice(ops, func(i, j int) bool { return ops[i].Call < ops[j].Call })
	var out [][]string
	for _, op := range ops {
		if op.Input.(opIn).Unknown {
			out = append(out, []string{fmt.Sprintf("c%d", op.ClientId), fmt.Sprintf("[%d,pending at the cut]", op.Call), cmdStr(op.Input.(opIn).Cmd), "(reply withheld)"})
			continue
		}
		out = append(out, []string{fmt.Sprintf("c%d", op.ClientId), fmt.Sprintf("[%d,%d]", op.Call, op.Return), cmdStr(op.Input.(opIn).Cmd), op.Output.(respc.Value).String()})
	}
	return out
}

func interleavingSig(ops []porcupine.Operation) (sig string, overlapRMW bool) {
	sort.Slice(ops, func(i, j int) bool { return ops[i].Call < ops[j].Call })
	h := fnv.New64a()
	lastRet := map[string]int64{}
	lastRMW := map[string]bool{}
	for _, op := range ops {
		in := op.Input.(opIn)
		name := strings.ToUpper(string(in.Cmd[0]))
		fmt.Fprintf(h, "%s|%d|%s;", in.Key, op.ClientId, name)
		if op.Call < lastRet[in.Key] {
			fmt.Fprintf(h, "ov;")
			if isRMW(name) && lastRMW[in.Key] {
				overlapRMW = true
			}
		}
		if op.Return > lastRet[in.Key] {
			lastRet[in.Key] = op.Return
			lastRMW[in.Key] = isRMW(name)
		}
	}
	return strconv.FormatUint(h.Sum64(), 16), overlapRMW
}

type runner struct {
	out   *workerOut
	seen  map[string]bool
	j     *os.File
	start time.Time
	lm    *lockMon
}

var reportMu sync.Mutex

func (rn *runner) report(w witness) {
	reportMu.Lock()
	defer reportMu.Unlock()
	if rn.seen[w.Sig] {
		return
	}
	rn.seen[w.Sig] = true
	rn.out.Wits = append(rn.out.Wits, w)
}

// exec runs one command with a watchdog; a command that does not return is a hang witness and ends the process.
func (rn *runner) exec(in *inproc.Inst, cmd [][]byte) (respc.Value, int64, int64, bool) {
	g := goid()
	curCmd.Store(g, cmdStr(cmd))
	call := time.Since(rn.start).Nanoseconds()
	res := in.Exec(cmd, nil)
	ret := time.Since(rn.start).Nanoseconds()
	curCmd.Delete(g)
	if res.Panic != "" {
		rn.report(witness{Kind: "panic", Detail: cmdStr(cmd) + ": " + res.Panic, Sig: "panic|" + strings.ToUpper(string(cmd[0])) + "|" + firstLine(res.Panic)})
		return res.V, call, ret, false
	}
	return res.V, call, ret, true
}

func firstLine(s string) string {
	if i := strings.IndexByte(s, '\n'); i > 0 {
		return s[:i]
	}
	return s
}

// quiesce checks the bookkeeping once every client has stopped.
func (rn *runner) quiesce(in *inproc.Inst, label string) {
	rn.out.Conserv++
	if held := in.Held(); len(held) > 0 {
		rn.report(witness{Kind: "wedge", Detail: fmt.Sprintf("%s: stripes %v still held at quiescence", label, held), Sig: "wedge|" + label})
	}
	if bad := in.Check(); len(bad) > 0 {
		rn.report(witness{Kind: "bookkeeping", Detail: label + ": " + strings.Join(bad, "; "), Sig: "bookkeeping|" + seqrun.Generalise(bad[0])})
	}
	dump := in.Dump()
	res := in.Exec(respc.Cmd("KEYS", "*"), nil)
	if res.Panic != "" {
		rn.report(witness{Kind: "panic", Detail: "KEYS * at quiescence: " + res.Panic, Sig: "panic|KEYS|" + firstLine(res.Panic)})
		return
	}
	got := map[string]int{}
	for _, e := range res.V.Arr {
		got[string(e.Str)]++
	}
	want := map[string]int{}
	for _, e := range dump {
		want[e.Key]++
	}
	if fmt.Sprint(len(got)) != fmt.Sprint(len(want)) {
		rn.report(witness{Kind: "bookkeeping", Detail: fmt.Sprintf("%s: KEYS * lists %d keys, the data holds %d", label, len(got), len(want)), Sig: "bookkeeping|KEYS disagrees with data"})
	}
	for k, n := range got {
		if want[k] != n {
			rn.report(witness{Kind: "bookkeeping", Detail: fmt.Sprintf("%s: KEYS * lists %q %d times, stored %d times", label, k, n, want[k]), Sig: "bookkeeping|KEYS disagrees with data"})
			break
		}
	}
}

// historyC05 runs one concurrent single-key history.
func (rn *runner) historyC05(r *rand.Rand, shards int) {
	in := inproc.New()
	defer in.Stop()
	classes := []string{"same-stripe", "same-shard-other-stripe", "independent"}
	class := classes[r.Intn(len(classes))]
	nKeys := 1 + r.Intn(4)
	keys := pickKeys(r, shards, nKeys, class)
	fams := make([]string, nKeys)
	for i := range fams {
		fams[i] = families[r.Intn(len(families))]
	}
	rn.out.Classes[class]++
	nClients := 2 + r.Intn(9)
	perClient := 12 + r.Intn(24)
	var mu sync.Mutex
	var ops []porcupine.Operation
	var wg sync.WaitGroup
	stop := make(chan struct{})
	// background churn: creator/deleter on other keys and a KEYS/EXISTS reader
	var bg sync.WaitGroup
	bg.Add(2)
	go func() {
		defer bg.Done()
		for i := 0; ; i++ {
			select {
			case <-stop:
				return
			default:
			}
			k := "tmp" + strconv.Itoa(i%7)
			rn.exec(in, respc.Cmd("SET", k, "x"))
			rn.exec(in, respc.Cmd("DEL", k))
		}
	}()
	go func() {
		defer bg.Done()
		for {
			select {
			case <-stop:
				return
			default:
			}
			rn.exec(in, respc.Cmd("KEYS", "*"))
			rn.exec(in, respc.Cmd("EXISTS", "tmp1", keys[0]))
		}
	}()
	seeds := make([]int64, nClients)
	for i := range seeds {
		seeds[i] = r.Int63()
	}
	for ci := 0; ci < nClients; ci++ {
		wg.Add(1)
		go func(ci int) {
			defer wg.Done()
			cr := rand.New(rand.NewSource(seeds[ci]))
			for i := 0; i < perClient; i++ {
				ki := cr.Intn(nKeys)
				cmd := genOp(cr, fams[ki], keys[ki], fmt.Sprintf("c%d-%d", ci, i))
				v, call, ret, ok := rn.exec(in, cmd)
				if !ok {
					return
				}
				mu.Lock()
				ops = append(ops, porcupine.Operation{ClientId: ci, Input: opIn{Cmd: cmd, Key: keys[ki]}, Call: call, Output: v, Return: ret})
				mu.Unlock()
			}
		}(ci)
	}
	wg.Wait()
	close(stop)
	bg.Wait()
	rn.out.Histories++
	rn.out.Ops += len(ops)
	for _, op := range ops {
		rn.out.OpKinds[strings.ToUpper(string(op.Input.(opIn).Cmd[0]))]++
	}
	rn.quiesce(in, "C05 history")
	sig, ov := interleavingSig(append([]porcupine.Operation{}, ops...))
	if ov {
		rn.out.Overlapping++
	}
	if len(rn.out.Signatures) < 200000 {
		rn.out.Signatures[sig]++
	}
	res, _ := porcupine.CheckOperationsVerbose(pModel(true), ops, 30*time.Second)
	switch res {
	case porcupine.Ok:
		rn.out.Decided++
	case porcupine.Unknown:
		rn.out.Unknown++
	case porcupine.Illegal:
		rn.out.Decided++
		// find the offending partition for a compact witness
		by := map[string][]porcupine.Operation{}
		for _, op := range ops {
			k := op.Input.(opIn).Key
			by[k] = append(by[k], op)
		}
		for k, part := range by {
			if porcupine.CheckOperations(pModel(false), part) {
				continue
			}
			names := map[string]bool{}
			for _, op := range part {
				names[strings.ToUpper(string(op.Input.(opIn).Cmd[0]))] = true
			}
			var ns []string
			for n := range names {
				ns = append(ns, n)
			}
			sort.Strings(ns)
			short := shortestIllegalPrefix(part)
			rn.report(witness{Kind: "not-linearizable", Detail: fmt.Sprintf("key %q (%d ops, %d clients, ShardNum %d, class %s): no sequential order respecting real time explains the replies; shortest illegal prefix in time has %d ops (pending ones with their replies withheld); the last completed one carries the first reply that cannot be explained", k, len(part), nClients, shards, class, len(short)),
				History: historyText(short), Full: fullHistory(part), Sig: "not-linearizable|" + strings.Join(ns, ",")})
			break
		}
	}
}

// conservationC05 runs long counters/queues without porcupine.
func (rn *runner) conservationC05(r *rand.Rand, shards int) {
	in := inproc.New()
	defer in.Stop()
	const clients, per = 8, 400
	var wg sync.WaitGroup
	var okIncr, winners int64
	popped := make([][]string, clients)
	for ci := 0; ci < clients; ci++ {
		wg.Add(1)
		go func(ci int) {
			defer wg.Done()
			for i := 0; i < per; i++ {
				if v, _, _, ok := rn.exec(in, respc.Cmd("INCR", "ctr")); ok && v.Kind == ':' {
					atomic.AddInt64(&okIncr, 1)
				}
				rn.exec(in, respc.Cmd("RPUSH", "q", fmt.Sprintf("e%d-%d", ci, i)))
				if i%2 == 1 {
					if v, _, _, ok := rn.exec(in, respc.Cmd("LPOP", "q")); ok && !v.Nil {
						popped[ci] = append(popped[ci], string(v.Str))
					}
				}
				if i == 0 {
					if v, _, _, ok := rn.exec(in, respc.Cmd("SETNX", "once", fmt.Sprint(ci))); ok && v.Kind == ':' && v.Int == 1 {
						atomic.AddInt64(&winners, 1)
					}
				}
				rn.exec(in, respc.Cmd("SADD", "s", fmt.Sprintf("m%d", (ci*per+i)%50)))
				rn.exec(in, respc.Cmd("HINCRBY", "h", "n", "1"))
			}
		}(ci)
	}
	wg.Wait()
	rn.out.Ops += clients * per * 5
	rn.quiesce(in, "C05 conservation")
	v, _, _, _ := rn.exec(in, respc.Cmd("GET", "ctr"))
	if string(v.Str) != strconv.FormatInt(okIncr, 10) {
		rn.report(witness{Kind: "conservation", Detail: fmt.Sprintf("%d INCRs acknowledged, counter reads %s", okIncr, v.String()), Sig: "conservation|lost increment"})
	}
	v, _, _, _ = rn.exec(in, respc.Cmd("HGET", "h", "n"))
	if string(v.Str) != strconv.Itoa(clients*per) {
		rn.report(witness{Kind: "conservation", Detail: fmt.Sprintf("%d HINCRBYs acknowledged, field reads %s", clients*per, v.String()), Sig: "conservation|lost hash increment"})
	}
	if winners != 1 {
		rn.report(witness{Kind: "conservation", Detail: fmt.Sprintf("%d SETNX winners on a fresh key", winners), Sig: "conservation|SETNX winners"})
	}
	rest, _, _, _ := rn.exec(in, respc.Cmd("LRANGE", "q", "0", "-1"))
	count := map[string]int{}
	for _, p := range popped {
		for _, e := range p {
			count[e]++
		}
	}
	for _, e := range rest.Arr {
		count[string(e.Str)]++
	}
	bad := 0
	for ci := 0; ci < clients; ci++ {
		for i := 0; i < per; i++ {
			if count[fmt.Sprintf("e%d-%d", ci, i)] != 1 {
				bad++
			}
		}
	}
	if bad > 0 || len(count) != clients*per {
		rn.report(witness{Kind: "conservation", Detail: fmt.Sprintf("%d of %d pushed elements were popped twice or lost (popped+remaining distinct=%d)", bad, clients*per, len(count)), Sig: "conservation|queue elements"})
	}
}

// expiryC05: keys that carry one deadline, hammered by several clients while the deadline passes. The deadline
// passes once and the recreated key has none, so the acknowledged "counting" replies (INCR, HINCRBY, APPEND, RPUSH
// all answer the new count) of one key must be b+1..b+p (before) and 1..q (after), each exactly once, and what is
// stored at the end must be the q-th state. The clock only schedules the workload; the verdict does not read it.
func (rn *runner) expiryC05(r *rand.Rand, shards int) {
	in := inproc.New()
	defer in.Stop()
	const nKeys = 24
	clients := 3 + r.Intn(3)
	now := time.Now()
	time.Sleep(now.Truncate(time.Second).Add(time.Second + 15*time.Millisecond).Sub(now))
	deadline := time.Now().Truncate(time.Second).Add(time.Second)
	fams := []string{"incr", "hincrby", "append", "rpush"}
	type keyRun struct {
		key, fam string
		base     int64
		replies  [][]int64  // per client
		elems    [][]string // rpush: element pushed by the i-th acknowledged push of a client
	}
	runs := make([]*keyRun, nKeys)
	for k := range runs {
		kr := &keyRun{key: fmt.Sprintf("exp:%d", k), fam: fams[r.Intn(len(fams))], replies: make([][]int64, clients), elems: make([][]string, clients)}
		runs[k] = kr
		switch kr.fam {
		case "incr":
			rn.exec(in, respc.Cmd("SETEX", kr.key, "1", "0"))
		case "hincrby":
			rn.exec(in, respc.Cmd("HSET", kr.key, "n", "0"))
			rn.exec(in, respc.Cmd("EXPIRE", kr.key, "1"))
		case "append":
			rn.exec(in, respc.Cmd("SETEX", kr.key, "1", "s"))
			kr.base = 1
		case "rpush":
			rn.exec(in, respc.Cmd("RPUSH", kr.key, "seed"))
			rn.exec(in, respc.Cmd("EXPIRE", kr.key, "1"))
			kr.base = 1
		}
	}
	if time.Now().After(deadline.Add(-200 * time.Millisecond)) {
		rn.out.ExpirySkipped++
		return
	}
	from, until := deadline.Add(-3*time.Millisecond), deadline.Add(10*time.Millisecond)
	var wg sync.WaitGroup
	for _, kr := range runs {
		for ci := 0; ci < clients; ci++ {
			wg.Add(1)
			go func(kr *keyRun, ci int) {
				defer wg.Done()
				time.Sleep(time.Until(from))
				for i := 0; time.Now().Before(until) && i < 4000; i++ {
					var cmd [][]byte
					el := ""
					switch kr.fam {
					case "incr":
						cmd = respc.Cmd("INCR", kr.key)
					case "hincrby":
						cmd = respc.Cmd("HINCRBY", kr.key, "n", "1")
					case "append":
						cmd = respc.Cmd("APPEND", kr.key, "x")
					case "rpush":
						el = fmt.Sprintf("c%d-%d", ci, i)
						cmd = respc.Cmd("RPUSH", kr.key, el)
					}
					v, _, _, ok := rn.exec(in, cmd)
					if !ok {
						return
					}
					if v.Kind != ':' {
						rn.report(witness{Kind: "expiry-crossing", Detail: fmt.Sprintf("%s replied %s while its key's deadline passed", cmdStr(cmd), v.String()), Sig: "expiry-crossing|unexpected-reply|" + kr.fam})
						return
					}
					kr.replies[ci] = append(kr.replies[ci], v.Int)
					kr.elems[ci] = append(kr.elems[ci], el)
				}
			}(kr, ci)
		}
	}
	wg.Wait()
	rn.out.ExpiryRounds++
	for _, kr := range runs {
		count := map[int64]int{}
		var n, max int64
		elemReply := map[string]int64{}
		for ci := range kr.replies {
			for i, v := range kr.replies[ci] {
				count[v]++
				n++
				if v > max {
					max = v
				}
				if kr.elems[ci][i] != "" {
					elemReply[kr.elems[ci][i]] = v
				}
			}
		}
		rn.out.Ops += int(n)
		rn.out.ExpiryKeys++
		// what is stored now
		var final int64 = -1 // -1: no key
		var listNow []string
		switch kr.fam {
		case "incr":
			if v, _, _, _ := rn.exec(in, respc.Cmd("GET", kr.key)); !v.Nil {
				final, _ = strconv.ParseInt(string(v.Str), 10, 64)
			}
		case "hincrby":
			if v, _, _, _ := rn.exec(in, respc.Cmd("HGET", kr.key, "n")); !v.Nil {
				final, _ = strconv.ParseInt(string(v.Str), 10, 64)
			}
		case "append":
			if v, _, _, _ := rn.exec(in, respc.Cmd("STRLEN", kr.key)); v.Int > 0 {
				final = v.Int
			}
		case "rpush":
			v, _, _, _ := rn.exec(in, respc.Cmd("LRANGE", kr.key, "0", "-1"))
			for _, e := range v.Arr {
				listNow = append(listNow, string(e.Str))
			}
			if len(listNow) > 0 {
				final = int64(len(listNow))
			}
		}
		// candidate splits: the highest reply ends the first or the second run
		explained := false
		var tried []string
		for _, q := range []int64{n - (max - kr.base), max} {
			pN := n - q
			if q < 0 || pN < 0 {
				continue
			}
			want := map[int64]int{}
			for v := kr.base + 1; v <= kr.base+pN; v++ {
				want[v]++
			}
			for v := int64(1); v <= q; v++ {
				want[v]++
			}
			same := len(want) == len(count)
			for v, c := range want {
				if count[v] != c {
					same = false
					break
				}
			}
			wantFinal := q
			if q == 0 {
				wantFinal = -1
			}
			tried = append(tried, fmt.Sprintf("%d before + %d after the deadline: replies %v, stored count %d (have %d)", pN, q, same, wantFinal, final))
			if same && final == wantFinal {
				explained = true
				if q > 0 && pN > 0 {
					rn.out.ExpiryCrossed++
				}
				break
			}
		}
		if explained && kr.fam == "rpush" {
			for i, e := range listNow {
				if rep, ok := elemReply[e]; !ok || rep != int64(i+1) {
					explained = false
					tried = append(tried, fmt.Sprintf("element %q at position %d of the stored list was acknowledged with length %d", e, i, rep))
					break
				}
			}
		}
		if !explained {
			var h [][]string
			for ci := range kr.replies {
				row := []string{fmt.Sprintf("client %d", ci)}
				for i, v := range kr.replies[ci] {
					if i >= 60 {
						row = append(row, "...")
						break
					}
					row = append(row, strconv.FormatInt(v, 10))
				}
				h = append(h, row)
			}
			rn.report(witness{Kind: "expiry-crossing", Detail: fmt.Sprintf("key %q (%s, %d clients, %d acknowledged operations, highest reply %d): the replies and the stored value are not those of one run up to the deadline and one run after it: an acknowledged update was lost or applied twice; %s",
				kr.key, kr.fam, clients, n, max, strings.Join(tried, " | ")), History: h, Sig: "expiry-crossing|lost-or-repeated-update|" + kr.fam})
		}
	}
	rn.quiesce(in, "C05 expiry crossing")
}

// ---- C13 --------------------------------------------------------------------

// alien, when not empty, is a key of the group that holds a value of another type: a multi-key command that meets it
// is refused and must then have changed nothing (no element or member taken from its source).
func genMulti(r *rand.Rand, kind string, keys []string, uniq string, alien string) [][]byte {
	c := respc.Cmd
	a, b := keys[r.Intn(len(keys))], keys[r.Intn(len(keys))]
	if alien != "" && r.Intn(5) == 0 {
		dirs := []string{"LEFT", "RIGHT"}
		switch kind {
		case "list":
			if r.Intn(2) == 0 {
				return c("LMOVE", a, alien, dirs[r.Intn(2)], dirs[r.Intn(2)])
			}
			return c("LMOVE", alien, a, dirs[r.Intn(2)], dirs[r.Intn(2)])
		case "set":
			if r.Intn(2) == 0 {
				return c("SMOVE", a, alien, "m"+strconv.Itoa(r.Intn(4)))
			}
			return c("SMOVE", alien, a, "m"+strconv.Itoa(r.Intn(4)))
		default:
			if r.Intn(2) == 0 {
				return c("RENAME", a, alien)
			}
			return c("MSET", a, uniq, alien, uniq)
		}
	}
	switch kind {
	case "string":
		switch r.Intn(13) {
		case 8, 9:
			// writers that look before they write: between the two halves of a multi-key command they would see a
			// state that never existed
			return c("SETNX", a, uniq)
		case 10:
			return c("SET", a, uniq, "XX")
		case 11:
			return c("APPEND", a, "+"+uniq)
		case 12:
			return c("RENAME", a, b)
		case 0, 1:
			// whole-vector value: every key of the group gets the same unique tag
			args := []string{"MSET"}
			perm := r.Perm(len(keys))
			for _, i := range perm {
				args = append(args, keys[i], uniq)
			}
			return c(args...)
		case 2:
			return c("RENAME", a, b)
		case 3:
			return c("SET", a, uniq)
		case 4:
			return c("GET", a)
		case 5:
			return c("EXISTS", a)
		case 6:
			return c("DEL", a)
		}
		return c("MSET", a, uniq, a, uniq+"x")
	case "list":
		dirs := []string{"LEFT", "RIGHT"}
		switch r.Intn(7) {
		case 0, 1, 2:
			return c("LMOVE", a, b, dirs[r.Intn(2)], dirs[r.Intn(2)])
		case 3:
			return c("RPUSH", a, uniq)
		case 4:
			return c("LPOP", a)
		case 5:
			return c("LRANGE", a, "0", "-1")
		}
		return c("LLEN", a)
	default: // set
		m := "m" + strconv.Itoa(r.Intn(4))
		switch r.Intn(7) {
		case 0, 1, 2:
			return c("SMOVE", a, b, m)
		case 3:
			return c("SADD", a, m)
		case 4:
			return c("SISMEMBER", a, m)
		case 5:
			return c("SMEMBERS", a)
		}
		return c("SCARD", a)
	}
}

func (rn *runner) historyC13(r *rand.Rand, shards int) {
	in := inproc.New()
	defer in.Stop()
	classes := []string{"same-stripe", "same-shard-other-stripe", "independent"}
	class := classes[r.Intn(len(classes))]
	kind := []string{"string", "list", "set"}[r.Intn(3)]
	keys := pickKeys(r, shards, 2+r.Intn(2), class)
	rn.out.Classes[class+"/"+kind]++
	// seed data so that moves have something to move
	switch kind {
	case "list":
		for i, k := range keys {
			in.Exec(respc.Cmd("RPUSH", k, fmt.Sprintf("s%d-a", i), fmt.Sprintf("s%d-b", i)), nil)
		}
	case "set":
		for _, k := range keys {
			in.Exec(respc.Cmd("SADD", k, "m0", "m1"), nil)
		}
	}
	alien := ""
	if r.Intn(3) == 0 {
		alien = "alien:" + keys[0]
		switch kind {
		case "list":
			in.Exec(respc.Cmd("SET", alien, "not-a-list"), nil)
		case "set":
			in.Exec(respc.Cmd("RPUSH", alien, "m0", "m1"), nil)
		default:
			in.Exec(respc.Cmd("SADD", alien, "not-a-string"), nil)
		}
		rn.out.Classes["with a key of another type in the group"]++
	}
	before := in.Dump()
	nClients := 3 + r.Intn(4)
	perClient := 8 + r.Intn(8)
	var mu sync.Mutex
	var ops []porcupine.Operation
	var wg sync.WaitGroup
	seeds := make([]int64, nClients)
	for i := range seeds {
		seeds[i] = r.Int63()
	}
	for ci := 0; ci < nClients; ci++ {
		wg.Add(1)
		go func(ci int) {
			defer wg.Done()
			cr := rand.New(rand.NewSource(seeds[ci]))
			for i := 0; i < perClient; i++ {
				cmd := genMulti(cr, kind, keys, fmt.Sprintf("c%d-%d", ci, i), alien)
				v, call, ret, ok := rn.exec(in, cmd)
				if !ok {
					return
				}
				mu.Lock()
				ops = append(ops, porcupine.Operation{ClientId: ci, Input: opIn{Cmd: cmd, Key: "group"}, Call: call, Output: v, Return: ret})
				mu.Unlock()
			}
		}(ci)
	}
	done := make(chan struct{})
	go func() { wg.Wait(); close(done) }()
	select {
	case <-done:
	case <-time.After(60 * time.Second):
		buf := make([]byte, 1<<20)
		buf = buf[:runtime.Stack(buf, true)]
		blocked := 0
		for _, g := range strings.Split(string(buf), "\n\n") {
			if strings.Contains(g, "memdb.(*Locks)") && (strings.Contains(g, "sync.(*RWMutex).Lock") || strings.Contains(g, "sync.(*RWMutex).RLock")) {
				blocked++
			}
		}
		rn.report(witness{Kind: "deadlock", Detail: fmt.Sprintf("commands did not complete within 60s; %d goroutines blocked acquiring stripes\n%s", blocked, inproc.TopFrames(string(buf), 12)), Sig: "deadlock|" + kind})
		b, _ := json.Marshal(rn.out)
		_ = os.WriteFile(*fOut, b, 0o644)
		os.Exit(3)
	}
	rn.out.Histories++
	rn.out.Ops += len(ops)
	for _, op := range ops {
		rn.out.OpKinds[strings.ToUpper(string(op.Input.(opIn).Cmd[0]))]++
	}
	rn.quiesce(in, "C13 history")
	// conservation: the multiset union of elements/members only moved around
	after := in.Dump()
	if kind == "list" {
		cnt := func(es []model.Entry) map[string]int {
			m := map[string]int{}
			for _, e := range es {
				for _, x := range e.List {
					m[string(x)]++
				}
			}
			return m
		}
		pushed := map[string]int{}
		poppedN := map[string]int{}
		for _, op := range ops {
			c := op.Input.(opIn).Cmd
			switch strings.ToUpper(string(c[0])) {
			case "RPUSH":
				pushed[string(c[2])]++
			case "LPOP":
				if v := op.Output.(respc.Value); !v.Nil {
					poppedN[string(v.Str)]++
				}
			}
		}
		want := cnt(before)
		for k, n := range pushed {
			want[k] += n
		}
		for k, n := range poppedN {
			want[k] -= n
		}
		got := cnt(after)
		for k, n := range want {
			if got[k] != n {
				rn.report(witness{Kind: "conservation", Detail: fmt.Sprintf("element %q: expected %d copies across the lists after LMOVEs, found %d", k, n, got[k]), History: historyText(ops), Sig: "conservation|LMOVE lost or duplicated an element"})
				break
			}
		}
		rn.out.Conserv++
	}
	sig, ov := interleavingSig(append([]porcupine.Operation{}, ops...))
	if ov {
		rn.out.Overlapping++
	}
	if len(rn.out.Signatures) < 200000 {
		rn.out.Signatures[sig]++
	}
	// joint linearizability over the key group, starting from the seeded state
	init := model.NewPState()
	init.DB.Load(before)
	init.Repr = init.DB.Canon()
	pm := pModel(false)
	pm.Init = func() interface{} { return init }
	res, _ := porcupine.CheckOperationsVerbose(pm, ops, 30*time.Second)
	switch res {
	case porcupine.Ok:
		rn.out.Decided++
	case porcupine.Unknown:
		rn.out.Unknown++
	case porcupine.Illegal:
		rn.out.Decided++
		names := map[string]bool{}
		for _, op := range ops {
			names[strings.ToUpper(string(op.Input.(opIn).Cmd[0]))] = true
		}
		var ns []string
		for n := range names {
			ns = append(ns, n)
		}
		sort.Strings(ns)
		rn.report(witness{Kind: "not-atomic", Detail: fmt.Sprintf("keys %v (%s, ShardNum %d, class %s): the history over the key group is not linearizable - a multi-key command was observed half-applied or lost/duplicated data", keys, kind, shards, class),
			History: historyText(ops), Sig: "not-atomic|" + kind + "|" + strings.Join(ns, ",")})
	}
}

// stormC13 mixes every multi-key command in both argument orders with single-key writers: lock-order coverage only.
// With expiring, two of the four keys of every type carry a deadline that passes in the middle of the storm: between
// the deadline second and the key's own timer the dead value is still stored, and every multi-key command that meets
// it (as source, destination or operand) has to get rid of it without taking a stripe it already holds.
func (rn *runner) stormC13(r *rand.Rand, shards int, expiring bool) {
	in := inproc.New()
	defer in.Stop()
	keys := pickKeys(r, shards, 4, []string{"same-stripe", "same-shard-other-stripe", "independent"}[r.Intn(3)])
	for _, k := range keys[:2] {
		in.Exec(respc.Cmd("SADD", "s:"+k, "a", "b", "c"), nil)
		in.Exec(respc.Cmd("RPUSH", "l:"+k, "a", "b"), nil)
		in.Exec(respc.Cmd("SET", k, "v"), nil)
	}
	var until time.Time
	if expiring {
		for _, k := range keys[2:] {
			in.Exec(respc.Cmd("SADD", "s:"+k, "a", "b", "c"), nil)
			in.Exec(respc.Cmd("RPUSH", "l:"+k, "a", "b", "c", "d"), nil)
			in.Exec(respc.Cmd("SET", k, "v"), nil)
		}
		// attach the deadlines late in a second: the timers then fire late in the deadline second
		now := time.Now()
		at := now.Truncate(time.Second).Add(time.Duration(700+r.Intn(200)) * time.Millisecond)
		if at.Before(now) {
			at = at.Add(time.Second)
		}
		time.Sleep(time.Until(at))
		for _, k := range keys[2:] {
			for _, pre := range []string{"s:", "l:", ""} {
				in.Exec(respc.Cmd("EXPIRE", pre+k, "1"), nil)
			}
		}
		until = time.Now().Truncate(time.Second).Add(1950 * time.Millisecond)
		rn.out.ExpiryStorms++
	}
	var wg sync.WaitGroup
	var kmu sync.Mutex
	stormSeeds := make([]int64, 6)
	for i := range stormSeeds {
		stormSeeds[i] = r.Int63()
	}
	for ci := 0; ci < 6; ci++ {
		wg.Add(1)
		go func(ci int) {
			defer wg.Done()
			cr := rand.New(rand.NewSource(stormSeeds[ci]))
			for i := 0; i < 40 || (expiring && time.Now().Before(until)); i++ {
				a, b, d := keys[cr.Intn(4)], keys[cr.Intn(4)], keys[cr.Intn(4)]
				if expiring {
					// paced, so that the commands spread over the deadline second instead of reaping everything at once
					time.Sleep(time.Duration(cr.Intn(40)) * time.Millisecond)
				}
				var cmd [][]byte
				switch cr.Intn(14) {
				case 0:
					cmd = respc.Cmd("SINTERSTORE", "s:"+d, "s:"+a, "s:"+b)
				case 1:
					cmd = respc.Cmd("SUNIONSTORE", "s:"+a, "s:"+d, "s:"+b)
				case 2:
					cmd = respc.Cmd("SDIFFSTORE", "s:"+b, "s:"+a, "s:"+d)
				case 3:
					cmd = respc.Cmd("SUNION", "s:"+a, "s:"+b, "s:"+d)
				case 4:
					cmd = respc.Cmd("SMOVE", "s:"+a, "s:"+b, "a")
				case 5:
					cmd = respc.Cmd("LMOVE", "l:"+a, "l:"+b, "LEFT", "RIGHT")
				case 6:
					cmd = respc.Cmd("RENAME", a, b)
				case 7:
					cmd = respc.Cmd("MSET", a, "1", b, "2", a, "3")
				case 8:
					cmd = respc.Cmd("DEL", a, b, d)
				case 9:
					cmd = respc.Cmd("EXISTS", a, b, a)
				case 10:
					cmd = respc.Cmd("BLPOP", "l:"+a, "l:"+b, "1")
					if cr.Intn(4) != 0 || expiring {
						cmd = respc.Cmd("RPUSH", "l:"+a, "x")
					}
				case 11:
					cmd = respc.Cmd("SADD", "s:"+a, "a", "z")
				case 12:
					cmd = respc.Cmd("SET", a, "w")
				default:
					cmd = respc.Cmd("SINTER", "s:"+b, "s:"+a)
				}
				rn.exec(in, cmd)
				kmu.Lock()
				rn.out.OpKinds[strings.ToUpper(string(cmd[0]))]++
				kmu.Unlock()
			}
		}(ci)
	}
	done := make(chan struct{})
	go func() { wg.Wait(); close(done) }()
	select {
	case <-done:
	case <-time.After(90 * time.Second):
		buf := make([]byte, 1<<20)
		buf = buf[:runtime.Stack(buf, true)]
		rn.report(witness{Kind: "deadlock", Detail: "multi-key storm did not complete within 90s\n" + inproc.TopFrames(string(buf), 12), Sig: "deadlock|storm"})
		b, _ := json.Marshal(rn.out)
		_ = os.WriteFile(*fOut, b, 0o644)
		os.Exit(3)
	}
	rn.out.Ops += 240
	if expiring {
		time.Sleep(time.Until(until.Add(100 * time.Millisecond))) // the per-key timers have fired
	}
	rn.quiesce(in, "C13 storm")
}

// pickCrossed finds four keys (all carrying prefix) on four different lock stripes such that the first and the last
// share a map shard and the two in the middle share another one: two two-key commands on (k0,k1) and (k2,k3) are
// independent as far as the stripes go and meet, in opposite order, on the shards underneath.
func pickCrossed(r *rand.Rand, shards int, prefix string) []string {
	if shards < 2 {
		return nil
	}
	stripes := uint32(2 * shards)
	sh := uint32(shards)
	base := r.Intn(1 << 20)
	var out []string
	var hs []uint32
	for i := 0; len(out) < 4 && i < 400000; i++ {
		k := fmt.Sprintf("%sx%d", prefix, base+i)
		h := uint32(util.HashKey(k))
		ok := true
		for _, o := range hs {
			if o%stripes == h%stripes {
				ok = false
			}
		}
		if !ok {
			continue
		}
		switch len(out) {
		case 1: // another shard than k0
			ok = h%sh != hs[0]%sh
		case 2: // the shard of k1
			ok = h%sh == hs[1]%sh
		case 3: // the shard of k0
			ok = h%sh == hs[0]%sh
		}
		if ok {
			out = append(out, k)
			hs = append(hs, h)
		}
	}
	if len(out) < 4 {
		return nil
	}
	return out
}

// crossedC13: pairs of two-key commands on disjoint stripes whose keys share the map shards crosswise, back and forth,
// as fast as the clients can. Nothing but the watchdog can see a lock order below the stripes.
func (rn *runner) crossedC13(r *rand.Rand, shards int) {
	in := inproc.New()
	defer in.Stop()
	ks, ls, ss := pickCrossed(r, shards, ""), pickCrossed(r, shards, "l:"), pickCrossed(r, shards, "s:")
	if ks == nil || ls == nil || ss == nil {
		return
	}
	for _, k := range []string{ks[0], ks[2]} {
		in.Exec(respc.Cmd("SET", k, "v"), nil)
	}
	for _, k := range []string{ls[0], ls[2]} {
		in.Exec(respc.Cmd("RPUSH", k, "a", "b", "c"), nil)
	}
	for _, k := range []string{ss[0], ss[2]} {
		in.Exec(respc.Cmd("SADD", k, "a", "b"), nil)
	}
	rounds := 6000
	var wg sync.WaitGroup
	var n int64
	for ci := 0; ci < 4; ci++ {
		wg.Add(1)
		go func(ci int) {
			defer wg.Done()
			p := (ci % 2) * 2 // clients 0 and 2 work on (k0,k1), clients 1 and 3 on (k2,k3)
			for i := 0; i < rounds; i++ {
				a, b := p, p+1
				if (i+ci/2)%2 == 1 {
					a, b = b, a
				}
				switch i % 5 {
				case 0, 1, 2:
					in.Exec(respc.Cmd("RENAME", ks[a], ks[b]), nil)
				case 3:
					in.Exec(respc.Cmd("LMOVE", ls[a], ls[b], "LEFT", "RIGHT"), nil)
				default:
					in.Exec(respc.Cmd("SMOVE", ss[a], ss[b], "a"), nil)
				}
				atomic.AddInt64(&n, 1)
			}
		}(ci)
	}
	done := make(chan struct{})
	go func() { wg.Wait(); close(done) }()
	select {
	case <-done:
	case <-time.After(60 * time.Second):
		buf := make([]byte, 1<<20)
		buf = buf[:runtime.Stack(buf, true)]
		rn.report(witness{Kind: "deadlock", Detail: fmt.Sprintf("two-key commands on (%q,%q) and on (%q,%q) - four different stripes, map shards shared crosswise - stopped after %d commands and did not finish within 60s\n%s", ks[0], ks[1], ks[2], ks[3], atomic.LoadInt64(&n), inproc.TopFrames(string(buf), 12)), Sig: "deadlock|crossed-shards"})
		b, _ := json.Marshal(rn.out)
		_ = os.WriteFile(*fOut, b, 0o644)
		os.Exit(3)
	}
	rn.out.Ops += int(n)
	rn.out.CrossedStorms++
	rn.out.OpKinds["RENAME"] += int(n) * 3 / 5
	rn.out.OpKinds["LMOVE"] += int(n) / 5
	rn.out.OpKinds["SMOVE"] += int(n) / 5
	rn.quiesce(in, "C13 crossed shards")
}

func worker(o *common.Opts) {
	if *fProcs > 0 {
		runtime.GOMAXPROCS(*fProcs)
	}
	inproc.Setup(*fShards, 1, filepath.Join(o.Work, "log"))
	out := &workerOut{Signatures: map[string]int{}, Classes: map[string]int{}, OpKinds: map[string]int{}}
	j, _ := os.OpenFile(*fJournal, os.O_CREATE|os.O_WRONLY|os.O_APPEND, 0o644)
	rn := &runner{out: out, seen: map[string]bool{}, j: j, start: time.Now()}
	lm := &lockMon{held: map[uint64][]int{}, edges: map[[2]int]string{}, journal: j}
	rn.lm = lm
	memdb.VerifYieldHook = yieldHook
	if *fProp == "C13" {
		memdb.VerifLockHook = lm.hook
	} else {
		memdb.VerifLockHook = func(kind string, stripe int) {
			if kind == "lock-begin" || kind == "rlock-begin" {
				yieldHook("lock")
			}
		}
	}
	r := rand.New(rand.NewSource(o.Seed*1000003 + int64(*fBatch)*7919))
	for h := 0; h < *fHist; h++ {
		fmt.Fprintf(j, "history %d\n", h)
		if *fProp == "C13" {
			if h%5 == 4 {
				rn.stormC13(r, *fShards, h%10 == 9)
			} else if h%10 == 3 && *fShards >= 2 {
				rn.crossedC13(r, *fShards)
			} else {
				rn.historyC13(r, *fShards)
			}
		} else {
			if h%20 == 19 {
				rn.conservationC05(r, *fShards)
			} else if h%20 == 9 {
				rn.expiryC05(r, *fShards)
			} else {
				rn.historyC05(r, *fShards)
			}
		}
	}
	if *fProp == "C13" {
		lm.mu.Lock()
		out.LockEvents = lm.events
		out.LockEdges = len(lm.edges)
		out.MaxHeld = lm.maxHeld
		for _, m := range lm.reentry {
			rn.report(witness{Kind: "lock-reentry", Detail: m, Sig: "lock-reentry"})
		}
		if cyc := lm.cycle(); cyc != nil {
			rn.report(witness{Kind: "lock-order-cycle", Detail: "two code paths take the same stripes in opposite orders (a deadlock under the right timing): " + strings.Join(cyc, "; "), Sig: "lock-order-cycle"})
		}
		lm.mu.Unlock()
	}
	b, _ := json.Marshal(out)
	_ = os.WriteFile(*fOut, b, 0o644)
}

// raceReports extracts first-party race reports from the GORACE log files of a batch.
func raceReports(dir string, batch int) (n int, firstParty []string) {
	files, _ := filepath.Glob(filepath.Join(dir, fmt.Sprintf("race-%d.*", batch)))
	for _, f := range files {
		b, err := os.ReadFile(f)
		if err != nil {
			continue
		}
		for _, blk := range strings.Split(string(b), "==================") {
			if !strings.Contains(blk, "WARNING: DATA RACE") {
				continue
			}
			n++
			if strings.Contains(blk, "innovationb1ue/RedisGO/") {
				firstParty = append(firstParty, blk)
			}
		}
	}
	return n, firstParty
}

func raceSig(blk string) string {
	// the top first-party frame of each of the two stacks, line numbers stripped
	var frames []string
	lines := strings.Split(blk, "\n")
	inStack := false
	for _, l := range lines {
		t := strings.TrimSpace(l)
		if strings.HasPrefix(t, "Read at") || strings.HasPrefix(t, "Write at") || strings.HasPrefix(t, "Previous read at") || strings.HasPrefix(t, "Previous write at") {
			inStack = true
			continue
		}
		if inStack && strings.HasPrefix(t, "github.com/innovationb1ue/RedisGO/") {
			fn := strings.TrimPrefix(t, "github.com/innovationb1ue/RedisGO/")
			if i := strings.Index(fn, "("); i > 0 && strings.HasSuffix(fn, ")") {
				fn = fn[:strings.LastIndex(fn, "(")]
			}
			frames = append(frames, fn)
			inStack = false
		}
		if t == "" {
			inStack = false
		}
	}
	sort.Strings(frames)
	return strings.Join(frames, " <-> ")
}

func main() {
	prop := "C05"
	for i, a := range os.Args {
		if (a == "-prop" || a == "--prop") && i+1 < len(os.Args) {
			prop = os.Args[i+1]
		}
	}
	o := common.Parse(prop)
	if *fWorker {
		worker(o)
		return
	}
	defer o.Cleanup()
	kf, err := findings.Load(findings.DefaultPath)
	if err != nil {
		fmt.Println("cannot load known findings:", err)
		os.Exit(common.ExitInconclusive)
	}
	if o.Replay != "" {
		fmt.Println("concurrency witnesses are schedule dependent; re-run the check with the same VERIF_SEED. The stored history is re-judged:", o.Replay)
		explain(o.Replay)
		return
	}
	nb := o.Pick(16, 64)
	hist := o.Pick(40, 320)
	if prop == "C13" {
		hist = o.Pick(25, 250)
	}
	shardsOf := func(i int) int { return []int{1, 2, 4, 2}[i%4] }
	procsOf := func(i int) int { return []int{2, 4, 16, 4}[(i/4)%4] }
	raceDir := filepath.Join(o.Work, "race")
	_ = os.MkdirAll(raceDir, 0o755)
	batches := super.Run(o.Work, nb, 0, time.Duration(o.Pick(400, 3000))*time.Second, nil, func(i int, out, journal string) []string {
		return []string{"-worker", "-prop", prop, "-batch", strconv.Itoa(i), "-shards", strconv.Itoa(shardsOf(i)), "-gomaxprocs", strconv.Itoa(procsOf(i)), "-histories", strconv.Itoa(hist),
			"-tier", o.Tier, "-seed", fmt.Sprint(o.Seed), "-out", out, "-journal", journal, "-work", o.Work}
	})
	_ = raceDir
	agg := workerOut{Signatures: map[string]int{}, Classes: map[string]int{}, OpKinds: map[string]int{}}
	bySig := map[string]witness{}
	inconclusive := ""
	races, raceFP := 0, 0
	for _, b := range batches {
		// race reports go to the worker's stderr (the log)
		lg := b.LogTail(8 << 20)
		for _, blk := range strings.Split(lg, "==================") {
			if !strings.Contains(blk, "WARNING: DATA RACE") {
				continue
			}
			races++
			if strings.Contains(blk, "innovationb1ue/RedisGO/") {
				raceFP++
				sig := "race|" + raceSig(blk)
				if _, ok := bySig[sig]; !ok {
					if len(blk) > 5000 {
						blk = blk[:5000]
					}
					bySig[sig] = witness{Kind: "data-race", Detail: blk, Sig: sig}
				}
			}
		}
		var w workerOut
		haveResult := b.Result != nil && json.Unmarshal(b.Result, &w) == nil
		if haveResult {
			agg.Histories += w.Histories
			agg.Ops += w.Ops
			agg.Decided += w.Decided
			agg.Unknown += w.Unknown
			agg.Overlapping += w.Overlapping
			agg.Conserv += w.Conserv
			agg.ExpiryStorms += w.ExpiryStorms
			agg.CrossedStorms += w.CrossedStorms
			agg.ExpiryRounds += w.ExpiryRounds
			agg.ExpirySkipped += w.ExpirySkipped
			agg.ExpiryKeys += w.ExpiryKeys
			agg.ExpiryCrossed += w.ExpiryCrossed
			agg.LockEvents += w.LockEvents
			if w.LockEdges > agg.LockEdges {
				agg.LockEdges = w.LockEdges
			}
			if w.MaxHeld > agg.MaxHeld {
				agg.MaxHeld = w.MaxHeld
			}
			for k, v := range w.Signatures {
				agg.Signatures[k] += v
			}
			for k, v := range w.Classes {
				agg.Classes[k] += v
			}
			for k, v := range w.OpKinds {
				agg.OpKinds[k] += v
			}
			for _, x := range w.Wits {
				if _, ok := bySig[x.Sig]; !ok {
					bySig[x.Sig] = x
				}
			}
		}
		if b.TimedOut {
			dump := b.LogTail(1 << 20)
			if strings.Contains(dump, "memdb.(*Locks)") {
				bySig["deadlock|watchdog"] = witness{Kind: "deadlock", Detail: "batch did not finish; goroutines blocked on stripes:\n" + inproc.TopFrames(dump, 12) + "\njournal: " + b.LastJournal(), Sig: "deadlock|watchdog"}
			} else {
				inconclusive = "a batch exceeded its wall-clock limit"
			}
			continue
		}
		if b.Err != nil && !haveResult {
			cl := b.CrashLine()
			sig := "crash|" + seqrun.Generalise(cl)
			bySig[sig] = witness{Kind: "crash", Detail: "worker process died under concurrency: " + cl + "\n" + inproc.TopFrames(b.LogTail(1<<16), 10) + "\njournal: " + b.LastJournal(), Sig: sig}
		}
	}
	var tcp tcpOut
	if prop == "C05" {
		tcp = tcpPhaseC05(o, o.Pick(60, 800))
		for _, x := range tcp.Wits {
			if _, ok := bySig[x.Sig]; !ok {
				bySig[x.Sig] = x
			}
		}
		races += tcp.Races
		raceFP += tcp.RacesFirstParty
		if tcp.Note != "" && inconclusive == "" {
			inconclusive = "TCP phase: " + tcp.Note
		}
	}
	sigs := make([]string, 0, len(bySig))
	for s := range bySig {
		sigs = append(sigs, s)
	}
	sort.Strings(sigs)
	violations := 0
	knownHits := map[string]int{}
	var vs []any
	for _, s := range sigs {
		w := bySig[s]
		if k := kf.MatchSig(prop, s); k != nil {
			knownHits[k.ID]++
			continue
		}
		violations++
		path := filepath.Join(o.Replays, fmt.Sprintf("%s-%d-%03d.json", prop, o.Seed, violations))
		b, _ := json.MarshalIndent(w, "", " ")
		_ = os.WriteFile(path, b, 0o644)
		d := w.Detail
		if len(d) > 1800 {
			d = d[:1800] + "..."
		}
		fmt.Printf("--- %s %s: %s\n    sig: %s\n", prop, w.Kind, strings.ReplaceAll(d, "\n", "\n    "), w.Sig)
		if len(w.History) > 0 && len(w.History) <= 40 {
			for _, h := range w.History {
				fmt.Printf("      %s\n", strings.Join(h, " "))
			}
		}
		common.Violation(prop, path)
		if len(vs) < 2 {
			w.Detail = d
			if len(w.History) > 30 {
				w.History = w.History[:30]
			}
			vs = append(vs, w)
		}
	}
	for _, k := range kf.Known(prop) {
		if knownHits[k.ID] > 0 {
			common.Known(prop, k.ID+" "+k.What)
		}
	}
	rule := "concurrent histories of 2-10 client goroutines x 12-35 single-key commands on 1-4 keys of one family each (string, counter, list, set, hash, zset), keys constructed with util.HashKey to collide on a stripe, to share a map shard but not the stripe, or to be independent; " +
		"ShardNum in {1,2,4}, GOMAXPROCS in {2,4,16}, yields/sleeps at the verif yield points; a churn client (SET/DEL other keys) and a KEYS/EXISTS client run alongside; written values are unique. distinct = distinct interleaving signatures (hash of the per-key order of (client, command) by call time with the overlap relation)"
	if prop == "C13" {
		rule = "concurrent histories of 3-6 clients x 8-15 commands over a group of 2-3 keys (MSET with whole-vector values / RENAME / SET / GET / DEL; LMOVE in all directions / RPUSH / LPOP / LRANGE; SMOVE / SADD / SISMEMBER / SMEMBERS) checked jointly (no key partitioning) plus storms of every multi-key command " +
			"(set algebra and STORE forms, multi-key DEL/EXISTS/BLPOP) in both argument orders with repeated keys, half of the storms with deadlines that pass during the storm on half of the keys (dead values still stored when the multi-key commands meet them); key groups collide on a stripe, share a shard, or are independent; every stripe lock event feeds a lockdep-style monitor. distinct = distinct interleaving signatures"
	}
	ev := &evidence.Evidence{PropertyID: prop, Tier: o.Tier, Seed: o.Seed, Level: "exploration", WallS: o.Elapsed(), Violations: violations,
		Coverage: map[string]any{
			"evaluations":                             agg.Histories,
			"distinct_nontrivial":                     len(agg.Signatures),
			"rule":                                    rule,
			"samples":                                 []any{"c0 INCR k1 || c1 INCR k1 || c2 GET k1 (same stripe as k2: c3 LPUSH k2 c3-0)", "c0 MSET a c0-1 b c0-1 || c1 MSET b c1-1 a c1-1 || c2 GET a; GET b", "c0 LMOVE x y LEFT RIGHT || c1 LMOVE y x RIGHT LEFT"},
			"operations":                              agg.Ops,
			"histories_decided_by_porcupine":          agg.Decided,
			"histories_porcupine_unknown":             agg.Unknown,
			"histories_with_overlapping_rmw":          agg.Overlapping,
			"collision_classes":                       agg.Classes,
			"commands_by_name":                        agg.OpKinds,
			"quiescence_checks":                       agg.Conserv,
			"multi_key_storms_with_deadlines_passing": agg.ExpiryStorms,
			"two_key_command_storms_on_crossed_map_shards": agg.CrossedStorms,
			"expiry_crossing_rounds":                       agg.ExpiryRounds,
			"expiry_crossing_rounds_skipped":               agg.ExpirySkipped,
			"expiry_crossing_keys":                         agg.ExpiryKeys,
			"expiry_crossing_keys_with_acknowledged_updates_on_both_sides_of_the_deadline": agg.ExpiryCrossed,
			"race_reports":                    races,
			"race_reports_first_party":        raceFP,
			"lock_events_monitored":           agg.LockEvents,
			"lock_order_edges":                agg.LockEdges,
			"max_stripes_held_by_a_goroutine": agg.MaxHeld,
			"known_finding_hits":              knownHits,
			"violation_samples":               vs,
		},
		Assumptions: []string{"schedules are those the Go scheduler produces under GOMAXPROCS variation and the verif yield points; the race detector only sees executed accesses",
			"the reference model decides each partition; commands whose sequential behaviour the model leaves unspecified are not generated"}}
	if prop == "C05" {
		ev.Coverage["tcp_histories"] = tcp.Histories
		ev.Coverage["tcp_operations"] = tcp.Ops
		ev.Coverage["tcp_operations_sent_in_pipelined_bursts"] = tcp.Pipelined
		ev.Coverage["tcp_histories_decided_by_porcupine"] = tcp.Decided
		ev.Coverage["tcp_histories_porcupine_unknown"] = tcp.Unknown
		ev.Coverage["tcp_histories_with_overlapping_rmw"] = tcp.Overlapping
		ev.Coverage["tcp_commands_by_name"] = tcp.OpKinds
		ev.Coverage["tcp_rule"] = "the same command generator through 2-8 real connections (a third of them pipelining bursts of 1-4 commands) of the race-built server binary, ShardNum 1 and 4, a churn/KEYS connection alongside; call = before the write, return = after the reply is decoded; porcupine per key; verif.check / verif.stripes at quiescence; race log of the server process"
		fmt.Printf("%s %s TCP phase: %d histories, %d ops (%d pipelined), porcupine decided %d unknown %d, overlapping-RMW histories %d, server race reports %d\n", prop, o.Tier, tcp.Histories, tcp.Ops, tcp.Pipelined, tcp.Decided, tcp.Unknown, tcp.Overlapping, tcp.Races)
	}
	if inconclusive != "" {
		ev.Coverage["inconclusive"] = inconclusive
	}
	_ = evidence.Write(o.Evidence, ev)
	fmt.Printf("%s %s seed=%d: %d histories, %d ops, porcupine decided %d unknown %d, overlapping-RMW histories %d, %d interleaving signatures, race reports %d (first-party %d), lock events %d edges %d, %d signatures (%d unmatched), %.1fs\n",
		prop, o.Tier, o.Seed, agg.Histories, agg.Ops, agg.Decided, agg.Unknown, agg.Overlapping, len(agg.Signatures), races, raceFP, agg.LockEvents, agg.LockEdges, len(sigs), violations, o.Elapsed())
	if violations > 0 {
		o.Cleanup()
		os.Exit(common.ExitViolation)
	}
	if inconclusive != "" || agg.Decided < 100 || agg.Overlapping < 20 || (prop == "C05" && tcp.Decided < 20) {
		common.Inconclusive(prop, fmt.Sprintf("%s decided=%d overlapping=%d", inconclusive, agg.Decided, agg.Overlapping))
		o.Cleanup()
		os.Exit(common.ExitInconclusive)
	}
}
