// Package common holds the conventions shared by every check binary:
// tier/seed parsing, verdict lines and exit codes, scratch directories.
package common

import (
	"flag"
	"fmt"
	"os"
	"path/filepath"
	"strconv"
	"strings"
	"time"
)

// Exit codes of every check.
const (
	ExitHeld         = 0
	ExitViolation    = 1
	ExitInconclusive = 2
)

// Opts are the options every check binary understands.
type Opts struct {
	Tier     string // quick | thorough
	Seed     int64
	Evidence string // path of the evidence file
	Replays  string // directory for witness files
	Work     string // scratch directory (created, caller removes)
	Replay   string // optional witness to replay
	Start    time.Time
}

// Parse reads flags and the VERIF_SEED / VERIF_TIER environment.
func Parse(prop string) *Opts {
	o := &Opts{Start: time.Now()}
	tier := os.Getenv("VERIF_TIER")
	if tier == "" {
		tier = "quick"
	}
	seed := int64(1)
	if s := os.Getenv("VERIF_SEED"); s != "" {
		if v, err := strconv.ParseInt(s, 10, 64); err == nil {
			seed = v
		}
	}
	flag.StringVar(&o.Tier, "tier", tier, "quick|thorough")
	flag.Int64Var(&o.Seed, "seed", seed, "PRNG seed")
	root := Root()
	flag.StringVar(&o.Evidence, "evidence", filepath.Join(root, "evidence", prop+".json"), "evidence file")
	flag.StringVar(&o.Replays, "replays", filepath.Join(root, "replays"), "witness directory")
	flag.StringVar(&o.Work, "work", "", "scratch directory")
	flag.StringVar(&o.Replay, "replay", "", "witness file to replay")
	flag.Parse()
	if o.Tier != "quick" && o.Tier != "thorough" {
		o.Tier = "quick"
	}
	if o.Work == "" {
		base := "/dev/shm"
		if st, err := os.Stat(base); err != nil || !st.IsDir() {
			base = filepath.Join(Root(), ".work")
		}
		o.Work = filepath.Join(base, fmt.Sprintf("rgverif-%s-%d", strings.ToLower(prop), os.Getpid())) // lower case: the server lower-cases its logdir setting
	}
	_ = os.MkdirAll(o.Work, 0o755)
	_ = os.MkdirAll(o.Replays, 0o755)
	return o
}

// Root is the directory of the verification tree (VERIF_ROOT, default /verif).
func Root() string {
	if r := os.Getenv("VERIF_ROOT"); r != "" {
		return r
	}
	return "/verif"
}

// Repo is the repository under test (RG_REPO, default /repo).
func Repo() string {
	if r := os.Getenv("RG_REPO"); r != "" {
		return r
	}
	return "/repo"
}

// Thorough reports whether the thorough tier was requested.
func (o *Opts) Thorough() bool { return o.Tier == "thorough" }

// Pick returns q for the quick tier and t for the thorough tier.
func (o *Opts) Pick(q, t int) int {
	if o.Thorough() {
		return t
	}
	return q
}

// Elapsed is the wall time since Parse.
func (o *Opts) Elapsed() float64 { return time.Since(o.Start).Seconds() }

// Cleanup removes the scratch directory.
func (o *Opts) Cleanup() {
	if os.Getenv("VERIF_KEEP") != "" {
		return // debugging: the scratch directory stays
	}
	_ = os.RemoveAll(o.Work)
}

// Violation prints the verdict line the harness greps for.
func Violation(prop, replay string) {
	fmt.Printf("VIOLATION property=%s replay=%s\n", prop, replay)
}

// Known prints a known-finding line.
func Known(prop, what string) {
	fmt.Printf("KNOWN-FINDING: property=%s %s\n", prop, what)
}

// Inconclusive prints the inconclusive line.
func Inconclusive(prop, why string) {
	fmt.Printf("INCONCLUSIVE property=%s %s\n", prop, why)
}
