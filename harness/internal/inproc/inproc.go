//go:build verif

// Package inproc links the real RedisGO packages (built with -tags verif) and
// drives them in-process through server.Manager.ExecCommand, exactly the entry
// point the connection handler uses.
package inproc

import (
	"context"
	"fmt"
	"net"
	"os"
	"runtime/debug"
	"strings"
	"sync"
	"time"

	"github.com/innovationb1ue/RedisGO/config"
	"github.com/innovationb1ue/RedisGO/logger"
	"github.com/innovationb1ue/RedisGO/memdb"
	"github.com/innovationb1ue/RedisGO/resp"
	"github.com/innovationb1ue/RedisGO/server"

	"rgverif/internal/model"
	"rgverif/internal/respc"
)

var setupOnce sync.Once

// Cfg is the process-wide configuration.
var Cfg *config.Config

// Setup initialises the process-wide pieces (config, logger, command table).
func Setup(shardNum, databases int, logDir string) {
	setupOnce.Do(func() {
		_ = os.MkdirAll(logDir, 0o755)
		Cfg = &config.Config{ShardNum: shardNum, ChanBufferSize: 10, LogDir: logDir, LogLevel: "panic", Databases: databases, Host: "127.0.0.1"}
		config.Configures = Cfg
		if err := logger.SetUp(Cfg); err != nil {
			panic(err)
		}
		logger.Disable()
		memdb.RegisterKeyCommands()
		memdb.RegisterStringCommands()
		memdb.RegisterListCommands()
		memdb.RegisterSetCommands()
		memdb.RegisterHashCommands()
		memdb.RegisterPubSubCommands()
		memdb.RegisterSortedSetCommands()
		memdb.RegisterStreamCommands()
		memdb.RegisterRaftCommand()
	})
}

// Commands returns the registered command names without the verif.* ones.
func Commands() []string {
	out := []string{"select"} // handled by the Manager itself, before the command table
	for name := range memdb.CmdTable {
		if !strings.HasPrefix(name, "verif.") {
			out = append(out, name)
		}
	}
	return out
}

// Inst is one server instance (Manager with its databases).
type Inst struct {
	Mgr  *server.Manager
	Ctx  context.Context
	Stop context.CancelFunc
}

// New creates a fresh instance.
func New() *Inst {
	ctx, cancel := context.WithCancel(context.Background())
	return &Inst{Mgr: server.NewManager(Cfg), Ctx: ctx, Stop: cancel}
}

// Result is the outcome of one Exec.
type Result struct {
	V        respc.Value // structural conversion of the returned RedisData
	Raw      []byte      // wire bytes the handler would write
	NilReply bool        // executor returned nil (handler writes -unknown error)
	Panic    string      // non-empty: the executor panicked (value + top frames)
}

// Conv converts a RedisData structurally.
func Conv(d resp.RedisData) respc.Value {
	switch t := d.(type) {
	case *resp.StringData:
		return respc.Simple(t.Data())
	case *resp.BulkData:
		if t.Data() == nil {
			return respc.NilBulk()
		}
		return respc.Bulk(t.Data())
	case *resp.IntData:
		return respc.Int(t.Data())
	case *resp.ErrorData:
		return respc.Err(t.Error())
	case *resp.ArrayData:
		if t.Data() == nil {
			return respc.NilArr()
		}
		arr := make([]respc.Value, 0, len(t.Data()))
		for _, e := range t.Data() {
			arr = append(arr, Conv(e))
		}
		return respc.Arr(arr...)
	case *resp.PlainData:
		return respc.Value{Kind: '?', Str: []byte(t.Data())}
	}
	return respc.Value{Kind: '?'}
}

// Exec runs one command through Manager.ExecCommand under recover.
func (in *Inst) Exec(cmd [][]byte, conn net.Conn) (r Result) {
	defer func() {
		if p := recover(); p != nil {
			st := string(debug.Stack())
			r.Panic = fmt.Sprintf("%v\n%s", p, TopFrames(st, 6))
		}
	}()
	res := in.Mgr.ExecCommand(in.Ctx, cmd, conn)
	if res == nil {
		r.NilReply = true
		r.V = respc.Err("unknown error")
		r.Raw = r.V.Encode()
		return r
	}
	r.V = Conv(res)
	r.Raw = res.ToBytes()
	return r
}

// TopFrames extracts the first n first-party frames of a stack dump.
func TopFrames(stack string, n int) string {
	var out []string
	lines := strings.Split(stack, "\n")
	for i := 0; i+1 < len(lines) && len(out) < n; i++ {
		l := lines[i]
		if strings.Contains(l, "innovationb1ue/RedisGO/") && !strings.HasPrefix(l, "\t") {
			loc := strings.TrimSpace(lines[i+1])
			if j := strings.Index(loc, " +0x"); j > 0 {
				loc = loc[:j]
			}
			fn := l
			if j := strings.LastIndex(fn, "("); j > 0 {
				fn = fn[:j]
			}
			if j := strings.LastIndex(fn, "/"); j >= 0 {
				fn = fn[j+1:]
			}
			if j := strings.LastIndex(loc, "/RedisGO/"); j >= 0 {
				loc = loc[j+len("/RedisGO/"):]
			} else if j := strings.LastIndex(loc, "/repo/"); j >= 0 {
				loc = loc[j+len("/repo/"):]
			}
			out = append(out, fn+" "+loc)
		}
	}
	return strings.Join(out, "\n")
}

// Entries converts an implementation dump to model entries.
func Entries(d []memdb.VerifEntry) []model.Entry {
	out := make([]model.Entry, 0, len(d))
	for _, e := range d {
		m := model.Entry{Key: string(e.Key), Type: e.Type}
		if e.Deadline != 0 {
			m.HasDead, m.Dmin, m.Dmax = true, e.Deadline, e.Deadline
		}
		switch e.Type {
		case "string":
			m.Str = e.Str
		case "list":
			m.List = e.List
		case "set":
			for _, s := range e.Set {
				m.Set = append(m.Set, string(s))
			}
		case "hash":
			for _, fv := range e.Hash {
				m.Hash = append(m.Hash, [2]string{string(fv[0]), string(fv[1])})
			}
		case "zset":
			for _, z := range e.ZSet {
				m.ZSet = append(m.ZSet, model.ZMember{Member: string(z.Member), Score: z.Score})
			}
		case "stream":
			for _, x := range e.Stream {
				id, ok := parseID(x.ID)
				if !ok {
					m.Type = "stream?" + x.ID
				}
				m.Stream = append(m.Stream, model.XEntry{ID: id, Fields: x.Fields})
			}
		}
		out = append(out, m)
	}
	return out
}

func parseID(s string) (model.XID, bool) {
	var ms, seq uint64
	if _, err := fmt.Sscanf(s, "%d-%d", &ms, &seq); err != nil {
		return model.XID{}, false
	}
	return model.XID{Ms: ms, Seq: seq}, true
}

// Dump returns the current database of the manager as model entries.
func (in *Inst) Dump() []model.Entry { return Entries(in.Mgr.CurrentDB.VerifDump()) }

// ForceDead puts the given keys into the dead-but-not-yet-reaped state (deadline one second in the past, no timer).
func (in *Inst) ForceDead(keys ...string) {
	for _, k := range keys {
		in.Mgr.CurrentDB.VerifForceDeadline(k, time.Now().Unix()-1)
	}
}

// Check runs the structural self-check of the current database.
func (in *Inst) Check() []string { return in.Mgr.CurrentDB.VerifCheck() }

// Held returns the stripes that cannot be try-locked.
// A stripe held by a goroutine the server itself started (a TTL timer reaping
// a key) is released within microseconds; only a stripe that stays held over
// repeated sweeps is reported.
func (in *Inst) Held() []int {
	var held []int
	for try := 0; try < 200; try++ {
		held = in.Mgr.CurrentDB.VerifStripesFree()
		if len(held) == 0 {
			return nil
		}
		time.Sleep(time.Millisecond)
	}
	return held
}
