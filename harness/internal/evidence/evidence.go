// Package evidence writes /verif/evidence/<id>.json files that conform to
// /root/.vp/EVIDENCE.schema.json.
package evidence

import (
	"encoding/json"
	"os"
	"path/filepath"
)

// Evidence is one evidence file.
type Evidence struct {
	PropertyID  string         `json:"property_id"`
	Tier        string         `json:"tier"`
	Seed        int64          `json:"seed"`
	Level       string         `json:"level"`
	Coverage    map[string]any `json:"coverage"`
	Assumptions []string       `json:"assumptions,omitempty"`
	WallS       float64        `json:"wall_s"`
	Violations  int            `json:"violations"`
}

// Write stores e atomically at path.
func Write(path string, e *Evidence) error {
	if e.Coverage == nil {
		e.Coverage = map[string]any{}
	}
	if err := os.MkdirAll(filepath.Dir(path), 0o755); err != nil {
		return err
	}
	b, err := json.MarshalIndent(e, "", " ")
	if err != nil {
		return err
	}
	tmp := path + ".tmp"
	if err := os.WriteFile(tmp, append(b, '\n'), 0o644); err != nil {
		return err
	}
	return os.Rename(tmp, path)
}
