// Package findings loads /verif/known_findings.json and matches observed
// divergences against the entries whose status is "known". Entries with
// status "fixed" only document a repaired defect and suppress nothing.
// The file is never written at run time.
package findings

import (
	"encoding/json"
	"os"
	"regexp"
)

// Finding is one entry of the known-findings file.
type Finding struct {
	ID       string         `json:"id"`
	Property string         `json:"property"`
	Status   string         `json:"status"` // known | fixed
	Matcher  string         `json:"matcher"`
	Params   map[string]any `json:"params,omitempty"`
	What     string         `json:"what"`
	Commit   string         `json:"commit,omitempty"`
	Witness  any            `json:"witness,omitempty"`
	re       *regexp.Regexp
}

// File is the known-findings file.
type File struct {
	Findings []*Finding `json:"findings"`
}

// DefaultPath is the committed known-findings file.
var DefaultPath = func() string {
	if r := os.Getenv("VERIF_ROOT"); r != "" {
		return r + "/known_findings.json"
	}
	return "/verif/known_findings.json"
}()

// Load reads the file; a missing file is an empty list.
func Load(path string) (*File, error) {
	f := &File{}
	b, err := os.ReadFile(path)
	if err != nil {
		if os.IsNotExist(err) {
			return f, nil
		}
		return nil, err
	}
	if err := json.Unmarshal(b, f); err != nil {
		return nil, err
	}
	for _, k := range f.Findings {
		if k.Matcher == "sig_regex" {
			if s, ok := k.Params["regex"].(string); ok {
				re, err := regexp.Compile(s)
				if err != nil {
					return nil, err
				}
				k.re = re
			}
		}
	}
	return f, nil
}

// MatchSig returns the known entry of prop whose sig_regex matches sig.
func (f *File) MatchSig(prop, sig string) *Finding {
	if f == nil {
		return nil
	}
	for _, k := range f.Findings {
		if k.Status == "known" && k.Property == prop && k.Matcher == "sig_regex" && k.re != nil && k.re.MatchString(sig) {
			return k
		}
	}
	return nil
}

// Known returns the known (not fixed) entries of a property.
func (f *File) Known(prop string) []*Finding {
	var out []*Finding
	if f == nil {
		return out
	}
	for _, k := range f.Findings {
		if k.Status == "known" && k.Property == prop {
			out = append(out, k)
		}
	}
	return out
}
