// Package gen holds the seeded program generators: hostile key/value
// alphabets and per-family command mixes. Content is a function of the PRNG
// only, never of time.
package gen

import (
	"math/rand"
	"strconv"
	"strings"
)

// Cmd is one command (argv).
type Cmd = [][]byte

// G generates commands for one program.
type G struct {
	R    *rand.Rand
	Keys []string // key pool of this program
	// Hostile draws payloads (values, elements, members, fields) mostly from byte strings that
	// break the reply framing unless they are sent as bulk strings (C03)
	Hostile bool
	// Cluster draws payloads mostly from byte strings a lossy re-encoding would damage (C14)
	Cluster bool
}

var keyAlphabet = []string{"k", "K", "Foo", "foo", "", "a b", "k\r\n", "\x00\xff", strings.Repeat("L", 200), "kk", "z1", "*", "a?c", "[x]"}

var strValues = []string{"", "0", "-1", "1", "9223372036854775807", "-9223372036854775808", "1e3", "3.0e-2", " 1", "abc",
	"a\r\nb", "\x00", "10", "2.5", "-0.5", "9223372036854775806", "+OK", "hello world", "\xff\xfe", "007", "+5", "-0", "12345678901234567890", "1.5e300", "nan", "inf"}

var listElems = []string{"a", "b", "c", "a", "b", "", "x\r\ny", "a"}
var hashFields = []string{"", "0", "f", "F", "a b", "\r\n", "g", "h"}
var hashValues = []string{"", "0", "f", "-0", "1e2", "9223372036854775807", "-9223372036854775808", "5", "2.5", "abc", "\r\n", "-7", "3"}
var setMembers = []string{"a", "b", "c", "d", "", "x\r\ny", "A", "e", "1", "2"}
var zMembers = []string{"a", "b", "c", "d", "e", "f", "g", "h", "A", "", "m\r\nn", "zz"}
var zScores = []string{"0", "-0", "1", "1", "1", "2", "-1", "1.5", "1e10", "-1e-3", "+inf", "-inf", "3", "4", "5", "6", "7", "2", "inf", "10", "nan", "abc", ""}
var intArgs = []string{"0", "1", "-1", "2", "-2", "3", "5", "100", "-100", "2147483648", "-2147483648", "9223372036854775807", "-9223372036854775808", "x", "", "1.0", "10"}

// New returns a generator with a fresh key pool.
func New(r *rand.Rand) *G {
	g := &G{R: r}
	n := 4 + r.Intn(3)
	perm := r.Perm(len(keyAlphabet))
	for i := 0; i < n; i++ {
		g.Keys = append(g.Keys, keyAlphabet[perm[i]])
	}
	return g
}

// hostilePayloads break the framing of any reply that does not send payloads as bulk strings.
var hostilePayloads = []string{"a\r\nb", "\r\n", "+OK", "-ERR x", "$-1", ":1", "", "\x00", "x\ny", "*2\r\n$1\r\na", "a\r\r\n\nb", "c\rd", "\n\r", "e\r\n\r\n+f"}

// lineBreakers are CR/LF arrangements aimed at code that cleans a line before sending it (an error text that echoes
// a request argument): nested, repeated, lone and reversed terminators, each followed by something reply-shaped.
var lineBreakers = []string{"a\r\n+b", "a\r\r\n\n+b", "a\n+b", "a\r+b", "a\n\r+b", "a\r\n\r\n:1", "\r\n\r\n", "a\r\r\r\n\n\n$-1", "a\r\n\n+b", "\r\r\n\n", "a\r \n+b"}

// aliasingSeq: several values arrive in one command (one request buffer, one log entry), then one of them is grown or
// overwritten in place, then the others are read. Values must not share memory with their neighbours.
func (g *G) aliasingSeq() []Cmd {
	k := func(i int) string { return g.Keys[(g.R.Intn(len(g.Keys))+i)%len(g.Keys)] + ":al" + strconv.Itoa(i) }
	k1, k2, k3 := k(1), k(2), k(3)
	long := strings.Repeat("+grown", 1+g.R.Intn(4))
	switch g.R.Intn(4) {
	case 0:
		return []Cmd{c("MSET", k1, "hello", k2, "world", k3, "en"), c("APPEND", k1, long), c("MGET", k1, k2, k3)}
	case 1:
		return []Cmd{c("MSET", k1, "aaaa", k2, "bbbb", k3, "cccc"), c("SETRANGE", k2, "2", long), c("APPEND", k1, "xy"), c("MGET", k1, k2, k3)}
	case 2:
		return []Cmd{c("MSET", k1, "1", k2, "22", k3, "333"), c("APPEND", k2, long), c("INCR", k1), c("GET", k3), c("GET", k2), c("GET", k1)}
	}
	return []Cmd{c("SET", k1, "v"), c("MSET", k2, "p", k1, "q", k3, "r"), c("APPEND", k2, long), c("APPEND", k1, long), c("MGET", k3, k2, k1)}
}

// swapSeq returns a read, a change that leaves the size of the value as it was (one element out, another in), and the
// same read again with a count that covers the whole value: anything remembered about the value between two commands
// (a member list, a position, a length) and judged fresh by its size is stale by then.
func (g *G) swapSeq(family string) []Cmd {
	k := g.Key() + ":sw"
	if g.R.Intn(2) == 0 {
		// the same element goes out and comes back (a slot, a position or a cached member that was left behind for it
		// is live again), asked for several times because the replies may be random
		switch family {
		case FSet:
			return []Cmd{c("DEL", k), c("SADD", k, "a", "b", "c"), c("SRANDMEMBER", k, "3"), c("SREM", k, "b"), c("SRANDMEMBER", k, "3"), c("SADD", k, "b"),
				c("SRANDMEMBER", k, "3"), c("SRANDMEMBER", k, "2"), c("SRANDMEMBER", k, "5"), c("SRANDMEMBER", k, "3"), c("SPOP", k, "3"), c("SCARD", k)}
		case FHash:
			return []Cmd{c("DEL", k), c("HSET", k, "f", "1", "g", "2", "h", "3"), c("HRANDFIELD", k, "3"), c("HDEL", k, "g"), c("HRANDFIELD", k, "2"), c("HSET", k, "g", "4"),
				c("HRANDFIELD", k, "3"), c("HRANDFIELD", k, "3", "WITHVALUES"), c("HRANDFIELD", k, "2"), c("HRANDFIELD", k, "5"), c("HRANDFIELD", k, "3"), c("HDEL", k, "f"), c("HINCRBY", k, "f", "7"),
				c("HRANDFIELD", k, "3"), c("HRANDFIELD", k, "4", "WITHVALUES"), c("HKEYS", k), c("HLEN", k)}
		case FList:
			return []Cmd{c("DEL", k), c("RPUSH", k, "a", "b", "c", "d", "e", "f"), c("LINDEX", k, "-1"), c("RPOP", k), c("RPUSH", k, "x", "y"), c("LINDEX", k, "5"), c("LINDEX", k, "4"), c("LINDEX", k, "3"),
				c("LINDEX", k, "0"), c("LPOP", k), c("LPUSH", k, "p", "q"), c("LINDEX", k, "0"), c("LINDEX", k, "1"), c("LINDEX", k, "2"),
				c("LINDEX", k, "-1"), c("LMOVE", k, k, "RIGHT", "LEFT"), c("LINDEX", k, "-1"), c("LINDEX", k, "0"), c("LRANGE", k, "0", "-1")}
		case FZSet:
			return []Cmd{c("DEL", k), c("ZADD", k, "1", "a", "2", "b", "3", "c"), c("ZRANK", k, "b"), c("ZREM", k, "b"), c("ZRANGE", k, "0", "-1"), c("ZADD", k, "9", "b"),
				c("ZRANK", k, "b"), c("ZRANGE", k, "0", "-1", "WITHSCORES"), c("ZREM", k, "a"), c("ZADD", k, "2", "a"), c("ZRANK", k, "a"), c("ZRANGE", k, "0", "-1")}
		}
	}
	switch family {
	case FSet:
		out := []Cmd{c("DEL", k), c("SADD", k, "a", "b", "c"), c("SRANDMEMBER", k, "5"), c("SRANDMEMBER", k)}
		switch g.R.Intn(3) {
		case 0:
			out = append(out, c("SREM", k, "a"), c("SADD", k, "d"))
		case 1:
			out = append(out, c("SMOVE", k, k+"2", "b"), c("SADD", k, "e"))
		default:
			out = append(out, c("SREM", k, "c", "b"), c("SADD", k, "x", "y"))
		}
		return append(out, c("SRANDMEMBER", k, "10"), c("SRANDMEMBER", k, "-6"), c("SPOP", k, "10"), c("SCARD", k))
	case FHash:
		return []Cmd{c("DEL", k), c("HSET", k, "f", "1", "g", "2"), c("HRANDFIELD", k, "5", "WITHVALUES"), c("HKEYS", k), c("HDEL", k, "f"), c("HSET", k, "h", "3"),
			c("HRANDFIELD", k, "5", "WITHVALUES"), c("HRANDFIELD", k, "-4"), c("HKEYS", k), c("HVALS", k), c("HLEN", k)}
	case FList:
		return []Cmd{c("DEL", k), c("RPUSH", k, "a", "b", "c", "d"), c("LINDEX", k, "2"), c("LPOS", k, "c"), c("LPOP", k), c("RPUSH", k, "e"), c("LINDEX", k, "2"), c("LINDEX", k, "-1"),
			c("LPOS", k, "c"), c("RPOP", k), c("LPUSH", k, "z"), c("LINDEX", k, "1"), c("LRANGE", k, "0", "-1"), c("LLEN", k)}
	case FZSet:
		return []Cmd{c("DEL", k), c("ZADD", k, "1", "a", "2", "b", "3", "c"), c("ZRANGE", k, "0", "-1"), c("ZRANK", k, "c"), c("ZREM", k, "a"), c("ZADD", k, "0", "z"),
			c("ZRANGE", k, "0", "-1", "WITHSCORES"), c("ZRANK", k, "c"), c("ZRANK", k, "z"), c("ZADD", k, "5", "b"), c("ZRANGE", k, "-2", "-1"), c("ZRANK", k, "b")}
	case FStream:
		return []Cmd{c("DEL", k), c("XADD", k, "5-1", "f", "v"), c("XADD", k, "5-2", "f", "w"), c("XRANGE", k, "-", "+"), c("XADD", k, "MAXLEN", "2", "6-0", "g", "x"), c("XRANGE", k, "-", "+"),
			c("XRANGE", k, "5", "5"), c("XRANGE", k, "6", "+"), c("XADD", k, "MAXLEN", "2", "6-1", "g", "y"), c("XRANGE", k, "-", "6")}
	}
	return []Cmd{c("SET", k, "abcd"), c("GET", k), c("STRLEN", k), c("SETRANGE", k, "0", "wxyz"), c("GET", k), c("GETRANGE", k, "1", "2"), c("SET", k, "12"), c("INCR", k), c("SET", k, "99"), c("GET", k), c("STRLEN", k)}
}

// listingSeq: every way a key of the family comes into being and goes away again, each bracketed by commands that
// list or count keys (KEYS, EXISTS, TYPE): whatever the keyspace remembers about its own contents between two commands
// has to follow every one of these paths.
func (g *G) listingSeq(family string) []Cmd {
	p := g.Key() + ":ls"
	pat := p + "*"
	if strings.ContainsAny(p, "*?[]\\^-") {
		pat = "*" // the key itself would read as a pattern
	}
	var makers, removers [][]string
	switch family {
	case FList:
		makers = [][]string{{"LPUSH", p + "1", "a"}, {"RPUSH", p + "2", "a", "b"}, {"LMOVE", p + "2", p + "3", "LEFT", "RIGHT"}, {"RENAME", p + "1", p + "4"}}
		removers = [][]string{{"LPOP", p + "3"}, {"RPOP", p + "2"}, {"LREM", p + "4", "0", "a"}, {"DEL", p + "1", p + "2", p + "3", p + "4"}}
	case FSet:
		makers = [][]string{{"SADD", p + "1", "a", "b"}, {"SMOVE", p + "1", p + "2", "a"}, {"SUNIONSTORE", p + "3", p + "1", p + "2"}, {"SINTERSTORE", p + "4", p + "3", p + "1"}, {"SDIFFSTORE", p + "5", p + "3", p + "2"}}
		removers = [][]string{{"SREM", p + "2", "a"}, {"SPOP", p + "1", "5"}, {"SINTERSTORE", p + "3", p + "3", p + "none"}, {"SMOVE", p + "4", p + "5", "b"}, {"DEL", p + "4", p + "5"}}
	case FHash:
		makers = [][]string{{"HSET", p + "1", "f", "1"}, {"HSETNX", p + "2", "f", "1"}, {"HINCRBY", p + "3", "n", "2"}, {"HINCRBYFLOAT", p + "4", "n", "0.5"}, {"RENAME", p + "1", p + "5"}}
		removers = [][]string{{"HDEL", p + "2", "f"}, {"HDEL", p + "3", "n", "m"}, {"DEL", p + "4"}, {"DEL", p + "5", p + "1"}}
	case FZSet:
		makers = [][]string{{"ZADD", p + "1", "1", "a"}, {"ZADD", p + "2", "NX", "2", "b"}, {"ZADD", p + "3", "XX", "3", "c"}, {"ZADD", p + "4", "INCR", "1", "d"}}
		removers = [][]string{{"ZREM", p + "1", "a"}, {"ZREM", p + "2", "b", "x"}, {"DEL", p + "3", p + "4"}}
	case FStream:
		makers = [][]string{{"XADD", p + "1", "5-1", "f", "v"}, {"XADD", p + "2", "NOMKSTREAM", "5-1", "f", "v"}, {"XADD", p + "3", "MAXLEN", "1", "6-1", "f", "v"}, {"RENAME", p + "1", p + "4"}}
		removers = [][]string{{"DEL", p + "3"}, {"DEL", p + "4", p + "2"}}
	default:
		makers = [][]string{{"SETNX", p + "1", "v"}, {"SET", p + "2", "v", "NX"}, {"APPEND", p + "3", "v"}, {"INCR", p + "4"}, {"MSET", p + "5", "v", p + "6", "w"}, {"SETRANGE", p + "7", "2", "v"}, {"INCRBYFLOAT", p + "8", "1.5"},
			{"SETEX", p + "9", "100000", "v"}, {"DECRBY", p + "a", "3"}, {"RENAME", p + "1", p + "b"}, {"SET", p + "c", "v", "GET"}}
		removers = [][]string{{"DEL", p + "2"}, {"RENAME", p + "3", p + "4"}, {"SET", p + "5", "v", "EX", "0"}, {"DEL", p + "6", p + "7", p + "8", p + "9"}, {"DEL", p + "a", p + "b", p + "c", p + "4", p + "5"}}
	}
	out := []Cmd{c("KEYS", pat)}
	for _, m := range makers {
		out = append(out, c(m...), c("KEYS", pat), c("EXISTS", m[1]), c("TYPE", m[1]))
	}
	for _, r := range removers {
		out = append(out, c(r...), c("KEYS", pat), c("EXISTS", r[1]))
	}
	return append(out, c("KEYS", "*"))
}

// errorEcho returns a command that is refused with a message likely to quote one of its arguments.
func (g *G) errorEcho() Cmd {
	x := lineBreakers[g.R.Intn(len(lineBreakers))]
	k := g.Keys[g.R.Intn(len(g.Keys))]
	switch g.R.Intn(9) {
	case 0:
		return c(x) // unknown command name
	case 1:
		return c("SET", k, "v", x)
	case 2:
		return c("EXPIRE", k, x)
	case 3:
		return c("HRANDFIELD", k, "1", x)
	case 4:
		return c("RENAME", x, k)
	case 5:
		return c("INCRBY", k, x)
	case 6:
		return c("ZADD", k, x, "m")
	case 7:
		return c("XADD", k, x, "f", "v")
	}
	return c("LMOVE", k, k, x, "LEFT")
}

func isPayloadAlphabet(xs []string) bool {
	for _, a := range [][]string{strValues, listElems, hashFields, hashValues, setMembers, zMembers} {
		if len(xs) > 0 && len(a) > 0 && &xs[0] == &a[0] {
			return true
		}
	}
	return false
}

// clusterPayloads are the byte strings a lossy re-encoding of replicated commands would damage.
var clusterPayloads = []string{"", " ", "a b", " lead", "trail ", "a  b", "\t", "\r\n", "\"", "\\", "\u00e9", "\xff\xfe", "\x80", "\x00", "x y z", "  ", "a\nb", "{\"k\":1}", "SET", "null"}

func (g *G) pick(xs []string) string {
	if g.Hostile && isPayloadAlphabet(xs) && g.R.Intn(10) < 7 {
		return hostilePayloads[g.R.Intn(len(hostilePayloads))]
	}
	if g.Cluster && isPayloadAlphabet(xs) && g.R.Intn(10) < 6 {
		if g.R.Intn(60) == 0 {
			b := make([]byte, 64*1024)
			g.R.Read(b)
			return string(b)
		}
		return clusterPayloads[g.R.Intn(len(clusterPayloads))]
	}
	return xs[g.R.Intn(len(xs))]
}
func (g *G) Key() string           { return g.Keys[g.R.Intn(len(g.Keys))] }
func (g *G) chance(p float64) bool { return g.R.Float64() < p }

// caseMix randomly changes the letter case of an option/command word.
func (g *G) caseMix(w string) string {
	switch g.R.Intn(4) {
	case 0:
		return strings.ToLower(w)
	case 1:
		return strings.ToUpper(w)
	case 2:
		b := []byte(strings.ToLower(w))
		for i := range b {
			if g.R.Intn(2) == 0 && b[i] >= 'a' && b[i] <= 'z' {
				b[i] -= 32
			}
		}
		return string(b)
	}
	return w
}

func c(args ...string) Cmd {
	out := make(Cmd, len(args))
	for i, a := range args {
		out[i] = []byte(a)
	}
	return out
}

func (g *G) cmd(name string, args ...string) Cmd {
	return c(append([]string{g.caseMix(name)}, args...)...)
}

func (g *G) strVal() string {
	if g.chance(0.05) {
		b := make([]byte, 1024)
		g.R.Read(b)
		return string(b)
	}
	return g.pick(strValues)
}

func (g *G) index() string {
	if g.chance(0.8) {
		return strconv.Itoa(g.R.Intn(13) - 6)
	}
	return g.pick(intArgs)
}

func (g *G) bigTTL() string { return strconv.Itoa(100000 + g.R.Intn(100000)) }

// Prelude returns commands creating one key of every non-string type.
func (g *G) Prelude() []Cmd {
	ks := g.Keys
	var out []Cmd
	types := g.R.Perm(5)
	for i, t := range types {
		if i >= len(ks) {
			break
		}
		if g.chance(0.3) {
			continue
		}
		k := ks[i]
		switch t {
		case 0:
			out = append(out, c("RPUSH", k, "a", "b", "c"))
		case 1:
			out = append(out, c("SADD", k, "a", "b"))
		case 2:
			out = append(out, c("HSET", k, "f", "1", "g", "x"))
		case 3:
			out = append(out, c("ZADD", k, "1", "a", "2", "b"))
		case 4:
			out = append(out, c("XADD", k, "5-1", "f", "v"))
		}
	}
	return out
}

// Generic returns one generic key command (DEL, EXISTS, TYPE, RENAME, EXPIRE
// with far deadlines, TTL, PERSIST, KEYS).
func (g *G) Generic() Cmd {
	switch g.R.Intn(12) {
	case 0, 1:
		n := 1 + g.R.Intn(3)
		args := []string{}
		for i := 0; i < n; i++ {
			args = append(args, g.Key())
		}
		return g.cmd("DEL", args...)
	case 2:
		n := 1 + g.R.Intn(3)
		args := []string{}
		for i := 0; i < n; i++ {
			args = append(args, g.Key())
		}
		return g.cmd("EXISTS", args...)
	case 3, 4:
		return g.cmd("TYPE", g.Key())
	case 5:
		return g.cmd("RENAME", g.Key(), g.Key())
	case 6:
		args := []string{g.Key(), g.bigTTL()}
		if g.chance(0.4) {
			args = append(args, g.caseMix(g.pick([]string{"NX", "XX", "GT", "LT", "ZZ"})))
		}
		return g.cmd("EXPIRE", args...)
	case 7:
		return g.cmd("EXPIRE", g.Key(), g.pick([]string{"0", "-1", "x", ""}))
	case 8:
		return g.cmd("TTL", g.Key())
	case 9:
		return g.cmd("PERSIST", g.Key())
	case 10:
		if g.chance(0.4) {
			// a pattern made from one of the program's own keys: literal, literal through escapes only, one byte
			// replaced by ?, by a one-member class, by a class holding a star, or cut off before a star
			k := g.Key()
			esc := func(s string, every bool) string {
				var b strings.Builder
				for i := 0; i < len(s); i++ {
					if every || strings.IndexByte("*?[]\\^-", s[i]) >= 0 || i == len(s)/2 {
						b.WriteByte('\\')
					}
					b.WriteByte(s[i])
				}
				return b.String()
			}
			switch g.R.Intn(7) {
			case 0:
				return g.cmd("KEYS", esc(k, false))
			case 1:
				return g.cmd("KEYS", esc(k, true))
			case 2:
				if len(k) > 0 {
					i := g.R.Intn(len(k))
					return g.cmd("KEYS", esc(k[:i], false)+"?"+esc(k[i+1:], false))
				}
			case 3:
				if len(k) > 0 {
					i := g.R.Intn(len(k))
					return g.cmd("KEYS", esc(k[:i], false)+"[*"+esc(k[i:i+1], true)+"]"+esc(k[i+1:], false))
				}
			case 4:
				if len(k) > 0 {
					i := g.R.Intn(len(k))
					return g.cmd("KEYS", esc(k[:i], false)+"*")
				}
			case 5:
				if len(k) > 0 {
					i := g.R.Intn(len(k))
					return g.cmd("KEYS", "*"+esc(k[i:], false))
				}
			}
			return g.cmd("KEYS", esc(k, false)+"*")
		}
		return g.cmd("KEYS", g.pick([]string{"*", "k*", "?", "[kK]", "F*o", "*o", "a?b", "\\*", "[^k]*", "k\r*", "*\\b", "*?", "", "[a-z]*", "[x", "k\\"}))
	}
	if g.chance(0.5) {
		return g.cmd("PING")
	}
	return g.cmd("PING", g.strVal())
}

// WrongArity returns a command of the family with a random (often wrong) arity.
func (g *G) WrongArity(names []string) Cmd {
	n := g.R.Intn(6)
	args := []string{}
	for i := 0; i < n; i++ {
		switch g.R.Intn(3) {
		case 0:
			args = append(args, g.Key())
		case 1:
			args = append(args, g.pick(intArgs))
		default:
			args = append(args, g.pick(strValues))
		}
	}
	return g.cmd(g.pick(names), args...)
}

var stringCmds = []string{"SET", "GET", "MSET", "MGET", "SETNX", "SETEX", "APPEND", "STRLEN", "GETRANGE", "SETRANGE", "INCR", "DECR", "INCRBY", "DECRBY", "INCRBYFLOAT", "DEL", "EXISTS", "TYPE", "RENAME", "KEYS", "PING"}

// String returns one string/key command (C01).
func (g *G) String() Cmd {
	switch g.R.Intn(30) {
	case 0, 1, 2, 3:
		args := []string{g.Key(), g.strVal()}
		nopt := g.R.Intn(4)
		for i := 0; i < nopt; i++ {
			switch g.R.Intn(9) {
			case 0:
				args = append(args, g.caseMix("NX"))
			case 1:
				args = append(args, g.caseMix("XX"))
			case 2:
				args = append(args, g.caseMix("GET"))
			case 3:
				args = append(args, g.caseMix("KEEPTTL"))
			case 4:
				args = append(args, g.caseMix("EX"), g.pick([]string{g.bigTTL(), g.bigTTL(), "0", "-5", "x", ""}))
			case 5:
				args = append(args, g.caseMix("PX"), g.pick([]string{g.bigTTL() + "000", "0", "-5", "abc"}))
			case 6:
				args = append(args, g.caseMix("EXAT"), g.pick([]string{"99999999999", "99999999999", "0", "-1", "q"}))
			case 7:
				args = append(args, g.caseMix(g.pick([]string{"EX", "PX", "EXAT"})))
			case 8:
				args = append(args, g.pick([]string{"BOGUS", "", "n x"}))
			}
		}
		return g.cmd("SET", args...)
	case 4, 5, 6:
		return g.cmd("GET", g.Key())
	case 7:
		n := 1 + g.R.Intn(3)
		args := []string{}
		for i := 0; i < n; i++ {
			args = append(args, g.Key(), g.strVal())
		}
		if g.chance(0.1) {
			args = append(args, g.Key())
		}
		return g.cmd("MSET", args...)
	case 8:
		n := 1 + g.R.Intn(4)
		args := []string{}
		for i := 0; i < n; i++ {
			args = append(args, g.Key())
		}
		return g.cmd("MGET", args...)
	case 9:
		return g.cmd("SETNX", g.Key(), g.strVal())
	case 10:
		return g.cmd("SETEX", g.Key(), g.pick([]string{g.bigTTL(), g.bigTTL(), g.bigTTL(), "0", "-1", "abc", ""}), g.strVal())
	case 11, 12:
		return g.cmd("APPEND", g.Key(), g.strVal())
	case 13:
		return g.cmd("STRLEN", g.Key())
	case 14, 15:
		return g.cmd("GETRANGE", g.Key(), g.index(), g.index())
	case 16, 17:
		off := g.index()
		if g.chance(0.3) {
			off = strconv.Itoa(g.R.Intn(12))
		}
		if g.chance(0.005) {
			off = "536870912" // beyond the 512 MiB limit: must be refused without allocating
		}
		return g.cmd("SETRANGE", g.Key(), off, g.pick([]string{"", "X", "yz", "\x00\x01", "0"}))
	case 18:
		return g.cmd("INCR", g.Key())
	case 19:
		return g.cmd("DECR", g.Key())
	case 20:
		return g.cmd("INCRBY", g.Key(), g.pick(intArgs))
	case 21:
		return g.cmd("DECRBY", g.Key(), g.pick(intArgs))
	case 22, 23:
		return g.cmd("INCRBYFLOAT", g.Key(), g.pick([]string{"1", "0.5", "-2.25", "1e3", "3.0e-2", "nan", "inf", "-inf", "abc", "", "1e308", "0.1", "10", "-1"}))
	case 24:
		return g.WrongArity(stringCmds)
	}
	return g.Generic()
}

var listCmds = []string{"LPUSH", "RPUSH", "LPUSHX", "RPUSHX", "LPOP", "RPOP", "LLEN", "LINDEX", "LRANGE", "LSET", "LREM", "LTRIM", "LPOS", "LMOVE", "BLPOP", "BRPOP"}

func (g *G) elems() []string {
	n := 1 + g.R.Intn(4)
	out := make([]string, n)
	for i := range out {
		out[i] = g.pick(listElems)
	}
	return out
}

// List returns one list command (C09). Blocking pops use timeout 1 and are rare.
func (g *G) List() Cmd {
	switch g.R.Intn(40) {
	case 0, 1, 2, 3:
		return g.cmd("RPUSH", append([]string{g.Key()}, g.elems()...)...)
	case 4, 5, 6:
		return g.cmd("LPUSH", append([]string{g.Key()}, g.elems()...)...)
	case 7:
		return g.cmd("LPUSHX", append([]string{g.Key()}, g.elems()...)...)
	case 8:
		return g.cmd("RPUSHX", append([]string{g.Key()}, g.elems()...)...)
	case 9, 10, 11:
		name := g.pick([]string{"LPOP", "RPOP"})
		if g.chance(0.5) {
			return g.cmd(name, g.Key())
		}
		return g.cmd(name, g.Key(), g.pick([]string{"1", "2", "3", "100", "0", "-1", "x"}))
	case 12, 13:
		return g.cmd("LLEN", g.Key())
	case 14, 15:
		return g.cmd("LINDEX", g.Key(), g.index())
	case 16, 17, 18, 19:
		if g.chance(0.4) {
			return g.cmd("LRANGE", g.Key(), "0", "-1")
		}
		return g.cmd("LRANGE", g.Key(), g.index(), g.index())
	case 20, 21:
		return g.cmd("LSET", g.Key(), g.index(), g.pick(listElems))
	case 22, 23, 24, 25:
		return g.cmd("LREM", g.Key(), g.pick([]string{"0", "1", "-1", "2", "-2", "5", "-5", "x"}), g.pick(listElems))
	case 26, 27, 28:
		return g.cmd("LTRIM", g.Key(), g.index(), g.index())
	case 29, 30, 31, 32:
		args := []string{g.Key(), g.pick(listElems)}
		opts := g.R.Perm(3)
		n := g.R.Intn(4)
		for i := 0; i < n; i++ {
			switch opts[i] {
			case 0:
				args = append(args, g.caseMix("RANK"), g.pick([]string{"1", "2", "-1", "-2", "3", "0", "x"}))
			case 1:
				args = append(args, g.caseMix("COUNT"), g.pick([]string{"0", "1", "2", "3", "-1", "x"}))
			case 2:
				args = append(args, g.caseMix("MAXLEN"), g.pick([]string{"0", "1", "2", "3", "5", "-1", "x"}))
			}
		}
		if g.chance(0.05) {
			args = append(args, g.caseMix("RANK"))
		}
		return g.cmd("LPOS", args...)
	case 33, 34, 35:
		return g.cmd("LMOVE", g.Key(), g.Key(), g.caseMix(g.pick([]string{"LEFT", "RIGHT", "UP"})), g.caseMix(g.pick([]string{"LEFT", "RIGHT"})))
	case 36:
		// blocking pop that can be served at once or times out after 1 s (kept rare: it costs wall time)
		if !g.chance(0.15) {
			return g.cmd("LRANGE", g.Key(), "0", "-1")
		}
		name := g.pick([]string{"BLPOP", "BRPOP"})
		n := 1 + g.R.Intn(2)
		args := []string{}
		for i := 0; i < n; i++ {
			args = append(args, g.Key())
		}
		args = append(args, g.pick([]string{"1", "1", "1", "-1", "x"}))
		return g.cmd(name, args...)
	case 37:
		return g.WrongArity(listCmds)
	}
	return g.Generic()
}

var hashCmds = []string{"HSET", "HSETNX", "HGET", "HMGET", "HGETALL", "HKEYS", "HVALS", "HLEN", "HEXISTS", "HSTRLEN", "HDEL", "HINCRBY", "HINCRBYFLOAT", "HRANDFIELD"}

// Hash returns one hash command (C10).
func (g *G) Hash() Cmd {
	f := func() string { return g.pick(hashFields) }
	switch g.R.Intn(36) {
	case 0, 1, 2, 3, 4:
		n := 1 + g.R.Intn(3)
		args := []string{g.Key()}
		for i := 0; i < n; i++ {
			args = append(args, f(), g.pick(hashValues))
		}
		if g.chance(0.08) {
			args = append(args, f())
		}
		return g.cmd("HSET", args...)
	case 5, 6:
		return g.cmd("HSETNX", g.Key(), f(), g.pick(hashValues))
	case 7, 8, 9:
		return g.cmd("HGET", g.Key(), f())
	case 10, 11:
		n := 1 + g.R.Intn(3)
		args := []string{g.Key()}
		for i := 0; i < n; i++ {
			args = append(args, f())
		}
		return g.cmd("HMGET", args...)
	case 12, 13, 14:
		return g.cmd("HGETALL", g.Key())
	case 15:
		return g.cmd("HKEYS", g.Key())
	case 16:
		return g.cmd("HVALS", g.Key())
	case 17, 18:
		return g.cmd("HLEN", g.Key())
	case 19, 20:
		return g.cmd("HEXISTS", g.Key(), f())
	case 21, 22:
		return g.cmd("HSTRLEN", g.Key(), f())
	case 23, 24, 25:
		n := 1 + g.R.Intn(3)
		args := []string{g.Key()}
		for i := 0; i < n; i++ {
			args = append(args, f())
		}
		return g.cmd("HDEL", args...)
	case 26, 27, 28:
		return g.cmd("HINCRBY", g.Key(), f(), g.pick([]string{"1", "-1", "5", "9223372036854775807", "-9223372036854775808", "x", "", "1.5", "100"}))
	case 29, 30:
		return g.cmd("HINCRBYFLOAT", g.Key(), f(), g.pick([]string{"1", "0.5", "-2.25", "1e2", "nan", "inf", "abc", "", "1e308"}))
	case 31, 32, 33:
		args := []string{g.Key()}
		if g.chance(0.7) {
			args = append(args, g.pick([]string{"0", "1", "2", "5", "-1", "-3", "-7", "x", "100", "17592186044416", "4611686018427387903"}))
			if g.chance(0.5) {
				args = append(args, g.caseMix(g.pick([]string{"WITHVALUES", "WITHVALUES", "NOPE"})))
			}
		}
		return g.cmd("HRANDFIELD", args...)
	case 34:
		return g.WrongArity(hashCmds)
	}
	return g.Generic()
}

var setCmds = []string{"SADD", "SREM", "SISMEMBER", "SCARD", "SMEMBERS", "SMOVE", "SPOP", "SRANDMEMBER", "SUNION", "SINTER", "SDIFF", "SUNIONSTORE", "SINTERSTORE", "SDIFFSTORE"}

func (g *G) members() []string {
	n := 1 + g.R.Intn(4)
	out := make([]string, n)
	for i := range out {
		out[i] = g.pick(setMembers)
	}
	return out
}

func (g *G) keysN(lo, hi int) []string {
	n := lo + g.R.Intn(hi-lo+1)
	out := make([]string, n)
	for i := range out {
		out[i] = g.Key()
	}
	return out
}

// Set returns one set command (C11).
func (g *G) Set() Cmd {
	switch g.R.Intn(40) {
	case 0, 1, 2, 3, 4, 5:
		return g.cmd("SADD", append([]string{g.Key()}, g.members()...)...)
	case 6, 7, 8:
		return g.cmd("SREM", append([]string{g.Key()}, g.members()...)...)
	case 9, 10:
		return g.cmd("SISMEMBER", g.Key(), g.pick(setMembers))
	case 11, 12:
		return g.cmd("SCARD", g.Key())
	case 13, 14, 15:
		return g.cmd("SMEMBERS", g.Key())
	case 16, 17, 18:
		return g.cmd("SMOVE", g.Key(), g.Key(), g.pick(setMembers))
	case 19, 20, 21:
		if g.chance(0.5) {
			return g.cmd("SPOP", g.Key())
		}
		return g.cmd("SPOP", g.Key(), g.pick([]string{"0", "1", "2", "3", "100", "-1", "x", "17592186044416", "4611686018427387903"}))
	case 22, 23:
		if g.chance(0.4) {
			return g.cmd("SRANDMEMBER", g.Key())
		}
		return g.cmd("SRANDMEMBER", g.Key(), g.pick([]string{"0", "1", "2", "5", "-1", "-4", "x", "100", "17592186044416", "4611686018427387903"}))
	case 24, 25:
		return g.cmd("SUNION", g.keysN(1, 4)...)
	case 26, 27, 28:
		return g.cmd("SINTER", g.keysN(1, 4)...)
	case 29, 30:
		return g.cmd("SDIFF", g.keysN(1, 4)...)
	case 31, 32:
		return g.cmd("SUNIONSTORE", g.keysN(2, 5)...)
	case 33, 34, 35:
		return g.cmd("SINTERSTORE", g.keysN(2, 5)...)
	case 36, 37:
		return g.cmd("SDIFFSTORE", g.keysN(2, 5)...)
	case 38:
		return g.WrongArity(setCmds)
	}
	return g.Generic()
}

var zsetCmds = []string{"ZADD", "ZREM", "ZRANGE", "ZRANK"}

// ZSet returns one sorted-set command (C12).
func (g *G) ZSet(run *ZRun) Cmd {
	switch g.R.Intn(30) {
	case 0, 1, 2, 3, 4, 5, 6, 7:
		args := []string{g.Key()}
		nopt := 0
		if g.chance(0.5) {
			nopt = 1 + g.R.Intn(3)
		}
		incr := false
		for i := 0; i < nopt; i++ {
			o := g.pick([]string{"NX", "XX", "GT", "LT", "CH", "INCR", "CH"})
			if o == "INCR" {
				incr = true
			}
			args = append(args, g.caseMix(o))
		}
		n := 1 + g.R.Intn(3)
		if incr && g.chance(0.85) {
			n = 1
		}
		for i := 0; i < n; i++ {
			args = append(args, g.pick(zScores), g.pick(zMembers))
		}
		if g.chance(0.04) {
			args = append(args, g.pick(zScores))
		}
		return g.cmd("ZADD", args...)
	case 8, 9, 10, 11:
		// structured runs that force rotations: ascending / descending / zig-zag distinct scores
		return run.next(g)
	case 12, 13, 14, 15:
		n := 1 + g.R.Intn(3)
		args := []string{g.Key()}
		for i := 0; i < n; i++ {
			args = append(args, g.pick(zMembers))
		}
		return g.cmd("ZREM", args...)
	case 16, 17, 18, 19, 20, 21:
		args := []string{g.Key()}
		if g.chance(0.3) {
			args = append(args, "0", "-1")
		} else {
			args = append(args, g.index(), g.index())
		}
		if g.chance(0.4) {
			args = append(args, g.caseMix("REV"))
		}
		if g.chance(0.5) {
			args = append(args, g.caseMix("WITHSCORES"))
		}
		if g.chance(0.03) {
			args = append(args, "BOGUS")
		}
		return g.cmd("ZRANGE", args...)
	case 22, 23, 24, 25:
		return g.cmd("ZRANK", g.Key(), g.pick(zMembers))
	case 26:
		return g.WrongArity(zsetCmds)
	}
	return g.Generic()
}

// ZRun produces runs of ZADDs with distinct scores and then deletions of
// internal nodes, so that trees of depth >= 4 and every rotation case occur.
type ZRun struct {
	key   string
	queue []Cmd
}

func (z *ZRun) next(g *G) Cmd {
	if len(z.queue) == 0 {
		z.key = g.Key()
		n := 7 + g.R.Intn(34)
		mode := g.R.Intn(3)
		scores := make([]int, n)
		for i := range scores {
			switch mode {
			case 0:
				scores[i] = 100 + i
			case 1:
				scores[i] = 100 + n - i
			default:
				if i%2 == 0 {
					scores[i] = 100 + i
				} else {
					scores[i] = 100 + 2*n - i
				}
			}
		}
		for i, s := range scores {
			z.queue = append(z.queue, c("ZADD", z.key, strconv.Itoa(s), "r"+strconv.Itoa(i)))
		}
		// deletions: middle, first, last, random
		del := []int{n / 2, 0, n - 1, g.R.Intn(n), g.R.Intn(n), n / 3}
		for _, d := range del {
			z.queue = append(z.queue, c("ZREM", z.key, "r"+strconv.Itoa(d)))
		}
		z.queue = append(z.queue, c("ZRANGE", z.key, "0", "-1", "WITHSCORES"))
	}
	out := z.queue[0]
	z.queue = z.queue[1:]
	return out
}

var streamCmds = []string{"XADD", "XRANGE"}

// Stream returns one stream command (C18). last is a hint of the largest ms used so far.
func (g *G) Stream(st *StreamState) Cmd {
	switch g.R.Intn(20) {
	case 0, 1, 2, 3, 4, 5, 6, 7, 8:
		args := []string{g.Key()}
		if g.chance(0.15) {
			args = append(args, g.caseMix("NOMKSTREAM"))
		}
		if g.chance(0.35) {
			if g.chance(0.6) {
				args = append(args, g.caseMix("MAXLEN"))
				if g.chance(0.5) {
					args = append(args, g.pick([]string{"=", "=", "~"}))
				}
				args = append(args, g.pick([]string{"0", "1", "2", "3", "10", "-1", "x"}))
			} else {
				args = append(args, g.caseMix("MINID"))
				if g.chance(0.5) {
					args = append(args, g.pick([]string{"=", "=", "~"}))
				}
				args = append(args, g.pick([]string{"0", "5", "5-1", strconv.Itoa(st.Ms), strconv.Itoa(st.Ms) + "-1", strconv.Itoa(st.Ms + 100), "abc"}))
			}
			if g.chance(0.1) {
				args = append(args, g.caseMix("LIMIT"), "10")
			}
		}
		// id
		switch g.R.Intn(12) {
		case 0, 1, 2:
			args = append(args, "*")
		case 3, 4, 5:
			st.Ms += g.R.Intn(3)
			args = append(args, strconv.Itoa(st.Ms)+"-"+strconv.Itoa(g.R.Intn(4)))
		case 6:
			st.Ms += 1 + g.R.Intn(3)
			args = append(args, strconv.Itoa(st.Ms)+"-"+strconv.Itoa(g.R.Intn(3)))
		case 7:
			args = append(args, strconv.Itoa(st.Ms)+"-*")
		case 8:
			st.Ms += g.R.Intn(2)
			args = append(args, strconv.Itoa(st.Ms))
		case 9:
			args = append(args, g.pick([]string{"0-0", "0-1", "1-1", "18446744073709551615-18446744073709551615", "5", "abc", "1-2-3", "-1-1", ""}))
		case 10:
			args = append(args, strconv.Itoa(st.Ms-1-g.R.Intn(3))+"-5")
		case 11:
			args = append(args, strconv.Itoa(st.Ms)+"-0")
		}
		nf := 1 + g.R.Intn(3)
		for i := 0; i < nf; i++ {
			args = append(args, g.pick([]string{"f", "g", "", "a\r\nb", "-", "+"}), g.pick([]string{"v", "", "x\r\ny", "1", "+"}))
		}
		if g.chance(0.05) {
			args = append(args, "odd")
		}
		return g.cmd("XADD", args...)
	case 9, 10, 11, 12, 13, 14, 15:
		b := func() string {
			switch g.R.Intn(8) {
			case 0:
				return "-"
			case 1:
				return "+"
			case 2:
				return strconv.Itoa(st.Ms - g.R.Intn(4))
			case 3:
				return strconv.Itoa(st.Ms-g.R.Intn(4)) + "-" + strconv.Itoa(g.R.Intn(4))
			case 4:
				return "(" + strconv.Itoa(st.Ms-g.R.Intn(3)) + "-" + strconv.Itoa(g.R.Intn(3))
			case 5:
				return g.pick([]string{"0", "0-0", "abc", "", "5-x"})
			}
			return strconv.Itoa(st.Ms-g.R.Intn(6)) + "-" + strconv.Itoa(g.R.Intn(3))
		}
		args := []string{g.Key()}
		if g.chance(0.4) {
			args = append(args, "-", "+")
		} else {
			args = append(args, b(), b())
		}
		if g.chance(0.2) {
			args = append(args, g.caseMix("COUNT"), g.pick([]string{"0", "1", "2", "10", "x"}))
		}
		return g.cmd("XRANGE", args...)
	case 16:
		return g.WrongArity(streamCmds)
	}
	return g.Generic()
}

// StreamState carries the generator's idea of the current top ms.
type StreamState struct{ Ms int }

// Family names.
const (
	FString = "string"
	FList   = "list"
	FHash   = "hash"
	FSet    = "set"
	FZSet   = "zset"
	FStream = "stream"
)

// farTTL rewrites small positive time-to-live arguments into far-future ones, so
// that no verdict of the sequential families depends on the clock (C06 owns
// the behaviour around deadlines).
// DeadStep is the name of the pseudo-step "this key's deadline has passed, nothing has looked at it since".
const DeadStep = "@dead"

func farTTL(cmd Cmd) Cmd {
	if len(cmd) == 0 {
		return cmd
	}
	bump := func(i int, abs bool) {
		if i >= len(cmd) {
			return
		}
		n, err := strconv.ParseInt(string(cmd[i]), 10, 64)
		if err != nil || n <= 0 {
			return
		}
		if abs {
			if n < 90000000000 {
				cmd[i] = []byte("99999999999")
			}
			return
		}
		if n < 50000 {
			cmd[i] = []byte(strconv.FormatInt(100000+n, 10))
		} else if n > 100000000000 {
			cmd[i] = []byte("199999") // now+n would overflow: an unspecified corner that only adds noise
		}
	}
	switch strings.ToUpper(string(cmd[0])) {
	case "BLPOP", "BRPOP":
		// timeout 0 blocks for ever by definition: a single-client program must not issue it
		if n := len(cmd); n >= 2 {
			if f, err := strconv.ParseFloat(string(cmd[n-1]), 64); err == nil && (f == 0 || f > 1) {
				cmd[n-1] = []byte("1")
			}
		}
	case "HRANDFIELD", "SRANDMEMBER":
		// a negative count of -n legitimately returns n elements: keep the reference output small
		if len(cmd) >= 3 {
			if n, err := strconv.ParseInt(string(cmd[2]), 10, 64); err == nil && n < -1000 && n > -4611686018427387904 {
				cmd[2] = []byte("-7")
			}
		}
	case "SETEX", "EXPIRE":
		bump(2, false)
	case "SET":
		for i := 3; i < len(cmd); i++ {
			switch strings.ToUpper(string(cmd[i])) {
			case "EX":
				bump(i+1, false)
			case "PX":
				if i+1 < len(cmd) {
					if n, err := strconv.ParseInt(string(cmd[i+1]), 10, 64); err == nil && n > 0 && (n < 50000000 || n > 100000000000000) {
						cmd[i+1] = []byte(strconv.FormatInt(100000000+n%1000, 10))
					}
				}
			case "EXAT":
				bump(i+1, true)
			}
		}
	}
	return cmd
}

// FMixed draws every step from a randomly chosen family, with frame-breaking payloads and keys (C03).
const FMixed = "mixed"

// FCluster mixes every family with arguments that a lossy re-encoding of replicated commands would damage (C14).
const FCluster = "cluster"

var hostileKeys = []string{"k\r\n", "a\r\nb", "+OK", "$-1", "\r\n", "k", "", ":1"}

// Program generates one program of the family: optional prelude and steps.
func Program(r *rand.Rand, family string, maxSteps int) []Cmd {
	g := New(r)
	if family == FCluster {
		g.Cluster = true
		g.Keys = nil
		ck := []string{"k", "a b", "", " ", "K", "k\r\n", "\xff\xfe", "\u00e9", "x  y", "tr "}
		for _, i := range r.Perm(len(ck))[:4] {
			g.Keys = append(g.Keys, ck[i])
		}
	}
	if family == FMixed {
		g.Hostile = true
		g.Keys = nil
		for _, i := range r.Perm(len(hostileKeys))[:4] {
			g.Keys = append(g.Keys, hostileKeys[i])
		}
	}
	var prog []Cmd
	if r.Intn(3) == 0 {
		prog = append(prog, g.Prelude()...)
	}
	n := 1 + r.Intn(maxSteps)
	zr := &ZRun{}
	st := &StreamState{Ms: 1000 + r.Intn(1000)}
	if family == FZSet || family == FStream {
		// fewer keys so that state accumulates
		if len(g.Keys) > 3 {
			g.Keys = g.Keys[:3]
		}
	}
	for i := 0; i < n; i++ {
		fam := family
		if family == FMixed && r.Intn(16) == 0 {
			prog = append(prog, g.errorEcho())
			continue
		}
		if family != FCluster && family != FMixed && r.Intn(40) == 0 {
			prog = append(prog, g.swapSeq(family)...)
			continue
		}
		if family != FCluster && family != FMixed && r.Intn(60) == 0 {
			prog = append(prog, g.listingSeq(family)...)
			continue
		}
		if family != FCluster && len(g.Keys) > 0 && r.Intn(24) == 0 {
			// not a command: the runner puts the key, if it exists, past its deadline without reaping it
			prog = append(prog, Cmd{[]byte(DeadStep), []byte(g.Keys[r.Intn(len(g.Keys))])})
			continue
		}
		if (family == FCluster || family == FString || family == FMixed) && r.Intn(20) == 0 {
			prog = append(prog, g.aliasingSeq()...)
			continue
		}
		if family == FMixed || family == FCluster {
			fam = []string{FString, FList, FHash, FSet, FZSet, FStream}[r.Intn(6)]
		}
		switch fam {
		case FString:
			prog = append(prog, g.String())
		case FList:
			prog = append(prog, g.List())
		case FHash:
			prog = append(prog, g.Hash())
		case FSet:
			prog = append(prog, g.Set())
		case FZSet:
			prog = append(prog, g.ZSet(zr))
		case FStream:
			prog = append(prog, g.Stream(st))
		}
	}
	for i := range prog {
		prog[i] = farTTL(prog[i])
	}
	return prog
}
