// Package super runs batches of a check in child processes of the same
// binary. Nothing in RedisGO recovers from a panic, so a panic in a goroutine
// the server starts, or a fatal error, ends the whole process: every batch
// journals each input before issuing it, and the supervisor turns an abnormal
// exit or a watchdog expiry into a witness.
package super

import (
	"bufio"
	"os"
	"os/exec"
	"path/filepath"
	"runtime"
	"strconv"
	"strings"
	"sync"
	"syscall"
	"time"
)

// Batch is one child process run.
type Batch struct {
	Index    int
	Args     []string
	Out      string // result file the child writes
	Journal  string
	Log      string // stdout+stderr of the child
	Err      error
	TimedOut bool
	Result   []byte // content of Out (nil when missing)
}

// Died reports an abnormal end (non-zero exit or missing result) that is not a watchdog kill.
func (b *Batch) Died() bool { return !b.TimedOut && (b.Err != nil || b.Result == nil) }

// LastJournal returns the last line of the journal.
func (b *Batch) LastJournal() string { return LastLine(b.Journal) }

// LogTail returns the last n bytes of the child's output.
func (b *Batch) LogTail(n int) string { return Tail(b.Log, n) }

// CrashLine returns the first "panic:" / "fatal error:" line of the child's output.
func (b *Batch) CrashLine() string {
	for _, l := range strings.Split(b.LogTail(1<<20), "\n") {
		if strings.HasPrefix(l, "panic:") || strings.HasPrefix(l, "fatal error:") || strings.HasPrefix(l, "WARNING: DATA RACE") {
			return l
		}
	}
	return ""
}

// Run starts n children of os.Args[0] with args(i, out, journal) and waits.
// parallel = 0 means one per CPU.
func Run(work string, n, parallel int, limit time.Duration, env []string, args func(i int, out, journal string) []string) []*Batch {
	if parallel <= 0 {
		parallel = runtime.NumCPU()
	}
	_ = os.MkdirAll(work, 0o755)
	batches := make([]*Batch, n)
	for i := range batches {
		batches[i] = &Batch{Index: i,
			Out:     filepath.Join(work, "out-"+strconv.Itoa(i)+".json"),
			Journal: filepath.Join(work, "journal-"+strconv.Itoa(i)+".log"),
			Log:     filepath.Join(work, "worker-"+strconv.Itoa(i)+".log")}
		batches[i].Args = args(i, batches[i].Out, batches[i].Journal)
	}
	sem := make(chan struct{}, parallel)
	var wg sync.WaitGroup
	for _, b := range batches {
		wg.Add(1)
		go func(b *Batch) {
			defer wg.Done()
			sem <- struct{}{}
			defer func() { <-sem }()
			lf, err := os.Create(b.Log)
			if err != nil {
				b.Err = err
				return
			}
			defer lf.Close()
			cmd := exec.Command(os.Args[0], b.Args...)
			cmd.Stdout, cmd.Stderr = lf, lf
			cmd.Env = append(append(os.Environ(), "GOTRACEBACK=all"), env...)
			if err := cmd.Start(); err != nil {
				b.Err = err
				return
			}
			done := make(chan error, 1)
			go func() { done <- cmd.Wait() }()
			select {
			case b.Err = <-done:
			case <-time.After(limit):
				b.TimedOut = true
				_ = cmd.Process.Signal(syscall.SIGQUIT)
				select {
				case <-done:
				case <-time.After(15 * time.Second):
					_ = cmd.Process.Kill()
					<-done
				}
			}
			if raw, err := os.ReadFile(b.Out); err == nil {
				b.Result = raw
			}
		}(b)
	}
	wg.Wait()
	return batches
}

// LastLine returns the last non-empty line of a file.
func LastLine(path string) string {
	f, err := os.Open(path)
	if err != nil {
		return ""
	}
	defer f.Close()
	last := ""
	sc := bufio.NewScanner(f)
	sc.Buffer(make([]byte, 1<<20), 1<<28)
	for sc.Scan() {
		if len(sc.Text()) > 0 {
			last = sc.Text()
		}
	}
	return last
}

// Tail returns the last n bytes of a file.
func Tail(path string, n int) string {
	b, err := os.ReadFile(path)
	if err != nil {
		return ""
	}
	if len(b) > n {
		b = b[len(b)-n:]
	}
	return string(b)
}
