// Package procs manages real RedisGO server processes (the binary built from
// the repository with -tags verif): ports, per-node working directories,
// output capture, kill/restart.
package procs

import (
	"bytes"
	"fmt"
	"math/rand"
	"net"
	"os"
	"os/exec"
	"path/filepath"
	"strings"
	"sync"
	"sync/atomic"
	"syscall"
	"time"
)

// Bin returns the server binary to run (RG_SERVER_BIN / RG_SERVER_BIN_RACE, set by ./check).
func Bin(race bool) string {
	if race {
		if b := os.Getenv("RG_SERVER_BIN_RACE"); b != "" {
			return b
		}
	}
	return os.Getenv("RG_SERVER_BIN")
}

// FreePorts reserves n distinct free TCP ports on 127.0.0.1 (bind, then release). The ports are taken from
// 10000..32000, below the kernel's ephemeral range: a node that is killed and restarted must find its port free
// again, and an outgoing connection of some other process (or of the harness's own forwarders) can only occupy
// ephemeral ports.
func FreePorts(n int) []int {
	portMu.Lock()
	defer portMu.Unlock()
	if portRand == nil {
		portRand = rand.New(rand.NewSource(time.Now().UnixNano() ^ int64(os.Getpid())<<20))
	}
	var ls []net.Listener
	var ports []int
	for tries := 0; len(ports) < n && tries < 100000; tries++ {
		p := 10000 + portRand.Intn(22000)
		if portUsed[p] {
			continue
		}
		l, err := net.Listen("tcp", fmt.Sprintf("127.0.0.1:%d", p))
		if err != nil {
			continue
		}
		portUsed[p] = true
		ls = append(ls, l)
		ports = append(ports, p)
	}
	for _, l := range ls {
		l.Close()
	}
	return ports
}

var (
	portMu   sync.Mutex
	portRand *rand.Rand
	portUsed = map[int]bool{}
)

// ring keeps the last bytes written.
type ring struct {
	mu  sync.Mutex
	buf []byte
	max int
	all int64
}

func (r *ring) Write(p []byte) (int, error) {
	r.mu.Lock()
	r.all += int64(len(p))
	r.buf = append(r.buf, p...)
	if len(r.buf) > r.max {
		r.buf = append([]byte{}, r.buf[len(r.buf)-r.max:]...)
	}
	r.mu.Unlock()
	return len(p), nil
}

func (r *ring) String() string {
	r.mu.Lock()
	defer r.mu.Unlock()
	return string(r.buf)
}

// Opts configures one server process.
type Opts struct {
	Dir       string // working directory (created); config and logs live here
	Port      int
	Databases int
	ShardNum  int
	Race      bool
	Env       []string
	// cluster mode
	Cluster     bool
	NodeID      int
	PeerAddrs   string // comma separated http://host:port list as seen by this node
	RaftAddr    string // this node's own raft listen URL
	JoinCluster bool
	// ClusterExtraJSON is spliced into the cluster configuration object (e.g. `"Databases": 4`)
	ClusterExtraJSON string
	// KeepLog writes the full output to Dir/server.out as well
	KeepLog bool
	// ConfLayout chooses how the configuration file is laid out (what a user's file may look like):
	// 0 LF lines with a final newline, 1 LF lines and no newline after the last directive, 2 CRLF lines separated by
	// blank lines with no newline after the last directive (the layout of the shipped redis.conf), 3 the databases
	// directive first, comments and upper-case directive names in between. "databases" is the last directive in 0-2.
	ConfLayout int
}

// Server is one running process.
type Server struct {
	Opts   Opts
	Cmd    *exec.Cmd
	Addr   string
	out    *ring
	done   chan struct{}
	waitMu sync.Mutex
	err    error
	logf   *os.File
	killed int32
}

// Start writes the config files and starts the process; it returns once the port accepts connections.
func Start(o Opts) (*Server, error) {
	if o.Databases == 0 {
		o.Databases = 16
	}
	if o.ShardNum == 0 {
		o.ShardNum = 16
	}
	if err := os.MkdirAll(filepath.Join(o.Dir, "log"), 0o755); err != nil {
		return nil, err
	}
	lines := []string{"host 127.0.0.1", fmt.Sprintf("port %d", o.Port), "logdir " + filepath.Join(o.Dir, "log"), "loglevel error", fmt.Sprintf("shardnum %d", o.ShardNum), fmt.Sprintf("databases %d", o.Databases)}
	var conf string
	switch o.ConfLayout {
	case 1:
		conf = strings.Join(lines, "\n")
	case 2:
		conf = strings.Join(lines, "\r\n\r\n")
	case 3:
		conf = "# generated\n" + fmt.Sprintf("DATABASES %d", o.Databases) + "\n\n# network\n" + strings.Join(lines[:5], "\n") + "\n"
	default:
		conf = strings.Join(lines, "\n") + "\n"
	}
	confPath := filepath.Join(o.Dir, "redis.conf")
	if err := os.WriteFile(confPath, []byte(conf), 0o644); err != nil {
		return nil, err
	}
	args := []string{"-config", confPath}
	if o.Cluster {
		cc := fmt.Sprintf(`{"IsCluster": true, "PeerAddrs": %q, "RaftAddr": %q, "PeerIDs": "", "NodeID": %d, "KVPort": %d, "JoinCluster": %v}`,
			o.PeerAddrs, o.RaftAddr, o.NodeID, o.Port, o.JoinCluster)
		if o.ClusterExtraJSON != "" {
			cc = cc[:len(cc)-1] + ", " + o.ClusterExtraJSON + "}"
		}
		ccPath := filepath.Join(o.Dir, "cluster_config.json")
		if err := os.WriteFile(ccPath, []byte(cc), 0o644); err != nil {
			return nil, err
		}
		args = append(args, "-IsCluster", "-ClusterConfigPath", ccPath)
	}
	bin := Bin(o.Race)
	if bin == "" {
		return nil, fmt.Errorf("RG_SERVER_BIN not set")
	}
	cmd := exec.Command(bin, args...)
	cmd.Dir = o.Dir
	cmd.Env = append(append(os.Environ(), "GOTRACEBACK=all"), o.Env...)
	if o.Race {
		cmd.Env = append(cmd.Env, "GORACE=halt_on_error=0 log_path="+filepath.Join(o.Dir, "race"))
	}
	cmd.SysProcAttr = &syscall.SysProcAttr{Setpgid: true}
	s := &Server{Opts: o, Cmd: cmd, Addr: fmt.Sprintf("127.0.0.1:%d", o.Port), out: &ring{max: 512 << 10}, done: make(chan struct{})}
	if o.KeepLog {
		s.logf, _ = os.OpenFile(filepath.Join(o.Dir, "server.out"), os.O_CREATE|os.O_WRONLY|os.O_APPEND, 0o644)
	}
	var w = writerFunc(func(p []byte) (int, error) {
		if s.logf != nil {
			_, _ = s.logf.Write(p)
		}
		return s.out.Write(p)
	})
	cmd.Stdout, cmd.Stderr = w, w
	if err := cmd.Start(); err != nil {
		return nil, err
	}
	go func() {
		s.err = cmd.Wait()
		close(s.done)
	}()
	deadline := time.Now().Add(30 * time.Second)
	for time.Now().Before(deadline) {
		if s.Exited() {
			return s, fmt.Errorf("server exited during start-up: %v\n%s", s.err, tailStr(s.Output(), 2000))
		}
		c, err := net.DialTimeout("tcp", s.Addr, 200*time.Millisecond)
		if err == nil {
			c.Close()
			return s, nil
		}
		time.Sleep(20 * time.Millisecond)
	}
	s.Kill()
	return s, fmt.Errorf("server did not open its port within 30s\n%s", tailStr(s.Output(), 2000))
}

type writerFunc func(p []byte) (int, error)

func (f writerFunc) Write(p []byte) (int, error) { return f(p) }

func tailStr(s string, n int) string {
	if len(s) > n {
		return s[len(s)-n:]
	}
	return s
}

// Exited reports whether the process has ended.
func (s *Server) Exited() bool {
	select {
	case <-s.done:
		return true
	default:
		return false
	}
}

// WaitExit waits up to d for the process to end.
func (s *Server) WaitExit(d time.Duration) bool {
	select {
	case <-s.done:
		return true
	case <-time.After(d):
		return false
	}
}

// Output returns the captured tail of stdout+stderr.
func (s *Server) Output() string { return s.out.String() }

// BindError reports whether the process failed because a port was taken (never a crash verdict).
func (s *Server) BindError() bool {
	o := s.Output()
	return strings.Contains(o, "address already in use")
}

// CrashLine returns the first panic / fatal error line in the output, "" if none.
func (s *Server) CrashLine() string {
	for _, l := range strings.Split(s.Output(), "\n") {
		if strings.HasPrefix(l, "panic:") || strings.HasPrefix(l, "fatal error:") {
			return l
		}
	}
	return ""
}

// CrashBlock returns the panic / fatal error line and the following lines (the crashing goroutine's stack), at most n lines.
func (s *Server) CrashBlock(n int) string {
	lines := strings.Split(s.Output(), "\n")
	for i, l := range lines {
		if strings.HasPrefix(l, "panic:") || strings.HasPrefix(l, "fatal error:") {
			end := i + n
			if end > len(lines) {
				end = len(lines)
			}
			// stop at the end of the first goroutine's stack
			for j := i + 3; j < end; j++ {
				if lines[j] == "" {
					end = j
					break
				}
			}
			return strings.Join(lines[i:end], "\n")
		}
	}
	return ""
}

// RaceReports counts "WARNING: DATA RACE" blocks in the race log files and the output.
func (s *Server) RaceReports() (int, string) {
	n := strings.Count(s.Output(), "WARNING: DATA RACE")
	var sample string
	files, _ := filepath.Glob(filepath.Join(s.Opts.Dir, "race.*"))
	for _, f := range files {
		b, err := os.ReadFile(f)
		if err != nil {
			continue
		}
		c := bytes.Count(b, []byte("WARNING: DATA RACE"))
		n += c
		if c > 0 && sample == "" {
			sample = tailStr(string(b[:minInt(len(b), 6000)]), 6000)
		}
	}
	return n, sample
}

func minInt(a, b int) int {
	if a < b {
		return a
	}
	return b
}

// Signal sends a signal to the process.
func (s *Server) Signal(sig syscall.Signal) { _ = s.Cmd.Process.Signal(sig) }

// Killed reports whether the harness killed the process.
func (s *Server) Killed() bool { return atomic.LoadInt32(&s.killed) == 1 }

// Kill sends SIGKILL to the process group and waits.
func (s *Server) Kill() {
	atomic.StoreInt32(&s.killed, 1)
	if s.Cmd.Process != nil {
		_ = syscall.Kill(-s.Cmd.Process.Pid, syscall.SIGKILL)
		_ = s.Cmd.Process.Kill()
	}
	<-s.done
	if s.logf != nil {
		s.logf.Close()
	}
}

// Dump sends SIGQUIT, waits for the exit and returns the output (goroutine dump).
func (s *Server) Dump() string {
	s.Signal(syscall.SIGQUIT)
	s.WaitExit(10 * time.Second)
	if !s.Exited() {
		s.Kill()
	}
	return s.Output()
}
