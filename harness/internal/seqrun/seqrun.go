//go:build verif

// Package seqrun runs one single-client program step by step against a fresh
// in-process RedisGO instance and against the reference model, comparing the
// reply, the whole keyspace and the structural invariants after every step.
package seqrun

import (
	"bytes"
	"context"
	"fmt"
	"os"
	"regexp"
	"sort"
	"strconv"
	"strings"
	"time"

	"github.com/innovationb1ue/RedisGO/resp"

	"rgverif/internal/gen"
	"rgverif/internal/inproc"
	"rgverif/internal/model"
	"rgverif/internal/respc"
)

// Div is one observed divergence.
type Div struct {
	Kind   string   `json:"kind"` // reply | state | struct | panic | wedge | framing
	Prog   int      `json:"prog"`
	Step   int      `json:"step"`
	Cmd    []string `json:"cmd"`
	Want   string   `json:"want,omitempty"`
	Got    string   `json:"got,omitempty"`
	Detail string   `json:"detail,omitempty"`
	Sig    string   `json:"sig"`
	// Program is the (possibly minimised) program up to and including the step.
	Program [][]string `json:"program,omitempty"`
}

// Executor is the vehicle a program runs on: the in-process instance, or a real server over TCP.
type Executor interface {
	Exec(cmd [][]byte) inproc.Result
	Held() []int
	Check() []string
	Dump() []model.Entry
	Reset()
}

type inprocExec struct{ in *inproc.Inst }

func (e inprocExec) Exec(cmd [][]byte) inproc.Result { return e.in.Exec(cmd, nil) }
func (e inprocExec) Held() []int                     { return e.in.Held() }
func (e inprocExec) Check() []string                 { return e.in.Check() }
func (e inprocExec) Dump() []model.Entry             { return e.in.Dump() }
func (e inprocExec) Reset()                          {}

// ViaParser encodes the program as RESP and decodes it with the real resp.ParseStream, so that every
// argument lives in a buffer allocated by the parser. On any parser hiccup the original program is used.
func ViaParser(prog []gen.Cmd) []gen.Cmd {
	var buf bytes.Buffer
	n := 0
	for _, c := range prog {
		if len(c) == 0 {
			continue
		}
		buf.Write(respc.EncodeCommand(c))
		n++
	}
	ctx, cancel := context.WithCancel(context.Background())
	defer cancel()
	ch := resp.ParseStream(ctx, bytes.NewReader(buf.Bytes()))
	var out []gen.Cmd
	for pr := range ch {
		if pr.Err != nil {
			break
		}
		arr, ok := pr.Data.(*resp.ArrayData)
		if !ok {
			return prog
		}
		out = append(out, arr.ToCommand())
	}
	if len(out) != n {
		return prog
	}
	// ToCommand hands out the parser's own byte slices
	for i := range out {
		if len(out[i]) != len(prog[i]) {
			return prog
		}
	}
	return out
}

// Opts controls one run.
type Opts struct {
	Exec    Executor // nil: a fresh in-process instance
	Journal *os.File // every command is appended before it is executed
	Strict  bool     // also report framing-only mismatches (C03)
	Prog    int
}

// Stats is the coverage of one run.
type Stats struct {
	Steps       int
	Unspecified int
	Tuples      map[string]int // (command, option shape, key type before, reply kind)
	MaxDepth    int
	DeadSteps   int // keys put past their deadline between two commands
}

var optWords = map[string]bool{"NX": true, "XX": true, "GET": true, "EX": true, "PX": true, "EXAT": true, "KEEPTTL": true,
	"GT": true, "LT": true, "CH": true, "INCR": true, "REV": true, "WITHSCORES": true, "WITHVALUES": true, "RANK": true,
	"COUNT": true, "MAXLEN": true, "MINID": true, "NOMKSTREAM": true, "LIMIT": true, "LEFT": true, "RIGHT": true, "~": true, "=": true, "*": true}

// Shape is the arity and the sorted option words of a command.
func Shape(cmd gen.Cmd) string {
	var opts []string
	for _, a := range cmd[1:] {
		if len(a) <= 10 {
			u := strings.ToUpper(string(a))
			if optWords[u] {
				opts = append(opts, u)
			}
		}
	}
	sort.Strings(opts)
	return strconv.Itoa(len(cmd)) + ":" + strings.Join(opts, ",")
}

// Quote renders a command for witnesses.
func Quote(cmd gen.Cmd) []string {
	out := make([]string, len(cmd))
	for i, a := range cmd {
		if len(a) > 64 {
			out[i] = strconv.Quote(string(a[:48])) + fmt.Sprintf("...(%d bytes)", len(a))
		} else {
			out[i] = strconv.Quote(string(a))
		}
	}
	return out
}

// QuoteFull renders a command losslessly (Go-quoted arguments).
func QuoteFull(cmd gen.Cmd) []string {
	out := make([]string, len(cmd))
	for i, a := range cmd {
		out[i] = strconv.Quote(string(a))
	}
	return out
}

// Unquote is the inverse of QuoteFull.
func Unquote(q []string) (gen.Cmd, error) {
	out := make(gen.Cmd, len(q))
	for i, s := range q {
		u, err := strconv.Unquote(s)
		if err != nil {
			return nil, err
		}
		out[i] = []byte(u)
	}
	return out, nil
}

var (
	reQuoted = regexp.MustCompile(`"(?:[^"\\]|\\.)*"`)
	reNum    = regexp.MustCompile(`-?\d+(\.\d+)?(e[+-]?\d+)?`)
)

// Generalise strips literals from a message so that it can serve as a signature.
func Generalise(s string) string {
	s = reQuoted.ReplaceAllString(s, "S")
	s = reNum.ReplaceAllString(s, "N")
	if len(s) > 160 {
		s = s[:160]
	}
	return s
}

func wantClass(want string) string {
	parts := strings.Split(want, " | ")
	var cls []string
	for _, p := range parts {
		switch {
		case strings.HasPrefix(p, ":"):
			cls = append(cls, "int")
		case strings.HasPrefix(p, "+"):
			cls = append(cls, "status")
		case strings.HasPrefix(p, "bulk"):
			cls = append(cls, "bulk")
		case strings.HasPrefix(p, "nil"):
			cls = append(cls, "nil")
		case strings.HasPrefix(p, "empty array"):
			cls = append(cls, "emptyarray")
		case strings.HasPrefix(p, "array"):
			cls = append(cls, "array")
		case strings.HasPrefix(p, "WRONGTYPE"):
			cls = append(cls, "wrongtype")
		case strings.HasPrefix(p, "error"):
			cls = append(cls, "error")
		default:
			cls = append(cls, "other")
		}
	}
	return strings.Join(cls, "/")
}

func keyType(db *model.DB, cmd gen.Cmd) string {
	if len(cmd) < 2 {
		return "-"
	}
	if v := db.Keys[string(cmd[1])]; v != nil {
		return v.T
	}
	return "none"
}

func now() model.Time {
	t := time.Now()
	return model.Time{T0: t.Unix(), Ms0: t.UnixMilli()}
}

func closeBracket(tm model.Time) model.Time {
	t := time.Now()
	tm.T1, tm.Ms1 = t.Unix(), t.UnixMilli()
	return tm
}

// swapNilEmpty returns v with every null bulk replaced by an empty bulk (nilToEmpty) or the reverse.
func swapNilEmpty(v respc.Value, nilToEmpty bool) (respc.Value, bool) {
	switch v.Kind {
	case '$':
		if nilToEmpty && v.Nil {
			return respc.BulkS(""), true
		}
		if !nilToEmpty && !v.Nil && len(v.Str) == 0 {
			return respc.NilBulk(), true
		}
	case '*':
		if v.Nil {
			return v, false
		}
		changed := false
		out := respc.Value{Kind: '*', Arr: make([]respc.Value, len(v.Arr))}
		for i, e := range v.Arr {
			c := false
			out.Arr[i], c = swapNilEmpty(e, nilToEmpty)
			changed = changed || c
		}
		return out, changed
	}
	return v, false
}

// Run executes prog and returns the divergences (at most one per step; after
// a divergence the model is re-synchronised from the implementation so that
// the rest of the program still counts) and the coverage.
func Run(prog []gen.Cmd, o Opts) ([]Div, Stats) {
	st := Stats{Tuples: map[string]int{}}
	var in Executor
	if o.Exec != nil {
		in = o.Exec
		in.Reset()
	} else {
		ip := inproc.New()
		defer ip.Stop()
		in = inprocExec{ip}
	}
	// the arguments reach the executors in the buffers the real parser allocates (spare capacity, shared
	// backing arrays), exactly as on a connection
	prog = ViaParser(prog)
	db := model.NewDB()
	var divs []Div
	add := func(d Div) {
		d.Prog = o.Prog
		divs = append(divs, d)
	}
	prevBad := map[string]bool{}
	forced := map[string]bool{} // keys that were put past their deadline at some point of this program
	for i, cmd := range prog {
		if len(cmd) == 0 {
			continue
		}
		name := strings.ToUpper(string(cmd[0]))
		if !model.Known(name) {
			name = "(unknown command)" // the name may be any bytes; signatures stay one printable line
		}
		if o.Journal != nil {
			fmt.Fprintf(o.Journal, "P %d S %d %s\n", o.Prog, i, strings.Join(QuoteFull(cmd), " "))
		}
		if string(cmd[0]) == gen.DeadStep && len(cmd) == 2 {
			// the key's deadline has passed and nothing has reaped it yet: for every command that follows the key
			// does not exist. Over TCP, where the state cannot be forced, the key is deleted instead.
			if ip, ok := in.(inprocExec); ok {
				ip.in.ForceDead(string(cmd[1]))
			} else {
				in.Exec([][]byte{[]byte("DEL"), cmd[1]})
			}
			delete(db.Keys, string(cmd[1]))
			forced[string(cmd[1])] = true
			st.DeadSteps++
			continue
		}
		kt := keyType(db, cmd)
		tm := now()
		res := in.Exec(cmd)
		tm = closeBracket(tm)
		st.Steps++
		shape := Shape(cmd)
		if res.Panic != "" {
			top := strings.SplitN(res.Panic, "\n", 3)
			frame := ""
			if len(top) > 1 {
				if f := strings.Fields(top[1]); len(f) > 0 {
					frame = f[0]
				}
			}
			add(Div{Kind: "panic", Step: i, Cmd: Quote(cmd), Got: res.Panic,
				Sig: "panic|" + name + "|" + shape + "|" + frame})
			return divs, st // locks may be left held: the instance is discarded
		}
		if o.Strict && !res.NilReply {
			// the bytes the handler writes must be exactly one well-formed value that decodes to the structural reply
			vals, used, _ := respc.DecodeAll(res.Raw)
			same := len(vals) == 1 && (vals[0].Equal(res.V) || (vals[0].Kind == '-' && res.V.Kind == '-')) // error texts are free (and sanitised on the wire)
			if len(vals) != 1 || used != len(res.Raw) || !same {
				add(Div{Kind: "framing", Step: i, Cmd: Quote(cmd), Want: "one well-formed RESP value", Got: strconv.Quote(string(res.Raw)),
					Sig: "framing-wire|" + name + "|got=" + res.V.KindName()})
			}
		}
		var payloadOnly bool
		if o.Strict {
			// would the reply be the prescribed one if null bulks read as empty strings (or the reverse)? Then the
			// command did the right thing and a stored payload is mis-framed: an empty string decodes as "no value"
			if alt, changed := swapNilEmpty(res.V, true); changed && !db.Clone().Step(cmd, res.V, tm).OK && db.Clone().Step(cmd, alt, tm).OK {
				payloadOnly = true
			} else if alt, changed := swapNilEmpty(res.V, false); changed && !db.Clone().Step(cmd, res.V, tm).OK && db.Clone().Step(cmd, alt, tm).OK {
				payloadOnly = true
			}
		}
		out := db.Step(cmd, res.V, tm)
		if payloadOnly {
			add(Div{Kind: "framing", Step: i, Cmd: Quote(cmd), Want: out.Want, Got: res.V.String(), Detail: "the reply is the prescribed one except that an empty string and a null bulk are exchanged: the client does not decode the stored bytes",
				Sig: "framing-nil-vs-empty|" + name + "|got=" + res.V.KindName()})
		}
		st.Tuples[name+"|"+shape+"|"+kt+"|"+res.V.KindName()]++
		if out.Unspecified {
			st.Unspecified++
		}
		diverged := false
		if !out.OK {
			diverged = true
			add(Div{Kind: "reply", Step: i, Cmd: Quote(cmd), Want: out.Want, Got: res.V.String(),
				Sig: "reply|" + name + "|" + shape + "|key=" + kt + "|want=" + wantClass(out.Want) + "|got=" + res.V.KindName()})
		} else if o.Strict && !out.StrictOK {
			add(Div{Kind: "framing", Step: i, Cmd: Quote(cmd), Want: out.Want, Got: res.V.String(),
				Sig: "framing|" + name + "|want=" + wantClass(out.Want) + "|got=" + res.V.KindName()})
		}
		if held := in.Held(); len(held) > 0 {
			add(Div{Kind: "wedge", Step: i, Cmd: Quote(cmd), Detail: fmt.Sprintf("stripes still held after the command returned: %v", held),
				Sig: "wedge|" + name + "|" + shape})
			return divs, st
		}
		bad := in.Check()
		var fresh []string
		for _, b := range bad {
			if !prevBad[b] {
				fresh = append(fresh, b)
			}
		}
		prevBad = map[string]bool{}
		for _, b := range bad {
			prevBad[b] = true
		}
		if len(fresh) > 0 {
			// only inconsistencies this step introduced are attributed to it
			diverged = true
			add(Div{Kind: "struct", Step: i, Cmd: Quote(cmd), Detail: strings.Join(fresh, "; "),
				Sig: "struct|" + name + "|" + Generalise(fresh[0])})
		}
		impl := in.Dump()
		if impl == nil && o.Exec != nil {
			continue // the dump is unavailable on this vehicle for this state: replies remain the oracle
		}
		if len(forced) > 0 {
			// a key that is stored with a deadline in the past is dead, whether it has been reaped or not
			live := impl[:0]
			for _, e := range impl {
				if forced[e.Key] && e.HasDead && e.Dmax < tm.T0 {
					continue
				}
				live = append(live, e)
			}
			impl = live
		}
		if out.Unspecified {
			db.Load(impl)
			continue
		}
		want, _ := db.Dump(tm)
		if diffs := model.CompareDumps(want, impl); len(diffs) > 0 {
			if !diverged || !out.OK {
				// a state difference right after a reply mismatch is reported with it; alone it is its own finding
				if out.OK {
					add(Div{Kind: "state", Step: i, Cmd: Quote(cmd), Detail: strings.Join(diffs, "; "),
						Sig: "state|" + name + "|" + shape + "|key=" + kt + "|" + Generalise(diffs[0])})
				} else {
					divs[len(divs)-1].Detail = "state: " + strings.Join(diffs, "; ")
				}
			}
			db.Load(impl)
		}
	}
	return divs, st
}
