//go:build verif

package seqrun

import (
	"encoding/json"
	"time"

	"github.com/innovationb1ue/RedisGO/memdb"

	"rgverif/internal/inproc"
	"rgverif/internal/model"
	"rgverif/internal/procs"
	"rgverif/internal/respc"
)

// TCPExec runs programs against a real server process; the state is observed
// through the verif.dump / verif.check / verif.stripes commands of the verif build.
type TCPExec struct {
	C   *respc.Client
	Srv *procs.Server
	// Hung is set when a command got no reply within the client's timeout although the server process is alive;
	// HungDump is the server's goroutine dump taken at that moment
	Hung     bool
	HungDump string
}

// NewTCPExec starts a server in dir and connects to it.
func NewTCPExec(dir string) (*TCPExec, error) {
	var srv *procs.Server
	var err error
	for try := 0; try < 5; try++ {
		srv, err = procs.Start(procs.Opts{Dir: dir, Port: procs.FreePorts(1)[0], ShardNum: 8, Databases: 1})
		if err == nil {
			break
		}
	}
	if err != nil {
		return nil, err
	}
	c, err := respc.Dial(srv.Addr, 20*time.Second)
	if err != nil {
		srv.Kill()
		return nil, err
	}
	return &TCPExec{C: c, Srv: srv}, nil
}

// Close ends the connection and the server.
func (t *TCPExec) Close() {
	t.C.Close()
	t.Srv.Kill()
}

// Exec sends one command and reads its reply.
func (t *TCPExec) Exec(cmd [][]byte) inproc.Result {
	if t.Hung {
		return inproc.Result{Panic: "connection error: the server stopped answering earlier"}
	}
	v, err := t.C.DoB(cmd)
	if err != nil {
		if ne, ok := err.(interface{ Timeout() bool }); ok && ne.Timeout() && !t.Srv.Exited() {
			t.Hung = true
			t.HungDump = inproc.TopFrames(t.Srv.Dump(), 12)
		}
		return inproc.Result{Panic: "connection error: " + err.Error() + "\n" + t.Srv.CrashLine()}
	}
	return inproc.Result{V: v, Raw: v.Encode()}
}

// Held reports wedged stripes (the count only is available over TCP).
func (t *TCPExec) noteTimeout(err error) {
	if ne, ok := err.(interface{ Timeout() bool }); ok && ne.Timeout() && !t.Srv.Exited() && !t.Hung {
		t.Hung = true
		t.HungDump = inproc.TopFrames(t.Srv.Dump(), 12)
	}
}

func (t *TCPExec) Held() []int {
	if t.Hung {
		return nil
	}
	for try := 0; try < 100; try++ {
		v, err := t.C.Do("verif.stripes")
		if err != nil || v.Kind != ':' || v.Int == 0 {
			return nil
		}
		time.Sleep(2 * time.Millisecond)
	}
	return []int{-1}
}

// Check runs the structural self-check.
func (t *TCPExec) Check() []string {
	if t.Hung {
		return nil
	}
	v, err := t.C.Do("verif.check")
	if err != nil {
		t.noteTimeout(err)
	}
	if err != nil || v.Kind != '$' {
		return nil
	}
	var bad []string
	_ = json.Unmarshal(v.Str, &bad)
	return bad
}

// Dump returns the keyspace.
func (t *TCPExec) Dump() []model.Entry {
	if t.Hung {
		return nil
	}
	v, err := t.C.Do("verif.dump")
	if err != nil {
		t.noteTimeout(err)
	}
	if err != nil || v.Kind != '$' {
		return nil
	}
	var es []memdb.VerifEntry
	if json.Unmarshal(v.Str, &es) != nil {
		return nil
	}
	out := inproc.Entries(es)
	if out == nil {
		out = []model.Entry{}
	}
	return out
}

// Reset deletes every key.
func (t *TCPExec) Reset() {
	if t.Hung {
		return
	}
	v, err := t.C.Do("KEYS", "*")
	if err != nil {
		return
	}
	for _, k := range v.Arr {
		_, _ = t.C.DoB([][]byte{[]byte("DEL"), k.Str})
	}
}
