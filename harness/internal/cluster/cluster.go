// Package cluster runs real RedisGO node processes in cluster (Raft) mode
// on loopback. All peer traffic goes through harness-side TCP forwarders
// (node i's peer list names, for peer j, the forwarder port P(i->j) while its
// own RaftAddr is its real listener), so the nemesis can cut, delay and heal
// any directed link without privileges.
package cluster

import (
	"bufio"
	"bytes"
	"fmt"
	"io"
	"net"
	"net/http"
	"os"
	"path/filepath"
	"regexp"
	"sort"
	"strconv"
	"strings"
	"sync"
	"sync/atomic"
	"syscall"
	"time"

	"go.etcd.io/etcd/raft/v3/raftpb"

	"rgverif/internal/procs"
	"rgverif/internal/respc"
)

// link is one directed forwarder i -> j.
type link struct {
	from, to int
	ln       net.Listener
	target   string
	cut      int32
	delayMs  int32
	// lossyPost: stream requests are refused (the peers fall back to one POST per message) and every POST is
	// delivered to the target, but its response is dropped and the connection closed: the sender cannot know
	// whether the message arrived
	lossyPost int32
	mu        sync.Mutex
	conns     map[net.Conn]bool
	bytes     int64
	dropped   int64 // responses dropped in lossyPost mode
	refused   int64 // stream requests refused in lossyPost mode
	props     int64 // ... of which carried a forwarded proposal (raftpb.MsgProp)
}

func (l *link) serve() {
	for {
		c, err := l.ln.Accept()
		if err != nil {
			return
		}
		if atomic.LoadInt32(&l.cut) == 1 {
			c.Close()
			continue
		}
		go l.pipe(c)
	}
}

func (l *link) track(c net.Conn, add bool) {
	l.mu.Lock()
	if add {
		l.conns[c] = true
	} else {
		delete(l.conns, c)
	}
	l.mu.Unlock()
}

// lossy handles one incoming connection in lossyPost mode; it returns false if the connection is to be piped as usual.
// The stream that carries everything but appends is refused, so heartbeats, responses, votes and forwarded client
// commands travel as one POST each. A POST carrying a forwarded command (raftpb.MsgProp) is delivered, but its
// response is dropped and the connection ended; every other POST is answered normally.
func (l *link) lossy(a net.Conn, br *bufio.Reader) bool {
	var b net.Conn
	var bbr *bufio.Reader
	defer func() {
		if b != nil {
			b.Close()
		}
	}()
	for first := true; ; first = false {
		_ = a.SetReadDeadline(time.Now().Add(30 * time.Second))
		head, err := br.Peek(24)
		if err != nil && len(head) < 10 {
			a.Close()
			return true
		}
		switch {
		case bytes.HasPrefix(head, []byte("GET /raft/stream/message")):
			atomic.AddInt64(&l.refused, 1)
			a.Close()
			return true
		case bytes.HasPrefix(head, []byte("GET /raft/stream/")):
			if first {
				_ = a.SetReadDeadline(time.Time{})
				return false // the append stream: piped as it is
			}
			a.Close()
			return true
		}
		// any other request (a POST with one raft message, a probe): proxied request by request, so that requests
		// that share a keep-alive connection are all seen
		req, err := http.ReadRequest(br)
		if err != nil {
			a.Close()
			return true
		}
		body, _ := io.ReadAll(req.Body)
		req.Body = io.NopCloser(bytes.NewReader(body))
		req.ContentLength = int64(len(body))
		if b == nil {
			if b, err = net.DialTimeout("tcp", l.target, 2*time.Second); err != nil {
				a.Close()
				return true
			}
			bbr = bufio.NewReader(b)
		}
		_ = b.SetDeadline(time.Now().Add(10 * time.Second))
		if req.Write(b) != nil {
			a.Close()
			return true
		}
		resp, err := http.ReadResponse(bbr, req)
		if err != nil {
			a.Close()
			return true
		}
		var m raftpb.Message
		if req.Method == "POST" && m.Unmarshal(body) == nil && m.Type == raftpb.MsgProp {
			_, _ = io.Copy(io.Discard, resp.Body)
			resp.Body.Close()
			atomic.AddInt64(&l.dropped, 1)
			atomic.AddInt64(&l.props, 1)
			a.Close() // delivered; the response is not relayed: the connection just ends
			return true
		}
		_ = a.SetWriteDeadline(time.Now().Add(10 * time.Second))
		if resp.Write(a) != nil {
			a.Close()
			return true
		}
		if atomic.LoadInt32(&l.lossyPost) == 0 || atomic.LoadInt32(&l.cut) == 1 {
			a.Close() // the mode is over: the peer reconnects and is piped as usual
			return true
		}
	}
}

func (l *link) pipe(a0 net.Conn) {
	br := bufio.NewReaderSize(a0, 64*1024)
	if atomic.LoadInt32(&l.lossyPost) == 1 {
		if l.lossy(a0, br) {
			return
		}
	}
	a := &bufConn{Conn: a0, br: br}
	b, err := net.DialTimeout("tcp", l.target, 2*time.Second)
	if err != nil {
		a.Close()
		return
	}
	l.track(a, true)
	l.track(b, true)
	done := make(chan struct{}, 2)
	cp := func(dst, src net.Conn) {
		buf := make([]byte, 32*1024)
		for {
			n, err := src.Read(buf)
			if n > 0 {
				if d := atomic.LoadInt32(&l.delayMs); d > 0 {
					time.Sleep(time.Duration(d) * time.Millisecond)
				}
				if atomic.LoadInt32(&l.cut) == 1 {
					break
				}
				atomic.AddInt64(&l.bytes, int64(n))
				if _, werr := dst.Write(buf[:n]); werr != nil {
					break
				}
			}
			if err != nil {
				break
			}
		}
		done <- struct{}{}
	}
	go cp(b, a)
	go cp(a, b)
	<-done
	a.Close()
	b.Close()
	<-done
	l.track(a, false)
	l.track(b, false)
}

// bufConn reads through the buffer that was used to look at the first bytes.
type bufConn struct {
	net.Conn
	br *bufio.Reader
}

func (c *bufConn) Read(p []byte) (int, error) { return c.br.Read(p) }

func (l *link) setCut(cut bool) {
	if cut {
		atomic.StoreInt32(&l.cut, 1)
		l.mu.Lock()
		for c := range l.conns {
			c.Close()
		}
		l.mu.Unlock()
	} else {
		atomic.StoreInt32(&l.cut, 0)
	}
}

// Node is one cluster member.
type Node struct {
	ID          int
	Dir         string
	Port        int // client port
	RaftPort    int
	Srv         *procs.Server
	Env         []string
	Race        bool
	Join        bool
	peers       string
	bindRetries int32
}

// Addr is the client address.
func (n *Node) Addr() string { return fmt.Sprintf("127.0.0.1:%d", n.Port) }

// Cluster is a set of nodes plus the forwarder mesh.
type Cluster struct {
	Founders int // nodes 1..Founders form the initial configuration
	Dir      string
	Nodes    []*Node
	links    map[[2]int]*link
	Env      []string
	Race     bool
	// ExtraJSON is spliced into every node's cluster configuration object
	ExtraJSON string
}

// New lays out an n-node cluster under dir (nothing is started yet).
func New(dir string, n int, race bool, env []string) (*Cluster, error) {
	return NewSpare(dir, n, 0, race, env)
}

// NewSpare lays out n founding members plus `spare` nodes that are not part of the initial configuration: a spare
// node knows every peer, starts with JoinCluster and becomes a member only through a membership change (its URL for
// that change is JoinURL). Founders reach it through one shared forwarder (link 0 -> id).
func NewSpare(dir string, n, spare int, race bool, env []string) (*Cluster, error) {
	founders := n
	n += spare
	// snapshots are C08's subject: unless the caller sets a threshold, it is out of reach for the run
	hasSnap := false
	for _, e := range env {
		if strings.HasPrefix(e, "VERIF_SNAPCOUNT=") {
			hasSnap = true
		}
	}
	if !hasSnap {
		env = append(append([]string{}, env...), "VERIF_SNAPCOUNT=1000000000")
	}
	c := &Cluster{Dir: dir, links: map[[2]int]*link{}, Env: env, Race: race, Founders: founders}
	ports := procs.FreePorts(2 * n)
	for i := 1; i <= n; i++ {
		c.Nodes = append(c.Nodes, &Node{ID: i, Dir: filepath.Join(dir, fmt.Sprintf("node%d", i)), Port: ports[2*(i-1)], RaftPort: ports[2*(i-1)+1], Race: race, Env: env})
	}
	for i := 1; i <= n; i++ {
		for j := 1; j <= n; j++ {
			if i == j {
				continue
			}
			ln, err := net.Listen("tcp", "127.0.0.1:0")
			if err != nil {
				return nil, err
			}
			l := &link{from: i, to: j, ln: ln, target: fmt.Sprintf("127.0.0.1:%d", c.Nodes[j-1].RaftPort), conns: map[net.Conn]bool{}}
			c.links[[2]int{i, j}] = l
			go l.serve()
		}
	}
	for id := founders + 1; id <= n; id++ {
		ln, err := net.Listen("tcp", "127.0.0.1:0")
		if err != nil {
			return nil, err
		}
		l := &link{from: 0, to: id, ln: ln, target: fmt.Sprintf("127.0.0.1:%d", c.Nodes[id-1].RaftPort), conns: map[net.Conn]bool{}}
		c.links[[2]int{0, id}] = l
		go l.serve()
		c.Nodes[id-1].Join = true
	}
	for _, nd := range c.Nodes {
		var urls []string
		upto := n
		if nd.ID <= founders {
			upto = founders
		}
		for j := 1; j <= upto; j++ {
			if j == nd.ID {
				urls = append(urls, fmt.Sprintf("http://127.0.0.1:%d", nd.RaftPort))
			} else {
				urls = append(urls, fmt.Sprintf("http://127.0.0.1:%d", c.links[[2]int{nd.ID, j}].ln.Addr().(*net.TCPAddr).Port))
			}
		}
		nd.peers = strings.Join(urls, ",")
	}
	return c, nil
}

// JoinURL is the peer URL under which the founders reach spare node id.
func (c *Cluster) JoinURL(id int) string {
	return fmt.Sprintf("http://127.0.0.1:%d", c.links[[2]int{0, id}].ln.Addr().(*net.TCPAddr).Port)
}

// StartNode starts (or restarts) node id in its own working directory.
func (c *Cluster) StartNode(id int) error {
	nd := c.Nodes[id-1]
	// the ports of a node that was just killed can be refused for an instant; a node whose raft listener cannot bind
	// ends itself (log.Fatalf), which says nothing about the node
	for k := 0; k < 400; k++ {
		busy := false
		for _, port := range []int{nd.Port, nd.RaftPort} {
			if l, err := net.Listen("tcp", fmt.Sprintf("127.0.0.1:%d", port)); err != nil {
				busy = true
			} else {
				l.Close()
			}
		}
		if !busy {
			break
		}
		time.Sleep(5 * time.Millisecond)
	}
	srv, err := procs.Start(procs.Opts{Dir: nd.Dir, Port: nd.Port, ShardNum: 16, Databases: 1, Race: nd.Race, Env: nd.Env, Cluster: true, NodeID: nd.ID,
		PeerAddrs: nd.peers, RaftAddr: fmt.Sprintf("http://127.0.0.1:%d", nd.RaftPort), JoinCluster: nd.Join, KeepLog: true, ClusterExtraJSON: c.ExtraJSON})
	nd.Srv = srv
	if err == nil {
		// watcher: an exit caused by "address already in use" is the environment's doing; start the node again
		go func(srv *procs.Server) {
			srv.WaitExit(24 * time.Hour)
			if nd.Srv == srv && !srv.Killed() && srv.BindError() && atomic.AddInt32(&nd.bindRetries, 1) <= 5 {
				BindRestarts.Add(1)
				time.Sleep(100 * time.Millisecond)
				_ = c.StartNode(id)
			}
		}(srv)
	}
	return err
}

// BindRestarts counts nodes started again because a listener could not bind.
var BindRestarts atomic.Int32

// StartAll starts every node.
func (c *Cluster) StartAll() error {
	errs := make(chan error, len(c.Nodes))
	for _, nd := range c.Nodes[:c.Founders] {
		go func(id int) { errs <- c.StartNode(id) }(nd.ID)
	}
	var first error
	for range c.Nodes[:c.Founders] {
		if err := <-errs; err != nil && first == nil {
			first = err
		}
	}
	return first
}

// Kill sends SIGKILL to node id.
func (c *Cluster) Kill(id int) {
	if nd := c.Nodes[id-1]; nd.Srv != nil {
		nd.Srv.Kill()
	}
}

// Pause/Resume stop and continue a node process.
var reBecame = regexp.MustCompile(`INFO: (\d+) became (leader|follower|candidate|pre-candidate) at term (\d+)`)

// Leader returns the running node whose last announced raft role is leader (highest term wins), or 0.
func (c *Cluster) Leader() int {
	best, bestTerm := 0, -1
	for _, nd := range c.Nodes {
		if nd.Srv == nil || nd.Srv.Exited() {
			continue
		}
		role, term := "", 0
		for _, l := range c.Grep(nd.ID, []string{" became "}, 300, 100000) {
			if m := reBecame.FindStringSubmatch(l); m != nil {
				role = m[2]
				term, _ = strconv.Atoi(m[3])
			}
		}
		if role == "leader" && term > bestTerm {
			best, bestTerm = nd.ID, term
		}
	}
	return best
}

func (c *Cluster) Pause(id int)  { c.Nodes[id-1].Srv.Signal(syscall.SIGSTOP) }
func (c *Cluster) Resume(id int) { c.Nodes[id-1].Srv.Signal(syscall.SIGCONT) }

// Cut severs (or restores) the directed link i -> j.
func (c *Cluster) Cut(i, j int, cut bool) {
	if l := c.links[[2]int{i, j}]; l != nil {
		l.setCut(cut)
	}
}

// Partition isolates the nodes of group from all others (both directions).
func (c *Cluster) Partition(group []int) {
	in := map[int]bool{}
	for _, g := range group {
		in[g] = true
	}
	for k, l := range c.links {
		if in[k[0]] != in[k[1]] {
			l.setCut(true)
		}
	}
}

// Heal restores every link and removes delays.
func (c *Cluster) Heal() {
	for _, l := range c.links {
		l.setCut(false)
		atomic.StoreInt32(&l.delayMs, 0)
		atomic.StoreInt32(&l.lossyPost, 0)
	}
}

// LossyPosts puts every link into the mode in which stream requests are refused and every POST is delivered but its
// response dropped; open connections are closed so that the peers have to come back through the links. It returns
// a function that reports how many responses were dropped so far.
func (c *Cluster) LossyPosts() func() int64 {
	for _, l := range c.links {
		atomic.StoreInt32(&l.lossyPost, 1)
		l.mu.Lock()
		for cn := range l.conns {
			cn.Close()
		}
		l.mu.Unlock()
	}
	return func() int64 {
		var n int64
		for _, l := range c.links {
			n += atomic.LoadInt64(&l.dropped)
		}
		return n
	}
}

// LinkStats (debugging aid): per link "from->to: open connections, refused streams, dropped proposals".
func (c *Cluster) LinkStats() []string {
	var out []string
	for k, l := range c.links {
		l.mu.Lock()
		n := len(l.conns)
		l.mu.Unlock()
		out = append(out, fmt.Sprintf("%d->%d: %d open, %d refused, %d proposals, lossy=%d", k[0], k[1], n, atomic.LoadInt64(&l.refused), atomic.LoadInt64(&l.props), atomic.LoadInt32(&l.lossyPost)))
	}
	sort.Strings(out)
	return out
}

// DroppedProposals: forwarded proposals that were delivered in lossy-posts mode while their response was dropped.
func (c *Cluster) DroppedProposals() int64 {
	var n int64
	for _, l := range c.links {
		n += atomic.LoadInt64(&l.props)
	}
	return n
}

// Delay makes every forwarded chunk on every link wait ms milliseconds.
func (c *Cluster) Delay(ms int) {
	for _, l := range c.links {
		atomic.StoreInt32(&l.delayMs, int32(ms))
	}
}

// Stop kills every node and closes the mesh.
func (c *Cluster) Stop() {
	for _, nd := range c.Nodes {
		if nd.Srv != nil {
			nd.Srv.Kill()
		}
	}
	for _, l := range c.links {
		l.ln.Close()
		l.setCut(true)
	}
}

// Alive lists the ids of running nodes.
func (c *Cluster) Alive() []int {
	var out []int
	for _, nd := range c.Nodes {
		if nd.Srv != nil && !nd.Srv.Exited() {
			out = append(out, nd.ID)
		}
	}
	return out
}

// WaitWritable waits until a write through node id is acknowledged (the cluster has a leader and commits).
func (c *Cluster) WaitWritable(id int, limit time.Duration) bool {
	deadline := time.Now().Add(limit)
	for time.Now().Before(deadline) {
		nd := c.Nodes[id-1]
		if nd.Srv == nil || nd.Srv.Exited() {
			return false
		}
		cl, err := respc.Dial(nd.Addr(), 3*time.Second)
		if err == nil {
			cl.Timeout = 3 * time.Second
			v, err := cl.Do("SET", fmt.Sprintf("__ready:%d", id), "1")
			cl.Close()
			if err == nil && v.Kind == '+' {
				return true
			}
		}
		time.Sleep(200 * time.Millisecond)
	}
	return false
}

// WaitAllWritable waits for every running node.
func (c *Cluster) WaitAllWritable(limit time.Duration) bool {
	for _, id := range c.Alive() {
		if !c.WaitWritable(id, limit) {
			return false
		}
	}
	return true
}

// NodeLog returns the tail of a node's captured output.
func (c *Cluster) NodeLog(id int, n int) string {
	b, err := os.ReadFile(filepath.Join(c.Nodes[id-1].Dir, "server.out"))
	if err != nil {
		return ""
	}
	if len(b) > n {
		b = b[len(b)-n:]
	}
	return string(b)
}

// CrashLines returns, per node, the first panic/fatal line found in its full output.
func (c *Cluster) CrashLines() map[int]string {
	out := map[int]string{}
	for _, nd := range c.Nodes {
		b, err := os.ReadFile(filepath.Join(nd.Dir, "server.out"))
		if err != nil {
			continue
		}
		for _, l := range strings.Split(string(b), "\n") {
			if strings.HasPrefix(l, "panic:") || strings.HasPrefix(l, "fatal error:") || strings.Contains(l, "log.Fatal") {
				out[nd.ID] = l
				break
			}
		}
	}
	return out
}

var _ = io.EOF

// Grep streams a node's whole output and returns the last `last` lines shorter than maxLine that contain one of the
// (lower-case) substrings.
func (c *Cluster) Grep(id int, subs []string, maxLine, last int) []string {
	f, err := os.Open(filepath.Join(c.Nodes[id-1].Dir, "server.out"))
	if err != nil {
		return nil
	}
	defer f.Close()
	var out []string
	br := bufio.NewReaderSize(f, 1<<20)
	for {
		line, err := br.ReadSlice('\n')
		if len(line) > 0 && len(line) < maxLine && err != bufio.ErrBufferFull {
			low := strings.ToLower(string(line))
			for _, s := range subs {
				if strings.Contains(low, s) {
					out = append(out, strings.TrimRight(string(line), "\n"))
					if len(out) > last {
						out = out[1:]
					}
					break
				}
			}
		}
		if err != nil && err != bufio.ErrBufferFull {
			break
		}
	}
	return out
}
