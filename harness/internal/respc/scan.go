package respc

import (
	"bytes"
	"strconv"
)

// ScanResult classifies a request byte stream.
type ScanResult struct {
	Commands  [][][]byte // well-formed commands (arrays of >=1 non-nil bulk strings) before the first violation
	Pure      bool       // every well-formed top-level value before the violation is a command
	Violation int        // offset of the value that is malformed or truncated, -1 if the stream is entirely well-formed
	Truncated bool       // the stream ends inside a value (no malformed byte seen)
	Unspec    bool       // a length/integer field uses a form only some parsers accept ("+1", "-0", "01"): no verdict
	Values    int        // well-formed top-level values before the violation
}

type lenClass int

const (
	lenBad lenClass = iota
	lenOK
	lenUnspec
)

func classifyLen(b []byte) (int64, lenClass) {
	if len(b) == 0 {
		return 0, lenBad
	}
	s := b
	neg := false
	if s[0] == '+' || s[0] == '-' {
		neg = s[0] == '-'
		s = s[1:]
		if len(s) == 0 {
			return 0, lenBad
		}
	}
	var n int64
	for _, c := range s {
		if c < '0' || c > '9' {
			return 0, lenBad
		}
		if n > (1<<62)/10 {
			return 0, lenBad // absurd length: every parser must refuse (or fail to allocate) - treated as malformed
		}
		n = n*10 + int64(c-'0')
	}
	canonical := !(b[0] == '+') && !(len(s) > 1 && s[0] == '0') && !(neg && n == 0)
	if neg {
		n = -n
	}
	if !canonical {
		return n, lenUnspec
	}
	if n < -1 {
		return n, lenBad
	}
	return n, lenOK
}

// scanValue parses one value at b[off:]. It returns the new offset and
// status: 0 ok, 1 malformed, 2 truncated, 3 unspecified.
func scanValue(b []byte, off, depth int) (v Value, next int, status int) {
	nl := bytes.IndexByte(b[off:], '\n')
	if nl < 0 {
		// no line end: malformed if a CR is followed by something else than LF, else truncated
		return v, off, 2
	}
	line := b[off : off+nl+1]
	if len(line) < 2 || line[len(line)-2] != '\r' {
		return v, off, 1
	}
	body := line[:len(line)-2]
	if depth == 0 && (len(body) == 0 || !bytes.ContainsRune([]byte("+-:$*"), rune(body[0]))) {
		// a top-level line without a RESP type byte is "inline" text: servers may ignore it, answer an
		// error or close, and the reference implementation goes on with what follows - no verdict
		return v, off, 3
	}
	if depth == 0 && len(body) > 0 && (body[0] == '+' || body[0] == '-' || body[0] == ':') {
		// a top-level simple value is never a command; whether a damaged one is ignored or refused is open
		if bytes.IndexByte(body, '\r') >= 0 {
			return v, off, 3
		}
	}
	if bytes.IndexByte(body, '\r') >= 0 {
		return v, off, 1
	}
	if len(body) == 0 {
		return v, off, 1
	}
	pos := off + nl + 1
	switch body[0] {
	case '+', '-':
		return Value{Kind: body[0], Str: body[1:]}, pos, 0
	case ':':
		n, err := strconv.ParseInt(string(body[1:]), 10, 64)
		if err != nil {
			if depth == 0 {
				return v, off, 3
			}
			return v, off, 1
		}
		if strconv.FormatInt(n, 10) != string(body[1:]) {
			return v, off, 3
		}
		return Int(n), pos, 0
	case '$':
		n, cls := classifyLen(body[1:])
		if cls == lenBad {
			return v, off, 1
		}
		if cls == lenUnspec {
			return v, off, 3
		}
		if n == -1 {
			return NilBulk(), pos, 0
		}
		if int64(len(b)-pos) < n+2 {
			// not enough bytes: truncated unless the available tail already contradicts the length
			return v, off, 2
		}
		if b[pos+int(n)] != '\r' || b[pos+int(n)+1] != '\n' {
			return v, off, 1
		}
		return Value{Kind: '$', Str: b[pos : pos+int(n)]}, pos + int(n) + 2, 0
	case '*':
		n, cls := classifyLen(body[1:])
		if cls == lenBad {
			return v, off, 1
		}
		if cls == lenUnspec {
			return v, off, 3
		}
		if n == -1 {
			return NilArr(), pos, 0
		}
		if depth > 8 {
			return v, off, 3
		}
		arr := make([]Value, 0, 4)
		for i := int64(0); i < n; i++ {
			if pos >= len(b) {
				return v, off, 2
			}
			e, np, st := scanValue(b, pos, depth+1)
			if st != 0 {
				return v, off, st
			}
			arr = append(arr, e)
			pos = np
			if len(arr) > 1<<16 {
				return v, off, 3
			}
		}
		return Value{Kind: '*', Arr: arr}, pos, 0
	}
	return v, off, 1 // inline text and unknown type bytes are not RESP values
}

// IsCommand reports whether v is an array of at least one non-nil bulk string.
func (v Value) IsCommand() bool {
	if v.Kind != '*' || v.Nil || len(v.Arr) == 0 {
		return false
	}
	for _, e := range v.Arr {
		if e.Kind != '$' || e.Nil {
			return false
		}
	}
	return true
}

// Argv returns the arguments of a command value.
func (v Value) Argv() [][]byte {
	out := make([][]byte, len(v.Arr))
	for i, e := range v.Arr {
		out[i] = e.Str
	}
	return out
}

// Scan splits a request stream into its well-formed prefix and the first violation.
func Scan(b []byte) ScanResult {
	r := ScanResult{Pure: true, Violation: -1}
	off := 0
	for off < len(b) {
		v, next, st := scanValue(b, off, 0)
		switch st {
		case 1:
			r.Violation = off
			return r
		case 2:
			r.Violation = off
			r.Truncated = true
			return r
		case 3:
			r.Violation = off
			r.Unspec = true
			return r
		}
		r.Values++
		if v.IsCommand() {
			r.Commands = append(r.Commands, v.Argv())
		} else {
			r.Pure = false
		}
		off = next
	}
	return r
}
