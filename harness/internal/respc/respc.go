// Package respc is an independent, strict RESP2 encoder/decoder and a small
// TCP client. It shares no code with /repo/resp.
package respc

import (
	"bufio"
	"bytes"
	"errors"
	"fmt"
	"io"
	"net"
	"strconv"
	"strings"
	"time"
)

// Value is one decoded RESP value.
// Kind: '+' simple string, '-' error, ':' integer, '$' bulk, '*' array.
// Nil is set for the nil bulk ($-1) and the nil array (*-1).
type Value struct {
	Kind byte
	Str  []byte
	Int  int64
	Arr  []Value
	Nil  bool
}

// Constructors.
func Simple(s string) Value { return Value{Kind: '+', Str: []byte(s)} }
func Err(s string) Value    { return Value{Kind: '-', Str: []byte(s)} }
func Int(i int64) Value     { return Value{Kind: ':', Int: i} }
func Bulk(b []byte) Value   { return Value{Kind: '$', Str: append([]byte{}, b...)} }
func BulkS(s string) Value  { return Value{Kind: '$', Str: []byte(s)} }
func NilBulk() Value        { return Value{Kind: '$', Nil: true} }
func NilArr() Value         { return Value{Kind: '*', Nil: true} }
func Arr(v ...Value) Value {
	if v == nil {
		v = []Value{}
	}
	return Value{Kind: '*', Arr: v}
}

// IsErr reports whether v is an error reply.
func (v Value) IsErr() bool { return v.Kind == '-' }

// IsNil reports whether v is a nil bulk or nil array.
func (v Value) IsNil() bool { return v.Nil }

// IsWrongType reports whether v is an error starting with WRONGTYPE.
func (v Value) IsWrongType() bool {
	return v.Kind == '-' && bytes.HasPrefix(v.Str, []byte("WRONGTYPE"))
}

// Equal is strict structural equality.
func (v Value) Equal(o Value) bool {
	if v.Kind != o.Kind || v.Nil != o.Nil {
		return false
	}
	switch v.Kind {
	case ':':
		return v.Int == o.Int
	case '*':
		if len(v.Arr) != len(o.Arr) {
			return false
		}
		for i := range v.Arr {
			if !v.Arr[i].Equal(o.Arr[i]) {
				return false
			}
		}
		return true
	default:
		return bytes.Equal(v.Str, o.Str)
	}
}

// String renders v for humans and for signatures.
func (v Value) String() string {
	switch v.Kind {
	case '+':
		return "+" + strconv.Quote(string(v.Str))
	case '-':
		return "-" + strconv.Quote(string(v.Str))
	case ':':
		return ":" + strconv.FormatInt(v.Int, 10)
	case '$':
		if v.Nil {
			return "$nil"
		}
		if len(v.Str) > 80 {
			return fmt.Sprintf("$%q...(%d bytes)", v.Str[:60], len(v.Str))
		}
		return "$" + strconv.Quote(string(v.Str))
	case '*':
		if v.Nil {
			return "*nil"
		}
		var sb strings.Builder
		sb.WriteString("*[")
		for i, e := range v.Arr {
			if i > 0 {
				sb.WriteString(" ")
			}
			if i >= 24 {
				fmt.Fprintf(&sb, "...(%d items)", len(v.Arr))
				break
			}
			sb.WriteString(e.String())
		}
		sb.WriteString("]")
		return sb.String()
	}
	return fmt.Sprintf("?kind=%d", v.Kind)
}

// KindName is a short name of the reply kind used in coverage tuples.
func (v Value) KindName() string {
	switch v.Kind {
	case '+':
		return "status"
	case '-':
		if v.IsWrongType() {
			return "wrongtype"
		}
		return "error"
	case ':':
		return "int"
	case '$':
		if v.Nil {
			return "nil"
		}
		return "bulk"
	case '*':
		if v.Nil {
			return "nilarray"
		}
		if len(v.Arr) == 0 {
			return "emptyarray"
		}
		return "array"
	}
	return "?"
}

// Encode renders v in wire format.
func (v Value) Encode() []byte {
	var b bytes.Buffer
	v.encode(&b)
	return b.Bytes()
}

func (v Value) encode(b *bytes.Buffer) {
	switch v.Kind {
	case '+', '-':
		b.WriteByte(v.Kind)
		b.Write(v.Str)
		b.WriteString("\r\n")
	case ':':
		b.WriteByte(':')
		b.WriteString(strconv.FormatInt(v.Int, 10))
		b.WriteString("\r\n")
	case '$':
		if v.Nil {
			b.WriteString("$-1\r\n")
			return
		}
		b.WriteByte('$')
		b.WriteString(strconv.Itoa(len(v.Str)))
		b.WriteString("\r\n")
		b.Write(v.Str)
		b.WriteString("\r\n")
	case '*':
		if v.Nil {
			b.WriteString("*-1\r\n")
			return
		}
		b.WriteByte('*')
		b.WriteString(strconv.Itoa(len(v.Arr)))
		b.WriteString("\r\n")
		for _, e := range v.Arr {
			e.encode(b)
		}
	}
}

// EncodeCommand renders one command as an array of bulk strings.
func EncodeCommand(args [][]byte) []byte {
	var b bytes.Buffer
	b.WriteByte('*')
	b.WriteString(strconv.Itoa(len(args)))
	b.WriteString("\r\n")
	for _, a := range args {
		b.WriteByte('$')
		b.WriteString(strconv.Itoa(len(a)))
		b.WriteString("\r\n")
		b.Write(a)
		b.WriteString("\r\n")
	}
	return b.Bytes()
}

// Cmd builds an argv from strings.
func Cmd(args ...string) [][]byte {
	out := make([][]byte, len(args))
	for i, a := range args {
		out[i] = []byte(a)
	}
	return out
}

// ErrProtocol is returned by the strict decoder on malformed input.
var ErrProtocol = errors.New("respc: protocol violation")

func readLine(r *bufio.Reader) ([]byte, error) {
	line, err := r.ReadBytes('\n')
	if err != nil {
		if err == io.EOF && len(line) > 0 {
			return nil, io.ErrUnexpectedEOF
		}
		return nil, err
	}
	if len(line) < 2 || line[len(line)-2] != '\r' {
		return nil, fmt.Errorf("%w: line %q not terminated by CRLF", ErrProtocol, line)
	}
	body := line[:len(line)-2]
	if bytes.IndexByte(body, '\r') >= 0 {
		return nil, fmt.Errorf("%w: bare CR inside line %q", ErrProtocol, line)
	}
	return body, nil
}

func parseLen(b []byte) (int64, error) {
	if len(b) == 0 {
		return 0, fmt.Errorf("%w: empty length", ErrProtocol)
	}
	if string(b) == "-1" {
		return -1, nil
	}
	for _, c := range b {
		if c < '0' || c > '9' {
			return 0, fmt.Errorf("%w: bad length %q", ErrProtocol, b)
		}
	}
	n, err := strconv.ParseInt(string(b), 10, 64)
	if err != nil {
		return 0, fmt.Errorf("%w: bad length %q", ErrProtocol, b)
	}
	return n, nil
}

// Decode reads exactly one RESP value, strictly.
func Decode(r *bufio.Reader) (Value, error) {
	return decode(r, 0)
}

func decode(r *bufio.Reader, depth int) (Value, error) {
	if depth > 16 {
		return Value{}, fmt.Errorf("%w: nesting too deep", ErrProtocol)
	}
	line, err := readLine(r)
	if err != nil {
		return Value{}, err
	}
	if len(line) == 0 {
		return Value{}, fmt.Errorf("%w: empty line", ErrProtocol)
	}
	switch line[0] {
	case '+', '-':
		return Value{Kind: line[0], Str: append([]byte{}, line[1:]...)}, nil
	case ':':
		n, err := strconv.ParseInt(string(line[1:]), 10, 64)
		if err != nil {
			return Value{}, fmt.Errorf("%w: bad integer %q", ErrProtocol, line)
		}
		return Int(n), nil
	case '$':
		n, err := parseLen(line[1:])
		if err != nil {
			return Value{}, err
		}
		if n == -1 {
			return NilBulk(), nil
		}
		if n > 1<<30 {
			return Value{}, fmt.Errorf("%w: bulk too long %d", ErrProtocol, n)
		}
		buf := make([]byte, n+2)
		if _, err := io.ReadFull(r, buf); err != nil {
			if err == io.EOF {
				err = io.ErrUnexpectedEOF
			}
			return Value{}, err
		}
		if buf[n] != '\r' || buf[n+1] != '\n' {
			return Value{}, fmt.Errorf("%w: bulk of %d bytes not followed by CRLF", ErrProtocol, n)
		}
		return Value{Kind: '$', Str: buf[:n]}, nil
	case '*':
		n, err := parseLen(line[1:])
		if err != nil {
			return Value{}, err
		}
		if n == -1 {
			return NilArr(), nil
		}
		if n > 1<<24 {
			return Value{}, fmt.Errorf("%w: array too long %d", ErrProtocol, n)
		}
		arr := make([]Value, 0, n)
		for i := int64(0); i < n; i++ {
			e, err := decode(r, depth+1)
			if err != nil {
				if err == io.EOF {
					err = io.ErrUnexpectedEOF
				}
				return Value{}, err
			}
			arr = append(arr, e)
		}
		return Value{Kind: '*', Arr: arr}, nil
	}
	return Value{}, fmt.Errorf("%w: unknown type byte %q", ErrProtocol, line[0])
}

// DecodeAll decodes as many complete values as b holds. It returns the values,
// the number of bytes consumed, and the error that stopped it (io.EOF when b
// was consumed exactly, io.ErrUnexpectedEOF when b ends inside a value).
func DecodeAll(b []byte) ([]Value, int, error) {
	var out []Value
	consumed := 0
	for {
		if consumed == len(b) {
			return out, consumed, io.EOF
		}
		rd := bytes.NewReader(b[consumed:])
		br := bufio.NewReaderSize(rd, 16)
		v, err := Decode(br)
		if err != nil {
			return out, consumed, err
		}
		used := len(b[consumed:]) - rd.Len() - br.Buffered()
		consumed += used
		out = append(out, v)
	}
}

// Client is a minimal TCP client.
type Client struct {
	Conn    net.Conn
	br      *bufio.Reader
	Timeout time.Duration
}

// Dial connects with a timeout.
func Dial(addr string, timeout time.Duration) (*Client, error) {
	c, err := net.DialTimeout("tcp", addr, timeout)
	if err != nil {
		return nil, err
	}
	if tc, ok := c.(*net.TCPConn); ok {
		_ = tc.SetNoDelay(true)
	}
	return &Client{Conn: c, br: bufio.NewReaderSize(c, 65536), Timeout: timeout}, nil
}

// Wrap makes a client of an established connection.
func Wrap(c net.Conn, timeout time.Duration) *Client {
	if tc, ok := c.(*net.TCPConn); ok {
		_ = tc.SetNoDelay(true)
	}
	return &Client{Conn: c, br: bufio.NewReaderSize(c, 65536), Timeout: timeout}
}

// Send writes one command.
func (c *Client) Send(args [][]byte) error {
	if c.Timeout > 0 {
		_ = c.Conn.SetWriteDeadline(time.Now().Add(c.Timeout))
	}
	_, err := c.Conn.Write(EncodeCommand(args))
	return err
}

// SendRaw writes raw bytes.
func (c *Client) SendRaw(b []byte) error {
	if c.Timeout > 0 {
		_ = c.Conn.SetWriteDeadline(time.Now().Add(c.Timeout))
	}
	_, err := c.Conn.Write(b)
	return err
}

// Recv reads one reply.
func (c *Client) Recv() (Value, error) {
	return c.RecvTimeout(c.Timeout)
}

// RecvTimeout reads one reply with an explicit deadline (0 = none).
func (c *Client) RecvTimeout(d time.Duration) (Value, error) {
	if d > 0 {
		_ = c.Conn.SetReadDeadline(time.Now().Add(d))
	} else {
		_ = c.Conn.SetReadDeadline(time.Time{})
	}
	return Decode(c.br)
}

// Do sends one command and reads one reply.
func (c *Client) Do(args ...string) (Value, error) {
	return c.DoB(Cmd(args...))
}

// DoB is Do for byte arguments.
func (c *Client) DoB(args [][]byte) (Value, error) {
	if err := c.Send(args); err != nil {
		return Value{}, err
	}
	return c.Recv()
}

// Reader exposes the buffered reader (for raw reads).
func (c *Client) Reader() *bufio.Reader { return c.br }

// Close closes the connection; with linger 0 so that churn leaves no TIME_WAIT.
func (c *Client) Close() {
	if tc, ok := c.Conn.(*net.TCPConn); ok {
		_ = tc.SetLinger(0)
	}
	_ = c.Conn.Close()
}
