package walfault

import (
	"bufio"
	"encoding/json"
	"fmt"
	"os"
	"os/exec"
	"path/filepath"
	"regexp"
	"runtime"
	"strconv"
	"strings"
	"sync"

	"rgverif/internal/common"

	"go.etcd.io/etcd/server/v3/storage/wal"
)

// Process-crash tier: the op sequence of a recording is re-executed in a
// child process under strace, and the child is SIGKILLed on entering its
// N-th write / fdatasync / fsync / rename / ftruncate. A process crash keeps
// every byte that was written, so no sectors are dropped; what this adds are
// the real directory states in the middle of a call (in particular inside
// cut()). The un-injected trace is also used to check that every call that
// has to sync really ends with an fdatasync of what it wrote.

// RecordSpec is the input of a recorder child.
type RecordSpec struct {
	SegSize  int64  `json:"segsize"`
	Ops      []Op   `json:"ops"`
	Dir      string `json:"dir"`
	Progress string `json:"progress"`
}

// PCrashCase identifies one kill point.
type PCrashCase struct {
	Seq      int    `json:"seq"`
	Syscall  string `json:"syscall"`
	N        int    `json:"n"`        // the child is killed entering its N-th such syscall
	Progress int    `json:"progress"` // ops that had returned (journalled) before the kill
	StaleTmp bool   `json:"stale_tmp"`
}

const progressMark = "C16OP"

// ChildRecord is the entry point of the strace'd recorder child.
func ChildRecord(specPath string) int {
	runtime.LockOSThread() // all WAL syscalls of the recorder come from one thread
	b, err := os.ReadFile(specPath)
	if err != nil {
		return 3
	}
	var sp RecordSpec
	if err := json.Unmarshal(b, &sp); err != nil {
		return 3
	}
	wal.SegmentSizeBytes = sp.SegSize
	pf, err := os.OpenFile(sp.Progress, os.O_CREATE|os.O_WRONLY|os.O_APPEND, 0o644)
	if err != nil {
		return 3
	}
	rec, err := Record(sp.Dir, sp.SegSize, &listSource{ops: sp.Ops}, func(i int) {
		_, _ = pf.WriteString(fmt.Sprintf("%s %d\n", progressMark, i))
	})
	if err != nil || len(rec.Problems) > 0 {
		return 4
	}
	return 0
}

type traceEvent struct {
	sc    string
	fd    int
	mark  int // >= 0: progress marker of op mark
	nth   int // 1-based occurrence of sc on this thread
	fresh bool
}

var reTrace = regexp.MustCompile(`^(\d+) +(write|fdatasync|fsync|rename|ftruncate)\((\d+)?`)
var reMark = regexp.MustCompile(progressMark + ` (\d+)`)

// parseTrace returns the events of the recorder thread (the one that writes
// the progress markers), in order.
func parseTrace(path string) ([]traceEvent, error) {
	f, err := os.Open(path)
	if err != nil {
		return nil, err
	}
	defer f.Close()
	type raw struct {
		tid  string
		sc   string
		fd   int
		mark int
	}
	var all []raw
	mainTid := ""
	sc := bufio.NewScanner(f)
	sc.Buffer(make([]byte, 1<<20), 1<<20)
	for sc.Scan() {
		m := reTrace.FindStringSubmatch(sc.Text())
		if m == nil {
			continue
		}
		r := raw{tid: m[1], sc: m[2], fd: -1, mark: -1}
		if m[3] != "" {
			r.fd, _ = strconv.Atoi(m[3])
		}
		if r.sc == "write" {
			if mm := reMark.FindStringSubmatch(sc.Text()); mm != nil {
				r.mark, _ = strconv.Atoi(mm[1])
				mainTid = r.tid
			}
		}
		all = append(all, r)
	}
	if mainTid == "" {
		return nil, fmt.Errorf("no progress marker in trace %s", path)
	}
	var out []traceEvent
	cnt := map[string]int{}
	for _, r := range all {
		if r.tid != mainTid {
			continue
		}
		cnt[r.sc]++
		out = append(out, traceEvent{sc: r.sc, fd: r.fd, mark: r.mark, nth: cnt[r.sc]})
	}
	return out, nil
}

func straceCmd(self, tracePath, inject, specPath string) *exec.Cmd {
	args := []string{"-f", "-qq", "-s", "32", "-o", tracePath, "-e", "trace=write,fdatasync,fsync,rename,ftruncate"}
	if inject != "" {
		args = append(args, "-e", "inject="+inject)
	}
	args = append(args, self, "-c16-record", specPath, "-work", filepath.Dir(specPath), "-replays", filepath.Dir(specPath))
	cmd := exec.Command("strace", args...)
	cmd.Env = append(os.Environ(), "GOMAXPROCS=2")
	return cmd
}

func readDirFiles(dir string) (map[string][]byte, bool) {
	es, err := os.ReadDir(dir)
	if err != nil {
		return nil, false
	}
	files := map[string][]byte{}
	for _, e := range es {
		if e.IsDir() {
			continue
		}
		b, err := os.ReadFile(filepath.Join(dir, e.Name()))
		if err != nil {
			continue
		}
		files[e.Name()] = b
	}
	return files, true
}

func readProgress(path string) int {
	b, err := os.ReadFile(path)
	if err != nil {
		return 0
	}
	return strings.Count(string(b), progressMark)
}

// traceSyncCheck verifies on the un-injected trace that every op that has to
// sync ends with an fdatasync of every file descriptor it wrote to.
func traceSyncCheck(r *Recording, ev []traceEvent) []string {
	var bad []string
	op := 0
	dirty := map[int]bool{}
	// only descriptors that are fdatasync'ed somewhere in the trace are WAL
	// files; the Go runtime also write()s to its eventfd / wakeup pipe
	walfd := map[int]bool{}
	for _, e := range ev {
		if e.sc == "fdatasync" {
			walfd[e.fd] = true
		}
	}
	for _, e := range ev {
		if e.sc == "write" && e.mark < 0 && !walfd[e.fd] {
			continue
		}
		switch {
		case e.mark >= 0:
			if op < len(r.Steps) && r.Steps[op].Synced && len(dirty) > 0 {
				bad = append(bad, fmt.Sprintf("op %d %s returned with written but not fdatasync'ed data", op, r.Ops[op]))
			}
			if op < len(r.Steps) && r.Steps[op].Synced {
				dirty = map[int]bool{}
			}
			op = e.mark + 1
		case e.sc == "write":
			dirty[e.fd] = true
		case e.sc == "fdatasync" || e.sc == "fsync":
			delete(dirty, e.fd)
		}
	}
	return bad
}

// runStrace runs the process-crash tier for the first p.Strace recordings.
func runStrace(p *Params, recs []*Recording, a *agg) {
	res := a.res
	if _, err := exec.LookPath("strace"); err != nil {
		res.Notes = append(res.Notes, "strace not available: process-crash tier skipped")
		return
	}
	type kp struct {
		rec *Recording
		c   PCrashCase
	}
	var points []kp
	done := 0
	for _, r := range recs {
		if done >= p.Strace {
			break
		}
		if r == nil || len(r.Problems) > 0 || len(r.Steps) != len(r.Ops) {
			continue
		}
		done++
		base := filepath.Join(p.Work, fmt.Sprintf("strace-%d-base", r.SeqNo))
		_ = os.MkdirAll(base, 0o755)
		spec := RecordSpec{SegSize: r.SegSize, Ops: r.Ops, Dir: filepath.Join(base, "wal"), Progress: filepath.Join(base, "progress")}
		sb, _ := json.Marshal(spec)
		specPath := filepath.Join(base, "spec.json")
		_ = os.WriteFile(specPath, sb, 0o644)
		tracePath := filepath.Join(base, "trace")
		out, err := straceCmd(p.Self, tracePath, "", specPath).CombinedOutput()
		if err != nil {
			res.Notes = append(res.Notes, fmt.Sprintf("strace baseline of seq %d failed (%v: %s): process-crash tier skipped for it", r.SeqNo, err, firstWords(string(out), 12)))
			continue
		}
		ev, err := parseTrace(tracePath)
		if err != nil || readProgress(spec.Progress) != len(r.Ops) {
			res.Notes = append(res.Notes, fmt.Sprintf("strace baseline of seq %d unusable (%v)", r.SeqNo, err))
			continue
		}
		res.Counters["strace_baseline_runs"]++
		res.Counters["strace_traced_syscalls"] += int64(len(ev))
		for _, b := range traceSyncCheck(r, ev) {
			v := &Violation{Class: "trace/write-not-followed-by-fdatasync", Phase: "trace", Step: "trace", Observed: b,
				Accepted: "a call that must sync (MustSync save, cut, SaveSnapshot, Close) fdatasyncs every descriptor it wrote before it returns",
				SeqNo:    r.SeqNo, SegSize: r.SegSize, Order: 1 << 40, Case: map[string]interface{}{"seq": r.SeqNo}, rec: r}
			a.addViolation(v)
		}
		res.Counters["trace_sync_checked_ops"] += int64(len(r.Ops))
		for _, e := range ev {
			if e.mark >= 0 {
				continue
			}
			points = append(points, kp{rec: r, c: PCrashCase{Seq: r.SeqNo, Syscall: e.sc, N: e.nth}})
		}
		_ = os.RemoveAll(base)
	}

	// Phase 1: all kill runs. No WAL is open in this process meanwhile: a
	// fork()ed child briefly shares the flock()ed descriptors of its parent,
	// which makes wal.Open fail with "file already locked" (the hazard
	// renameWAL's comment describes) if forks and WAL use overlap.
	type left struct {
		files map[string][]byte
		early *CaseResult
	}
	lefts := make([]left, len(points))
	ch := make(chan int, len(points))
	for i := range points {
		ch <- i
	}
	close(ch)
	var wg sync.WaitGroup
	for w := 0; w < p.Workers; w++ {
		wg.Add(1)
		go func(w int) {
			defer wg.Done()
			base := filepath.Join(p.Work, fmt.Sprintf("strace-w%d", w))
			for i := range ch {
				f, early := runKillPoint(p.Self, base, points[i].rec, &points[i].c)
				lefts[i] = left{f, early}
			}
			_ = os.RemoveAll(base)
		}(w)
	}
	wg.Wait()
	// Phase 2: the reopen oracle on what each kill left behind.
	ch = make(chan int, len(points))
	for i := range points {
		ch <- i
	}
	close(ch)
	for w := 0; w < p.Workers; w++ {
		wg.Add(1)
		go func(w int) {
			defer wg.Done()
			base := filepath.Join(p.Work, fmt.Sprintf("strace-c%d", w))
			for i := range ch {
				pt := &points[i]
				cr := lefts[i].early
				if cr == nil {
					cr = evalKillPoint(filepath.Join(base, "check"), pt.rec, &pt.c, lefts[i].files)
				}
				a.mu.Lock()
				res.Counters["pcrash_runs"]++
				res.Counters["pcrash_"+cr.Outcome]++
				if cr.Outcome != "not-reached" && cr.Outcome != "harness-error" {
					res.Counters["pcrash_states"]++
					res.Counters["evaluations"]++
					a.key(fmt.Sprintf("pcrash/%d/%s/%d", pt.c.Seq, pt.c.Syscall, pt.c.N))
				}
				if pt.c.StaleTmp {
					res.Counters["pcrash_states_with_stale_tmp"]++
				}
				for _, v := range cr.Viols {
					v.Order = 1<<41 + int64(i)
					a.addViolation(v)
				}
				if i%37 == 0 {
					res.Samples = append(res.Samples, map[string]interface{}{"kind": "pcrash", "case": pt.c, "outcome": cr.Outcome, "recovered_records": cr.N, "order": int64(1<<41 + i)})
				}
				a.mu.Unlock()
			}
			_ = os.RemoveAll(base)
		}(w)
	}
	wg.Wait()
	res.Counters["distinct_nontrivial"] = int64(len(a.distinct))
	for _, c := range res.Classes {
		if c.Example != nil && c.Example.rec != nil && c.Example.Ops == nil {
			c.Example.Ops = c.Example.rec.Ops
		}
	}
}

// runKillPoint re-executes the ops under strace, kills the child at the
// given point and returns what is left on disk (or an early verdict).
func runKillPoint(self, base string, r *Recording, c *PCrashCase) (map[string][]byte, *CaseResult) {
	_ = os.RemoveAll(base)
	_ = os.MkdirAll(base, 0o755)
	spec := RecordSpec{SegSize: r.SegSize, Ops: r.Ops, Dir: filepath.Join(base, "wal"), Progress: filepath.Join(base, "progress")}
	sb, _ := json.Marshal(spec)
	specPath := filepath.Join(base, "spec.json")
	if err := os.WriteFile(specPath, sb, 0o644); err != nil {
		return nil, &CaseResult{Outcome: "harness-error"}
	}
	inject := fmt.Sprintf("%s:signal=SIGKILL:when=%d", c.Syscall, c.N)
	_ = straceCmd(self, filepath.Join(base, "trace"), inject, specPath).Run() // exit status is the kill
	c.Progress = readProgress(spec.Progress)
	if c.Progress >= len(r.Ops) {
		return nil, &CaseResult{Outcome: "not-reached"}
	}
	files, ok := readDirFiles(spec.Dir)
	if !ok || len(WALNames(files)) == 0 {
		if c.Progress == 0 {
			return nil, &CaseResult{Outcome: "absent-ok"} // killed inside Create: nothing was promised yet
		}
		cr := &CaseResult{Outcome: "violation"}
		cr.Viols = append(cr.Viols, &Violation{Class: "pcrash/open/no-wal-files", Phase: "pcrash", Step: "open",
			Observed: "no segment files left after the kill", Accepted: "the log", Case: c, SeqNo: r.SeqNo, SegSize: r.SegSize, rec: r, Attr: map[string]string{}})
		return nil, cr
	}
	return files, nil
}

// evalKillPoint applies the reopen oracle to the files a kill left behind.
func evalKillPoint(dir string, r *Recording, c *PCrashCase, files map[string][]byte) *CaseResult {
	for n, b := range files {
		if strings.HasSuffix(n, ".tmp") && !allZero(b) {
			c.StaleTmp = true
		}
	}
	lo := 0
	if c.Progress > 0 {
		lo = r.Steps[c.Progress-1].Dur
	}
	hi := r.Steps[c.Progress].LRec
	return r.checkState(dir, files, lo, hi, c, "pcrash", true)
}

func replayStrace(o *common.Opts, rec *Recording, rf *ReplayFile, caseJSON []byte) *CaseResult {
	self, err := os.Executable()
	if err != nil {
		return &CaseResult{Outcome: "harness-error"}
	}
	if rf.Violation.Phase == "trace" {
		return &CaseResult{Outcome: "trace-check-is-not-replayable-per-case; rerun the tier"}
	}
	var c PCrashCase
	_ = json.Unmarshal(caseJSON, &c)
	files, early := runKillPoint(self, filepath.Join(o.Work, "replay-strace"), rec, &c)
	if early != nil {
		return early
	}
	return evalKillPoint(filepath.Join(o.Work, "replay-strace-check"), rec, &c, files)
}
