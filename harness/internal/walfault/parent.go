package walfault

import (
	"bytes"
	"encoding/json"
	"fmt"
	"os"
	"os/exec"
	"path/filepath"
	"runtime"
	"sort"
	"strings"

	"rgverif/internal/common"
	"rgverif/internal/evidence"

	"go.etcd.io/etcd/server/v3/storage/wal"
)

// ReplayFile is a witness written on violation.
type ReplayFile struct {
	Property  string     `json:"property"`
	Tier      string     `json:"tier"`
	Seed      int64      `json:"seed"`
	SegSize   int64      `json:"segsize"`
	Seq       int        `json:"seq"`
	Ops       []Op       `json:"ops,omitempty"`
	OpsText   []string   `json:"ops_text,omitempty"`
	Violation *Violation `json:"violation"`
	Known     string     `json:"known_finding,omitempty"`
}

func tierPlan(o *common.Opts) []Params {
	var sizes []int64
	var ps []Params
	if o.Thorough() {
		sizes = []int64{4096, 6656, 8192, 16384, 5000}
	} else {
		sizes = []int64{4096, 6656, 8192}
	}
	for i, s := range sizes {
		p := Params{Tier: o.Tier, Seed: o.Seed, SegSize: s, SizeIdx: i, Workers: runtime.NumCPU()}
		if o.Thorough() {
			p.NSeq, p.NOps, p.MaxBig, p.FullCorrupt, p.SnapSets, p.Strace = 20, 40, 4, 1, 3, 2
		} else {
			p.NSeq, p.NOps, p.MaxBig, p.FullCorrupt, p.SnapSets, p.Strace = 4, 26, 2, 0, 1, 0
			if i == 0 {
				p.Strace = 1
			}
		}
		ps = append(ps, p)
	}
	return ps
}

// ChildBatch is the entry point of a batch child process.
func ChildBatch(paramsPath string) int {
	b, err := os.ReadFile(paramsPath)
	if err != nil {
		fmt.Fprintln(os.Stderr, "c16 child:", err)
		return common.ExitInconclusive
	}
	var p Params
	if err := json.Unmarshal(b, &p); err != nil {
		fmt.Fprintln(os.Stderr, "c16 child:", err)
		return common.ExitInconclusive
	}
	res := RunBatch(&p)
	out, err := json.Marshal(res)
	if err != nil {
		fmt.Fprintln(os.Stderr, "c16 child:", err)
		return common.ExitInconclusive
	}
	if err := os.WriteFile(paramsPath+".result", out, 0o644); err != nil {
		fmt.Fprintln(os.Stderr, "c16 child:", err)
		return common.ExitInconclusive
	}
	return 0
}

// Parent runs the whole check: one child process per segment size (the
// segment size is a package-level variable of the WAL and is set exactly once
// per process), then merges, reports and writes the evidence file.
func Parent(o *common.Opts) int {
	if o.Replay != "" {
		return Replay(o)
	}
	self, err := os.Executable()
	if err != nil {
		common.Inconclusive("C16", "cannot find own executable: "+err.Error())
		return common.ExitInconclusive
	}
	plan := tierPlan(o)
	var results []*Result
	harnessErrs := []string{}
	for i := range plan {
		p := &plan[i]
		p.Work = filepath.Join(o.Work, fmt.Sprintf("batch-%d", i))
		p.Self = self
		_ = os.MkdirAll(p.Work, 0o755)
		pp := filepath.Join(o.Work, fmt.Sprintf("params-%d.json", i))
		b, _ := json.Marshal(p)
		if err := os.WriteFile(pp, b, 0o644); err != nil {
			harnessErrs = append(harnessErrs, err.Error())
			continue
		}
		cmd := exec.Command(self, "-c16-child", pp, "-work", p.Work, "-replays", p.Work, "-tier", o.Tier, "-seed", fmt.Sprint(o.Seed))
		cmd.Stdout, cmd.Stderr = os.Stderr, os.Stderr
		if err := cmd.Run(); err != nil {
			harnessErrs = append(harnessErrs, fmt.Sprintf("batch segsize=%d: %v", p.SegSize, err))
			continue
		}
		rb, err := os.ReadFile(pp + ".result")
		if err != nil {
			harnessErrs = append(harnessErrs, err.Error())
			continue
		}
		var r Result
		dec := json.NewDecoder(bytes.NewReader(rb))
		dec.UseNumber() // keep 63-bit seeds inside samples exact
		if err := dec.Decode(&r); err != nil {
			harnessErrs = append(harnessErrs, err.Error())
			continue
		}
		results = append(results, &r)
		_ = os.RemoveAll(p.Work)
	}

	// ---- merge ----
	counters := map[string]int64{}
	classes := map[string]*ClassStat{}
	var seqs []SeqSummary
	var samples []interface{}
	notes := []string{}
	for _, r := range results {
		for k, v := range r.Counters {
			counters[k] += v
		}
		for k, c := range r.Classes {
			if cur := classes[k]; cur == nil {
				classes[k] = c
			} else {
				cur.Count += c.Count
			}
		}
		seqs = append(seqs, r.Seqs...)
		perKind := map[string]int{}
		for _, sm := range r.Samples {
			m, _ := sm.(map[string]interface{})
			kind, _ := m["kind"].(string)
			if perKind[kind] < 2 {
				perKind[kind]++
				samples = append(samples, sm)
			}
		}
		harnessErrs = append(harnessErrs, r.Errors...)
		notes = append(notes, r.Notes...)
	}

	// ---- verdicts ----
	kpath := KnownFindingsPath
	if e := os.Getenv("C16_KNOWN_FINDINGS"); e != "" {
		kpath = e // used by the mutation tests, which run away from /verif
	}
	known, kerr := LoadKnown(kpath)
	if kerr != nil {
		harnessErrs = append(harnessErrs, "known findings: "+kerr.Error())
	}
	var names []string
	for k := range classes {
		names = append(names, k)
	}
	sort.Strings(names)
	kfHits := map[string]int64{}
	kfClasses := map[string][]string{}
	kfWhat := map[string]string{}
	nviol := 0
	nreplay := 0
	type pendingViol struct {
		class string
		stat  *ClassStat
		rf    *ReplayFile
	}
	var pending []pendingViol
	violClasses := []string{}
	for _, k := range names {
		c := classes[k]
		v := c.Example
		rf := &ReplayFile{Property: "C16", Tier: o.Tier, Seed: o.Seed, SegSize: v.SegSize, Seq: v.SeqNo, Ops: v.Ops, Violation: v}
		for i, op := range v.Ops {
			rf.OpsText = append(rf.OpsText, fmt.Sprintf("%d: %s", i, op))
		}
		v.Ops = nil
		if kf := MatchKnown(known, v); kf != nil {
			kfHits[kf.ID] += c.Count
			kfClasses[kf.ID] = append(kfClasses[kf.ID], k)
			kfWhat[kf.ID] = kf.What
			continue
		}
		nviol++
		violClasses = append(violClasses, fmt.Sprintf("%s (x%d)", k, c.Count))
		pending = append(pending, pendingViol{k, c, rf})
	}
	// at most five witness files: first one per phase, then in class order
	withReplay := map[int]bool{}
	seenPhase := map[string]bool{}
	for i, pv := range pending {
		if len(withReplay) < 5 && !seenPhase[pv.rf.Violation.Phase] {
			seenPhase[pv.rf.Violation.Phase] = true
			withReplay[i] = true
		}
	}
	for i := range pending {
		if len(withReplay) < 5 {
			withReplay[i] = true
		}
	}
	for i, pv := range pending {
		path := "(replay limit reached)"
		if withReplay[i] {
			nreplay++
			path = filepath.Join(o.Replays, fmt.Sprintf("C16-%d-%d.json", o.Seed, nreplay))
			b, _ := json.MarshalIndent(pv.rf, "", " ")
			if err := os.WriteFile(path, b, 0o644); err != nil {
				harnessErrs = append(harnessErrs, err.Error())
			}
		}
		fmt.Printf("C16 violation class %q x%d: %s\n", pv.class, pv.stat.Count, pv.rf.Violation.Observed)
		common.Violation("C16", path)
	}
	var kfIDs []string
	for id := range kfHits {
		kfIDs = append(kfIDs, id)
	}
	sort.Strings(kfIDs)
	for _, id := range kfIDs {
		common.Known("C16", id+" "+kfWhat[id])
	}

	// ---- floors ----
	floors := []string{}
	floor := func(ok bool, msg string) {
		if !ok {
			floors = append(floors, msg)
		}
	}
	floor(counters["sequences"] > 0 && counters["sequences_without_cut"] == 0, "a sequence without a segment cut")
	floor(counters["pairs_exhaustive"] >= 1, "no exhaustive pair")
	floor(counters["crash_lost_sector_repaired"] >= 100, "fewer than 100 lost-sector crash states that needed Repair")
	floor(counters["wal_corruptions"] >= 1000, "fewer than 1000 corruptions inside written regions")
	floor(counters["snapshot_mutilations"] >= 100, "fewer than 100 snapshot mutilations")
	floor(counters["ops_save-entries-only"] >= counters["sequences"], "sequences do not end with an entries-only save")

	cov := map[string]interface{}{
		"evaluations":         counters["evaluations"],
		"distinct_nontrivial": counters["distinct_nontrivial"],
		"rule": "Cases are enumerated, not sampled by time. Per (seed, tier, segment size) a PRNG-driven adaptive generator produces op sequences against the real WAL; after every call the directory is imaged. " +
			"Crash states: for every (last synced image A, later image B) the 512-byte sectors that differ are D; a state is A plus a subset of D (all 2^|D| subsets when |D|<=12, else prefixes, suffixes, single-missing, single-present, all subsets of the last 10 and 256 PRNG subsets), with the segment created by a cut absent / present / still under its .tmp name, and with the file size following or not following lost sectors beyond the preallocation. " +
			"Corruptions: single-byte replacements (inv, zero, +1; thorough also the 8 bit flips) at offsets inside the written region of the final image. Snapshot mutilations: every byte x replacement, every truncation length, of the newest and second-newest .snap file. " +
			"distinct_nontrivial counts, through a hash set of case keys, the distinct crash states in which at least one sector of D was lost, plus the distinct (file, offset, replacement) WAL corruptions that change a byte inside a written region, plus the distinct snapshot mutilations; states without a lost sector (plain reopen at every op) are evaluated but not counted.",
		"samples":                        samples,
		"sequences":                      counters["sequences"],
		"sequence_summaries":             seqs,
		"segment_sizes":                  sizesOf(plan),
		"segment_cuts":                   counters["segment_cuts"],
		"pairs_exhaustive":               counters["pairs_exhaustive"],
		"pairs_sampled":                  counters["pairs_sampled"],
		"counters":                       counters,
		"known_finding_hits":             kfHits,
		"known_finding_classes":          kfClasses,
		"violation_classes":              violClasses,
		"harness_errors":                 harnessErrs,
		"floors_missed":                  floors,
		"notes":                          notes,
		"exhaustive":                     false,
		"open_corner_unsynced_save":      "A Save whose raft.MustSync(st, prevst, len(ents)) is false (commit-index-only change) is not flushed by design; the oracle demands durability up to the last call that had to sync (MustSync save, cut, SaveSnapshot, Close) and accepts any longer whole-record prefix.",
		"library_panics_on_corrupt_data": counters["corrupt_panic-failstop"],
	}
	ev := &evidence.Evidence{PropertyID: "C16", Tier: o.Tier, Seed: o.Seed, Level: "fault_enumeration", Coverage: cov,
		Assumptions: []string{
			"storage is sector-atomic (512 B) and segments are preallocated and zero-filled; only sectors written since the last fdatasync can be lost; a crash never produces bytes that were not written",
			"a file's on-disk size either follows the highest sector that reached the disk or was persisted ahead of the data (holes read as zeros); both are generated for writes beyond the preallocation",
			"within cut(), the old tail is durable before the new segment is written and the new segment gets its final name only after its own fdatasync (the code's order); states violating that order are not generated",
			"'synced' is derived from the library's documented rule (raft.MustSync, cut, SaveSnapshot, Close) and cross-checked against the bytes present in the files after each call; real fdatasync calls are observed only in the strace runs",
			"the recorder images the directory between calls, so in-process crash states are cut at call granularity; mid-call directory states (mid-cut) come from the strace kill-injection runs",
			"record payloads are opaque to the WAL; the generator keeps raft's invariants (snapshots at committed indexes, overrides only above the commit index)",
		},
		WallS: o.Elapsed(), Violations: nviol}
	if err := evidence.Write(o.Evidence, ev); err != nil {
		harnessErrs = append(harnessErrs, "evidence: "+err.Error())
	}
	fmt.Printf("C16 tier=%s seed=%d sequences=%d cuts=%d crash_states=%d (lost-sector %d, repaired %d) wal_corruptions=%d snapshot_mutilations=%d pcrash=%d evaluations=%d distinct_nontrivial=%d panics_failstop=%d known_hits=%v violations=%d wall=%.1fs\n",
		o.Tier, o.Seed, counters["sequences"], counters["segment_cuts"], counters["crash_states"], counters["crash_states_with_lost_sector"],
		counters["crash_lost_sector_repaired"], counters["wal_corruptions"], counters["snapshot_mutilations"], counters["pcrash_states"],
		counters["evaluations"], counters["distinct_nontrivial"], counters["corrupt_panic-failstop"], kfHits, nviol, o.Elapsed())
	switch {
	case nviol > 0:
		return common.ExitViolation
	case len(harnessErrs) > 0:
		common.Inconclusive("C16", "harness errors: "+strings.Join(harnessErrs, "; "))
		return common.ExitInconclusive
	case len(floors) > 0:
		common.Inconclusive("C16", "coverage floors missed: "+strings.Join(floors, "; "))
		return common.ExitInconclusive
	}
	return common.ExitHeld
}

func sizesOf(ps []Params) []int64 {
	var out []int64
	for _, p := range ps {
		out = append(out, p.SegSize)
	}
	return out
}

// Replay re-executes the case of a witness file.
func Replay(o *common.Opts) int {
	b, err := os.ReadFile(o.Replay)
	if err != nil {
		common.Inconclusive("C16", err.Error())
		return common.ExitInconclusive
	}
	var rf ReplayFile
	if err := json.Unmarshal(b, &rf); err != nil || rf.Violation == nil {
		common.Inconclusive("C16", fmt.Sprint("bad replay file: ", err))
		return common.ExitInconclusive
	}
	wal.SegmentSizeBytes = rf.SegSize
	v := rf.Violation
	cb := []byte(v.CaseJSON)
	dir := filepath.Join(o.Work, "replay", "wal")
	_ = os.MkdirAll(filepath.Dir(dir), 0o755)
	var cr *CaseResult
	if v.Phase == "snap" {
		var c SnapCase
		_ = json.Unmarshal(cb, &c)
		set, err := BuildSnapSet(filepath.Join(o.Work, "replay-set"), c.Set, c.SetSeed, c.K)
		if err != nil {
			common.Inconclusive("C16", err.Error())
			return common.ExitInconclusive
		}
		cr = set.CheckSnap(dir, &c)
	} else {
		if len(rf.Ops) == 0 {
			common.Inconclusive("C16", "replay file has no op list")
			return common.ExitInconclusive
		}
		rec, err := Record(filepath.Join(o.Work, "replay-rec", "wal"), rf.SegSize, &listSource{ops: rf.Ops}, nil)
		if err != nil {
			common.Inconclusive("C16", err.Error())
			return common.ExitInconclusive
		}
		rec.SeqNo = rf.Seq
		switch v.Phase {
		case "record":
			cr = &CaseResult{Outcome: "held"}
			if len(rec.Problems) > 0 {
				cr = &CaseResult{Outcome: "violation", Viols: []*Violation{{Class: v.Class, Observed: strings.Join(rec.Problems, "; ")}}}
			}
		case "crash", "continue":
			var c CrashCase
			_ = json.Unmarshal(cb, &c)
			if len(rec.Problems) > 0 || c.B >= len(rec.Steps) {
				common.Inconclusive("C16", fmt.Sprint("recording differs: ", rec.Problems))
				return common.ExitInconclusive
			}
			cr = rec.CheckCrash(dir, &c, v.Phase == "continue")
		case "corrupt":
			var c CorruptCase
			_ = json.Unmarshal(cb, &c)
			if len(rec.Problems) > 0 || len(rec.Steps) != len(rec.Ops) {
				common.Inconclusive("C16", fmt.Sprint("recording differs: ", rec.Problems))
				return common.ExitInconclusive
			}
			cr = rec.CheckCorrupt(dir, &c, true)
		case "pcrash", "trace":
			cr = replayStrace(o, rec, &rf, cb)
		default:
			common.Inconclusive("C16", "unknown phase "+v.Phase)
			return common.ExitInconclusive
		}
	}
	if len(cr.Viols) > 0 {
		for _, x := range cr.Viols {
			fmt.Printf("C16 replay: class %q: %s\n  accepted: %s\n", x.Class, x.Observed, x.Accepted)
		}
		common.Violation("C16", o.Replay)
		return common.ExitViolation
	}
	fmt.Printf("C16 replay: outcome %s (no violation)\n", cr.Outcome)
	return common.ExitHeld
}
