package walfault

import (
	"bytes"
	"math/rand"
	"sort"
)

// Sector identifies one 512-byte sector of a segment file that differs
// between the last synced image A and a later image B.
type Sector struct {
	File string `json:"f"`
	Idx  int    `json:"s"`
}

// Pair is (last synced image A, later image B) with the sectors D written in
// between, in write order. Sectors of a segment created by a cut come after
// a barrier: cut() fdatasyncs the old tail before it writes the new segment,
// and renames the new segment into place only after fdatasyncing it.
type Pair struct {
	A, B       int
	Old        []Sector // sectors of files that exist in A
	New        []Sector // non-zero sectors of the segment created between A and B
	NewFile    string
	Extends    bool // some file of A is longer in B (write past the preallocation)
	NMin, NMax int
	Exhaustive bool
}

// CrashCase is one enumerated crash state.
type CrashCase struct {
	Seq     int      `json:"seq"`
	A       int      `json:"a"`
	B       int      `json:"b"`
	Present []Sector `json:"present"`  // sectors of D that reached the disk
	NLost   int      `json:"lost"`     // sectors of D that did not
	NewMode string   `json:"new_mode"` // "" | absent | final | tmp0 | tmp1
	LenMode string   `json:"len_mode"` // follow | full
	ExtLost bool     `json:"ext_lost"` // a lost sector lies beyond the old file length
}

func sectorOf(b []byte, s int) []byte {
	lo := s * SectorSize
	if lo >= len(b) {
		return nil
	}
	hi := lo + SectorSize
	if hi > len(b) {
		hi = len(b)
	}
	return b[lo:hi]
}

func allZero(b []byte) bool {
	for _, v := range b {
		if v != 0 {
			return false
		}
	}
	return true
}

func sectorsEqual(a, b []byte) bool {
	// compare with implicit zero extension to a full sector
	if len(a) < len(b) {
		a, b = b, a
	}
	return bytes.Equal(a[:len(b)], b) && allZero(a[len(b):])
}

// Pairs computes the crash pairs of a recording.
func (r *Recording) Pairs() []Pair {
	var out []Pair
	lastSync := 0
	for i := 1; i < len(r.Steps); i++ {
		a := lastSync
		if r.Steps[i].Synced {
			lastSync = i
		}
		A, B := r.Steps[a].Img, r.Steps[i].Img
		// identical to the previous later image: nothing new to enumerate
		if i-1 > a && sameImage(r.Steps[i-1].Img, B) {
			continue
		}
		p := Pair{A: a, B: i, NMin: r.Steps[a].Dur, NMax: r.Steps[i].NRec}
		for _, n := range WALNames(B) {
			bb := B[n]
			ab, inA := A[n]
			ns := (len(bb) + SectorSize - 1) / SectorSize
			if inA && len(ab) > len(bb) {
				ns = (len(ab) + SectorSize - 1) / SectorSize
			}
			if inA && len(bb) > len(ab) {
				p.Extends = true
			}
			for s := 0; s < ns; s++ {
				if inA {
					if !sectorsEqual(sectorOf(ab, s), sectorOf(bb, s)) {
						p.Old = append(p.Old, Sector{n, s})
					}
				} else if !allZero(sectorOf(bb, s)) {
					p.New = append(p.New, Sector{n, s})
				}
			}
			if !inA {
				p.NewFile = n
			}
		}
		if len(p.Old) == 0 && len(p.New) == 0 && p.NewFile == "" {
			continue
		}
		p.Exhaustive = len(p.Old) <= exhaustiveLimit && len(p.New) <= exhaustiveLimit
		out = append(out, p)
	}
	return out
}

const exhaustiveLimit = 12

func sameImage(a, b map[string][]byte) bool {
	if len(a) != len(b) {
		return false
	}
	for n, x := range a {
		y, ok := b[n]
		if !ok || !bytes.Equal(x, y) {
			return false
		}
	}
	return true
}

// subsets enumerates subsets of {0..m-1} as bool slices: all of them when
// m <= exhaustiveLimit, otherwise the sampled family of the design.
func subsets(m int, rng *rand.Rand) [][]bool {
	var out [][]bool
	seen := map[string]bool{}
	add := func(s []bool) {
		k := make([]byte, m)
		for i, v := range s {
			if v {
				k[i] = 1
			}
		}
		if seen[string(k)] {
			return
		}
		seen[string(k)] = true
		out = append(out, s)
	}
	if m <= exhaustiveLimit {
		for mask := 0; mask < 1<<uint(m); mask++ {
			s := make([]bool, m)
			for i := 0; i < m; i++ {
				s[i] = mask&(1<<uint(i)) != 0
			}
			add(s)
		}
		return out
	}
	for k := 0; k <= m; k++ { // prefixes and suffixes in write order
		p, q := make([]bool, m), make([]bool, m)
		for i := 0; i < m; i++ {
			p[i] = i < k
			q[i] = i >= m-k
		}
		add(p)
		add(q)
	}
	for k := 0; k < m; k++ { // single sector missing / present
		p, q := make([]bool, m), make([]bool, m)
		for i := 0; i < m; i++ {
			p[i] = i != k
			q[i] = i == k
		}
		add(p)
		add(q)
	}
	for mask := 0; mask < 1<<10; mask++ { // all subsets of the last 10 sectors
		s := make([]bool, m)
		for i := 0; i < m-10; i++ {
			s[i] = true
		}
		for i := 0; i < 10; i++ {
			s[m-10+i] = mask&(1<<uint(i)) != 0
		}
		add(s)
	}
	for k := 0; k < 256; k++ {
		s := make([]bool, m)
		for i := range s {
			s[i] = rng.Intn(2) == 0
		}
		add(s)
	}
	return out
}

// Cases enumerates the crash states of a pair.
func (r *Recording) Cases(p *Pair, rng *rand.Rand) []CrashCase {
	var out []CrashCase
	A := r.Steps[p.A].Img
	mk := func(oldSel, newSel []bool, newMode string) {
		c := CrashCase{Seq: r.SeqNo, A: p.A, B: p.B, NewMode: newMode, LenMode: "follow"}
		for i, s := range p.Old {
			if oldSel[i] {
				c.Present = append(c.Present, s)
			} else {
				c.NLost++
				if s.Idx*SectorSize >= len(A[s.File]) {
					c.ExtLost = true
				}
			}
		}
		for i, s := range p.New {
			if newSel != nil && newSel[i] {
				c.Present = append(c.Present, s)
			} else {
				c.NLost++
			}
		}
		out = append(out, c)
		if c.ExtLost {
			// the file size reached the disk although some of the data did
			// not (holes read back as zeros)
			c2 := c
			c2.LenMode = "full"
			out = append(out, c2)
		}
	}
	oldSubs := subsets(len(p.Old), rng)
	if p.NewFile == "" {
		for _, s := range oldSubs {
			mk(s, nil, "")
		}
		return out
	}
	full := make([]bool, len(p.Old))
	for i := range full {
		full[i] = true
	}
	for _, s := range oldSubs {
		mk(s, nil, "absent")
	}
	newFull := make([]bool, len(p.New))
	for i := range newFull {
		newFull[i] = true
	}
	for _, s := range subsets(len(p.New), rng) {
		mk(full, s, "final")
	}
	mk(full, newFull, "tmp0")
	mk(full, newFull, "tmp1")
	return out
}

// Build materialises a crash state as name -> bytes.
func (r *Recording) Build(c *CrashCase) map[string][]byte {
	A, B := r.Steps[c.A].Img, r.Steps[c.B].Img
	out := map[string][]byte{}
	byFile := map[string][]int{}
	for _, s := range c.Present {
		byFile[s.File] = append(byFile[s.File], s.Idx)
	}
	for n, ab := range A {
		bb := B[n]
		ss := byFile[n]
		if len(ss) == 0 && (len(bb) <= len(ab) || c.LenMode != "full") {
			out[n] = ab
			continue
		}
		sort.Ints(ss)
		L := len(ab)
		if len(bb) > len(ab) {
			if c.LenMode == "full" {
				L = len(bb)
			} else if len(ss) > 0 {
				hi := (ss[len(ss)-1] + 1) * SectorSize
				if hi > len(bb) {
					hi = len(bb)
				}
				if hi > L {
					L = hi
				}
			}
		} else if len(bb) < len(ab) && len(ss) > 0 {
			L = len(bb) // not expected: files never shrink
		}
		f := make([]byte, L)
		copy(f, ab)
		for _, s := range ss {
			src := sectorOf(bb, s)
			if s*SectorSize < L {
				copy(f[s*SectorSize:], src)
			}
		}
		out[n] = f
	}
	for n, bb := range B {
		if _, ok := A[n]; ok {
			continue
		}
		if c.NewMode == "absent" || c.NewMode == "" {
			continue
		}
		f := make([]byte, len(bb))
		for _, s := range byFile[n] {
			copy(f[s*SectorSize:], sectorOf(bb, s))
		}
		switch c.NewMode {
		case "final":
			out[n] = f
		case "tmp0":
			out["0.tmp"] = f
		case "tmp1":
			out["1.tmp"] = f
		}
	}
	return out
}
