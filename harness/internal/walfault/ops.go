package walfault

import (
	"encoding/binary"
	"fmt"
	"math/rand"

	"go.etcd.io/etcd/raft/v3/raftpb"
)

// Payload describes a byte string compactly so that op sequences can be
// stored in replay files.
type Payload struct {
	Kind string `json:"k"` // nil | rand | zero | ff | frame | proto | text
	Len  int    `json:"n"`
	Seed int64  `json:"s,omitempty"`
}

// Bytes materialises the payload.
func (p Payload) Bytes() []byte {
	switch p.Kind {
	case "nil", "":
		return nil
	case "zero":
		return make([]byte, p.Len)
	case "ff":
		b := make([]byte, p.Len)
		for i := range b {
			b[i] = 0xff
		}
		return b
	case "text":
		b := make([]byte, p.Len)
		for i := range b {
			b[i] = "etcd-wal-meta"[i%13]
		}
		return b
	case "proto":
		// bytes that parse as raftpb.Entry / HardState / walpb.Snapshot
		// (two varint fields), as etcdserver's metadata does.
		b := []byte{0x08, byte(1 + p.Seed%100), 0x10, byte(1 + (p.Seed/100)%100)}
		return b
	case "frame":
		return frameLookalike(p.Len, p.Seed)
	default: // rand
		r := rand.New(rand.NewSource(p.Seed))
		b := make([]byte, p.Len)
		for i := range b {
			b[i] = byte(r.Intn(256))
		}
		if p.Len > 0 && b[0] == 0 {
			b[0] = 1
		}
		return b
	}
}

// frameLookalike builds n bytes that look like a run of valid WAL frames
// (length field, record with type/crc/data, 8-byte padding), so that a
// decoder that ever resynchronised inside a payload would accept them.
func frameLookalike(n int, seed int64) []byte {
	r := rand.New(rand.NewSource(seed))
	var out []byte
	prev := uint32(0)
	idx := uint64(1 + r.Intn(1000))
	for len(out) < n {
		e := raftpb.Entry{Term: uint64(1 + r.Intn(5)), Index: idx, Data: []byte(fmt.Sprintf("fake-%d", idx))}
		idx++
		d, _ := e.Marshal()
		prev = chainCRC(prev, d)
		rec := []byte{0x08, RecEntry, 0x10}
		var tmp [10]byte
		k := binary.PutUvarint(tmp[:], uint64(prev))
		rec = append(rec, tmp[:k]...)
		rec = append(rec, 0x1a)
		k = binary.PutUvarint(tmp[:], uint64(len(d)))
		rec = append(rec, tmp[:k]...)
		rec = append(rec, d...)
		pad := (8 - len(rec)%8) % 8
		l := uint64(len(rec))
		if pad != 0 {
			l |= uint64(0x80|pad) << 56
		}
		var hdr [8]byte
		binary.LittleEndian.PutUint64(hdr[:], l)
		out = append(out, hdr[:]...)
		out = append(out, rec...)
		out = append(out, make([]byte, pad)...)
	}
	return out[:n]
}

// EntryDesc is one raft entry of a Save op.
type EntryDesc struct {
	Index uint64  `json:"i"`
	Term  uint64  `json:"t"`
	Type  int32   `json:"y,omitempty"`
	Data  Payload `json:"d"`
}

// StateDesc is a raft hard state.
type StateDesc struct {
	Term   uint64 `json:"term"`
	Vote   uint64 `json:"vote"`
	Commit uint64 `json:"commit"`
}

// Empty reports whether the state is the empty hard state.
func (s StateDesc) Empty() bool { return s.Term == 0 && s.Vote == 0 && s.Commit == 0 }

// HS converts to raftpb.
func (s StateDesc) HS() raftpb.HardState {
	return raftpb.HardState{Term: s.Term, Vote: s.Vote, Commit: s.Commit}
}

// Op is one call made by the recorder.
type Op struct {
	Kind    string      `json:"kind"` // create | save | snapshot | release | reopen | close
	Meta    *Payload    `json:"meta,omitempty"`
	St      StateDesc   `json:"st,omitempty"`
	Ents    []EntryDesc `json:"ents,omitempty"`
	SnapIdx uint64      `json:"snap_index,omitempty"`
	SnapTrm uint64      `json:"snap_term,omitempty"`
	Release uint64      `json:"release,omitempty"`
	Note    string      `json:"note,omitempty"`
}

// String is a short human-readable form.
func (o Op) String() string {
	switch o.Kind {
	case "create":
		return fmt.Sprintf("create(meta=%s/%d)", o.Meta.Kind, o.Meta.Len)
	case "save":
		s := "save("
		if o.St.Empty() {
			s += "st=empty"
		} else {
			s += fmt.Sprintf("st={t%d v%d c%d}", o.St.Term, o.St.Vote, o.St.Commit)
		}
		for _, e := range o.Ents {
			s += fmt.Sprintf(" e[i%d t%d %s/%d]", e.Index, e.Term, e.Data.Kind, e.Data.Len)
		}
		s += ")"
		if o.Note != "" {
			s += "#" + o.Note
		}
		return s
	case "snapshot":
		return fmt.Sprintf("snapshot(i%d t%d)%s", o.SnapIdx, o.SnapTrm, noteSuffix(o.Note))
	case "release":
		return fmt.Sprintf("release(%d)", o.Release)
	}
	return o.Kind
}

func noteSuffix(n string) string {
	if n == "" {
		return ""
	}
	return "#" + n
}

// Obs is what the adaptive generator sees after each op.
type Obs struct {
	TailOff int64 // logical end offset of the tail segment (flushed + buffered)
	PrevCRC uint32
	JustCut bool
	Cuts    int
}

// Gen generates op sequences. It is adaptive (it aims at segment, page and
// sector boundaries using the observed tail offset) but deterministic given
// (seed, segment size) and an unchanged library; replay files carry the
// explicit op list.
type Gen struct {
	r       *rand.Rand
	seg     int64
	nops    int
	maxBig  int
	ids     []uint64
	idx     uint64 // last entry index
	lastTrm uint64 // term of last entry
	term    uint64
	vote    uint64
	commit  uint64
	snapIdx uint64
	terms   map[uint64]uint64 // index -> term of current log
	nbig    int
	emitted int
	huge    bool
	seqNo   int
	// lagScript: a snapshot marker that lags behind the log tail while a segment cut is pending, then a
	// commit-only save (which performs the cut), a newer snapshot at or below the old tail, and a reopen there
	lagScript int
}

// NewGen returns a generator.
func NewGen(seed int64, seqNo int, seg int64, nops, maxBig int) *Gen {
	g := &Gen{r: rand.New(rand.NewSource(seed)), seg: seg, nops: nops, maxBig: maxBig, terms: map[uint64]uint64{}, seqNo: seqNo}
	if seqNo%2 == 0 {
		g.ids = []uint64{1, 2, 3}
	} else {
		// etcd member IDs are 64-bit hashes: 9-10 byte varints
		g.ids = []uint64{0x8e9e05c52164694d, 0xfd422379fda50e48, 0x91bc3c398fb3c146}
	}
	g.term = 1
	return g
}

var smallSizes = []int{0, 1, 7, 8, 9, 15, 16, 17, 31, 33, 64, 100, 130, 200, 300}

func (g *Gen) payload(n int) Payload {
	k := "rand"
	switch g.r.Intn(8) {
	case 0:
		k = "ff"
	case 1:
		if n >= 64 {
			k = "frame"
		}
	}
	return Payload{Kind: k, Len: n, Seed: g.r.Int63()}
}

func (g *Gen) smallPayload() Payload {
	x := g.r.Intn(10)
	switch {
	case x < 6:
		return g.payload(smallSizes[g.r.Intn(len(smallSizes))])
	case x < 9:
		return g.payload(500 + g.r.Intn(21))
	default:
		return g.payload(400 + g.r.Intn(300))
	}
}

func (g *Gen) bigPayload() Payload {
	g.nbig++
	switch g.r.Intn(4) {
	case 0:
		return g.payload(4080 + g.r.Intn(21))
	case 1:
		return Payload{Kind: "zero", Len: 1024 + 512*g.r.Intn(3) + g.r.Intn(2)*7}
	case 2:
		return Payload{Kind: "frame", Len: 600 + g.r.Intn(1400), Seed: g.r.Int63()}
	default:
		return g.payload(1000 + g.r.Intn(1600))
	}
}

func (g *Gen) nextEntry(p Payload) EntryDesc {
	g.idx++
	g.lastTrm = g.term
	g.terms[g.idx] = g.term
	e := EntryDesc{Index: g.idx, Term: g.term, Data: p}
	if g.r.Intn(12) == 0 {
		e.Type = 1
	}
	return e
}

func (g *Gen) advanceCommit() {
	if g.commit < g.idx {
		g.commit += uint64(1 + g.r.Intn(int(g.idx-g.commit)))
	}
}

func (g *Gen) state() StateDesc { return StateDesc{Term: g.term, Vote: g.vote, Commit: g.commit} }

// entryFrameSize is the frame size of an entry record with payload length n.
func entryFrameSize(e EntryDesc, crc uint32) int {
	d := 1 + sov(uint64(e.Type)) + 1 + sov(e.Term) + 1 + sov(e.Index)
	if e.Data.Kind != "nil" && e.Data.Kind != "" {
		d += 1 + sov(uint64(e.Data.Len)) + e.Data.Len
	}
	return frameSize(recordSize(RecEntry, crc, d, true))
}

// fitEntry returns an entry whose frame is as close as possible to want
// bytes long (5-byte CRC varint assumed; the exact CRC is not known yet).
func (g *Gen) fitEntry(want int) EntryDesc {
	e := EntryDesc{Index: g.idx + 1, Term: g.term, Data: Payload{Kind: "rand", Len: 0, Seed: g.r.Int63()}}
	best, bestD := 0, 1<<30
	for n := 0; n <= want; n++ {
		e.Data.Len = n
		d := entryFrameSize(e, 0xffffffff) - want
		if d < 0 {
			d = -d
		}
		if d < bestD {
			best, bestD = n, d
		}
	}
	return g.nextEntry(Payload{Kind: "rand", Len: best, Seed: g.r.Int63()})
}

// First returns the create op.
func (g *Gen) First() Op {
	var m Payload
	switch (g.seqNo + int(g.r.Intn(2))) % 5 {
	case 0:
		m = Payload{Kind: "text", Len: 4}
	case 1:
		m = Payload{Kind: "proto", Len: 4, Seed: g.r.Int63n(10000)}
	case 2:
		m = Payload{Kind: "rand", Len: 600 + g.r.Intn(40), Seed: g.r.Int63()}
	case 3:
		m = Payload{Kind: "nil"}
	default:
		m = Payload{Kind: "proto", Len: 4, Seed: g.r.Int63n(10000)}
	}
	g.emitted++
	return Op{Kind: "create", Meta: &m}
}

// Next returns the next op, or false when the sequence is complete.
func (g *Gen) Next(o Obs) (Op, bool) {
	g.emitted++
	left := g.nops - g.emitted
	switch {
	case left < 0:
		return Op{}, false
	case left == 0:
		return Op{Kind: "close"}, true
	case left == 1:
		// final save is entries-only: the last record of the log is an entry
		n := 1 + g.r.Intn(2)
		op := Op{Kind: "save", Note: "final-entries-only"}
		for i := 0; i < n; i++ {
			op.Ents = append(op.Ents, g.nextEntry(g.smallPayload()))
		}
		return op, true
	case left == 2 && g.r.Intn(2) == 0 && g.commit < g.idx:
		g.advanceCommit()
		return Op{Kind: "save", St: g.state(), Note: "commit-only"}, true
	}

	remaining := g.seg - o.TailOff
	switch {
	case g.lagScript == 0 && remaining <= 0 && left > 6 && g.commit > g.snapIdx+1 && g.idx > g.snapIdx+2 && g.r.Intn(2) == 0:
		// the cut is pending (the tail crossed the segment size); the marker names an index well below the tail
		g.lagScript = 1
		g.snapIdx++
		return Op{Kind: "snapshot", SnapIdx: g.snapIdx, SnapTrm: g.terms[g.snapIdx], Note: "lagging-while-cut-pending"}, true
	case g.lagScript == 1:
		g.lagScript = 2
		if g.commit < g.idx {
			g.advanceCommit()
		}
		return Op{Kind: "save", St: g.state(), Note: "commit-only-performs-the-cut"}, true
	case g.lagScript == 2 && g.commit > g.snapIdx:
		g.lagScript = 3
		return g.snapshot("newer-marker-below-the-old-tail"), true
	case g.lagScript == 3:
		g.lagScript = 4
		return Op{Kind: "reopen"}, true
	}
	if o.JustCut && g.commit > g.snapIdx && g.r.Intn(5) < 2 {
		return g.snapshot("after-cut"), true
	}
	// make sure every sequence cuts at least once, early enough to leave
	// room for post-cut ops
	if o.Cuts == 0 && g.emitted*2 > g.nops && remaining > 0 {
		g.nbig++
		n := int(remaining)
		if n > 3000 {
			n = 3000
		}
		op := Op{Kind: "save", Note: "force-cut"}
		op.Ents = append(op.Ents, g.nextEntry(g.payload(n)))
		g.advanceCommit()
		op.St = g.state()
		return op, true
	}
	// one save that rewrites more than 12 sectors in a single flush (the
	// sampled, non-exhaustive crash-state family), in every fourth sequence
	if !g.huge && g.seqNo%4 == 0 && g.emitted*3 > g.nops {
		g.huge = true
		op := Op{Kind: "save", Note: "huge"}
		op.Ents = append(op.Ents, g.nextEntry(g.payload(4080+g.r.Intn(21))), g.nextEntry(g.payload(2500+g.r.Intn(600))))
		g.advanceCommit()
		op.St = g.state()
		return op, true
	}
	if remaining > 0 && remaining <= 700 && g.r.Intn(10) < 7 {
		switch g.r.Intn(6) {
		case 0:
			if g.commit > g.snapIdx {
				return g.snapshot("before-cut"), true
			}
			fallthrough
		case 1, 2:
			// a record that ends exactly at / just before / just after the
			// segment boundary
			delta := []int{0, -8, 8, -16, 16, 24}[g.r.Intn(6)]
			want := int(remaining) + delta
			if want < 32 {
				want = 32
			}
			op := Op{Kind: "save", Note: fmt.Sprintf("fit%+d", delta)}
			op.Ents = append(op.Ents, g.fitEntry(want))
			if g.r.Intn(2) == 0 {
				g.advanceCommit()
				op.St = g.state()
			}
			return op, true
		case 3:
			// two entries: the first stays below the boundary, the second
			// crosses it (a save straddling the cut threshold)
			op := Op{Kind: "save", Note: "straddle"}
			w := int(remaining) / 2
			if w < 32 {
				w = 32
			}
			op.Ents = append(op.Ents, g.fitEntry(w), g.nextEntry(g.payload(int(remaining)/2+200)))
			g.advanceCommit()
			op.St = g.state()
			return op, true
		}
	}

	for tries := 0; tries < 20; tries++ {
		x := g.r.Intn(100)
		switch {
		case x < 22:
			op := Op{Kind: "save"}
			op.Ents = append(op.Ents, g.nextEntry(g.smallPayload()))
			if g.r.Intn(5) < 3 {
				g.advanceCommit()
			}
			op.St = g.state()
			return op, true
		case x < 34:
			op := Op{Kind: "save"}
			n := 2 + g.r.Intn(2)
			for i := 0; i < n; i++ {
				op.Ents = append(op.Ents, g.nextEntry(g.smallPayload()))
			}
			if g.r.Intn(3) > 0 {
				g.advanceCommit()
			}
			op.St = g.state()
			return op, true
		case x < 46:
			op := Op{Kind: "save", Note: "entries-only"}
			n := 1 + g.r.Intn(2)
			for i := 0; i < n; i++ {
				op.Ents = append(op.Ents, g.nextEntry(g.smallPayload()))
			}
			return op, true
		case x < 55:
			if g.commit >= g.idx {
				continue
			}
			g.advanceCommit()
			return Op{Kind: "save", St: g.state(), Note: "commit-only"}, true
		case x < 61:
			if g.term > 0 && g.r.Intn(2) == 0 {
				// the vote alone changes, inside a term that is already recorded, with nothing else in the call: it
				// has to be on the disk when the call returns (the node answers the candidate next)
				v := g.ids[g.r.Intn(len(g.ids))]
				if v == g.vote {
					v = g.ids[(g.r.Intn(len(g.ids)-1)+1)%len(g.ids)]
					if v == g.vote {
						v = 0
					}
				}
				g.vote = v
				return Op{Kind: "save", St: g.state(), Note: "vote-only"}, true
			}
			g.term += uint64(1 + g.r.Intn(2))
			g.vote = g.ids[g.r.Intn(len(g.ids))]
			if g.r.Intn(3) == 0 {
				g.vote = 0
			}
			return Op{Kind: "save", St: g.state(), Note: "term-vote"}, true
		case x < 67:
			if g.idx <= g.commit || g.idx <= g.snapIdx {
				continue
			}
			// a new leader overwrites the uncommitted tail (raft fig. 7)
			g.term++
			g.vote = g.ids[g.r.Intn(len(g.ids))]
			from := g.commit + 1 + uint64(g.r.Intn(int(g.idx-g.commit)))
			g.idx = from - 1
			op := Op{Kind: "save", Note: fmt.Sprintf("override-from-%d", from)}
			n := 1 + g.r.Intn(3)
			for i := 0; i < n; i++ {
				op.Ents = append(op.Ents, g.nextEntry(g.smallPayload()))
			}
			op.St = g.state()
			return op, true
		case x < 74:
			if g.nbig >= g.maxBig {
				continue
			}
			op := Op{Kind: "save", Note: "big"}
			op.Ents = append(op.Ents, g.nextEntry(g.bigPayload()))
			if g.r.Intn(2) == 0 {
				op.Ents = append(op.Ents, g.nextEntry(g.smallPayload()))
			}
			if g.r.Intn(3) > 0 {
				g.advanceCommit()
				op.St = g.state()
			}
			return op, true
		case x < 82:
			if g.commit <= g.snapIdx {
				continue
			}
			return g.snapshot(""), true
		case x < 87:
			return Op{Kind: "release", Release: g.snapIdx + uint64(g.r.Intn(3))}, true
		case x < 95:
			return Op{Kind: "reopen"}, true
		default:
			return Op{Kind: "save", Note: "noop"}, true
		}
	}
	op := Op{Kind: "save"}
	op.Ents = append(op.Ents, g.nextEntry(g.smallPayload()))
	g.advanceCommit()
	op.St = g.state()
	return op, true
}

func (g *Gen) snapshot(note string) Op {
	// any committed index newer than the previous snapshot
	i := g.snapIdx + 1 + uint64(g.r.Intn(int(g.commit-g.snapIdx)))
	g.snapIdx = i
	return Op{Kind: "snapshot", SnapIdx: i, SnapTrm: g.terms[i], Note: note}
}
