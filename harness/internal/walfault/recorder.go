package walfault

import (
	"bytes"
	"fmt"
	"os"
	"path/filepath"
	"strings"

	"go.etcd.io/etcd/pkg/v3/pbutil"
	"go.etcd.io/etcd/raft/v3"
	"go.etcd.io/etcd/raft/v3/raftpb"
	"go.etcd.io/etcd/server/v3/storage/wal"
	"go.etcd.io/etcd/server/v3/storage/wal/walpb"
	"go.uber.org/zap"
)

var nopLog = zap.NewNop()

// LRec is one logical record of the ground truth: what the recorder asked the
// WAL to append (or what a cut / Create appends as a file header).
type LRec struct {
	Type    int64
	Data    []byte
	FileSeq uint64
	Op      int
	Ent     *raftpb.Entry
	St      *raftpb.HardState
	Snap    *walpb.Snapshot
}

// Step is the observation after one op returned.
type Step struct {
	Img    map[string][]byte // segment files only
	Tmp    []string          // *.tmp names seen (file pipeline; nondeterministic)
	NRec   int               // whole records physically present in Img
	LRec   int               // records logically appended so far
	Dur    int               // records that must survive a crash after this op
	Synced bool
	Cut    bool
}

// Recording is one executed op sequence with its ground truth.
type Recording struct {
	ID       string
	SeqNo    int
	GenSeed  int64
	SegSize  int64
	Ops      []Op
	Steps    []Step
	L        []LRec
	Phys     []Frame // frames of the final image
	Meta     []byte
	Cuts     int
	Problems []string // recorder-level violations (library wrote something else than asked)
}

func readImage(dir string, prev map[string][]byte) (map[string][]byte, []string, error) {
	es, err := os.ReadDir(dir)
	if err != nil {
		return nil, nil, err
	}
	img := map[string][]byte{}
	var tmp []string
	for _, e := range es {
		n := e.Name()
		if strings.HasSuffix(n, ".tmp") {
			tmp = append(tmp, n)
			continue
		}
		if !IsWALName(n) {
			continue
		}
		b, err := os.ReadFile(filepath.Join(dir, n))
		if err != nil {
			return nil, nil, err
		}
		if p, ok := prev[n]; ok && bytes.Equal(p, b) {
			b = p
		}
		img[n] = b
	}
	return img, tmp, nil
}

func confState() *raftpb.ConfState { return &raftpb.ConfState{Voters: []uint64{1, 2, 3}} }

func (e EntryDesc) entry() raftpb.Entry {
	return raftpb.Entry{Index: e.Index, Term: e.Term, Type: raftpb.EntryType(e.Type), Data: e.Data.Bytes()}
}

// latestSnap returns the newest snapshot record among recs (Index/Term only).
func latestSnap(recs []LRec) walpb.Snapshot {
	for i := len(recs) - 1; i >= 0; i-- {
		if recs[i].Type == RecSnapshot {
			return walpb.Snapshot{Index: recs[i].Snap.Index, Term: recs[i].Snap.Term}
		}
	}
	return walpb.Snapshot{}
}

// OpSource yields ops.
type OpSource interface {
	First() Op
	Next(Obs) (Op, bool)
}

// listSource replays an explicit op list.
type listSource struct {
	ops []Op
	i   int
}

func (l *listSource) First() Op { l.i = 1; return l.ops[0] }
func (l *listSource) Next(Obs) (Op, bool) {
	if l.i >= len(l.ops) {
		return Op{}, false
	}
	l.i++
	return l.ops[l.i-1], true
}

// safely runs f and converts a panic into an error string.
func safely(f func() error) (err error, panicked string) {
	defer func() {
		if r := recover(); r != nil {
			panicked = fmt.Sprint(r)
		}
	}()
	return f(), ""
}

// Record executes an op sequence against the real WAL in dir (which must not
// exist) and returns the recording. hook, if non-nil, is called after every
// op returned (used by the process-crash child to journal progress).
func Record(dir string, seg int64, src OpSource, hook func(i int)) (*Recording, error) {
	if wal.SegmentSizeBytes != seg {
		return nil, fmt.Errorf("segment size is %d, recording wants %d", wal.SegmentSizeBytes, seg)
	}
	rec := &Recording{SegSize: seg}
	var w *wal.WAL
	var prevst raftpb.HardState // mirrors WAL.state (reset on open!)
	var prevImg map[string][]byte
	curSeq := uint64(0)
	closed := false
	defer func() {
		if w != nil && !closed {
			_, _ = safely(func() error { return w.Close() })
		}
	}()

	add := func(r LRec) {
		r.Op = len(rec.Ops) - 1
		rec.L = append(rec.L, r)
	}
	obs := Obs{}
	op := src.First()
	for i := 0; ; i++ {
		rec.Ops = append(rec.Ops, op)
		st := Step{}
		var err error
		var pmsg string
		switch op.Kind {
		case "create":
			rec.Meta = op.Meta.Bytes()
			err, pmsg = safely(func() error {
				var e error
				w, e = wal.Create(nopLog, dir, rec.Meta)
				return e
			})
			add(LRec{Type: RecCrc, FileSeq: 0})
			add(LRec{Type: RecMetadata, Data: rec.Meta, FileSeq: 0})
			s0 := walpb.Snapshot{}
			add(LRec{Type: RecSnapshot, Data: pbutil.MustMarshal(&s0), FileSeq: 0, Snap: &s0})
			st.Synced = true
		case "save":
			hs := op.St.HS()
			ents := make([]raftpb.Entry, len(op.Ents))
			for k := range op.Ents {
				ents[k] = op.Ents[k].entry()
			}
			if !(raft.IsEmptyHardState(hs) && len(ents) == 0) {
				st.Synced = raft.MustSync(hs, prevst, len(ents))
			}
			err, pmsg = safely(func() error { return w.Save(hs, ents) })
			for k := range ents {
				e := ents[k]
				add(LRec{Type: RecEntry, Data: pbutil.MustMarshal(&e), FileSeq: curSeq, Ent: &e})
			}
			if !raft.IsEmptyHardState(hs) {
				h := hs
				add(LRec{Type: RecState, Data: pbutil.MustMarshal(&h), FileSeq: curSeq, St: &h})
				prevst = hs
			}
		case "snapshot":
			s := walpb.Snapshot{Index: op.SnapIdx, Term: op.SnapTrm, ConfState: confState()}
			err, pmsg = safely(func() error { return w.SaveSnapshot(s) })
			add(LRec{Type: RecSnapshot, Data: pbutil.MustMarshal(&s), FileSeq: curSeq, Snap: &s})
			st.Synced = true
		case "release":
			err, pmsg = safely(func() error { return w.ReleaseLockTo(op.Release) })
		case "reopen":
			err, pmsg = safely(func() error {
				if e := w.Close(); e != nil {
					return e
				}
				closed = true
				start := latestSnap(rec.L)
				var e error
				w, e = wal.Open(nopLog, dir, start)
				if e != nil {
					return e
				}
				closed = false
				md, hst, ents, e := w.ReadAll()
				if e != nil {
					return fmt.Errorf("ReadAll on clean reopen: %v", e)
				}
				img, _, _ := readImage(dir, nil)
				exp := Expect(rec.L, WALNames(img), start)
				if d := exp.Diff(md, hst, ents); d != "" {
					rec.Problems = append(rec.Problems, fmt.Sprintf("clean-reopen-mismatch at op %d: %s", i, d))
				}
				return nil
			})
			prevst = raftpb.HardState{}
			st.Synced = true
		case "close":
			err, pmsg = safely(func() error { return w.Close() })
			closed = true
			st.Synced = true
		default:
			return nil, fmt.Errorf("unknown op kind %q", op.Kind)
		}
		if pmsg != "" {
			rec.Problems = append(rec.Problems, fmt.Sprintf("panic in op %d %s: %s", i, op, pmsg))
			return rec, nil
		}
		if err != nil {
			rec.Problems = append(rec.Problems, fmt.Sprintf("error in op %d %s: %v", i, op, err))
			return rec, nil
		}

		img, tmp, ierr := readImage(dir, prevImg)
		if ierr != nil {
			return nil, ierr
		}
		st.Img, st.Tmp = img, tmp
		// a new segment file means the Save cut: header records follow
		names := WALNames(img)
		if prevImg != nil && len(names) > len(WALNames(prevImg)) {
			if len(names) != len(WALNames(prevImg))+1 || op.Kind != "save" {
				rec.Problems = append(rec.Problems, fmt.Sprintf("unexpected new segment files after op %d %s", i, op))
			}
			st.Cut = true
			st.Synced = true
			rec.Cuts++
			curSeq, _ = ParseWALName(names[len(names)-1])
			add(LRec{Type: RecCrc, FileSeq: curSeq})
			add(LRec{Type: RecMetadata, Data: rec.Meta, FileSeq: curSeq})
			if !raft.IsEmptyHardState(prevst) {
				h := prevst
				add(LRec{Type: RecState, Data: pbutil.MustMarshal(&h), FileSeq: curSeq, St: &h})
			}
		}
		frames := ParseImage(img)
		st.NRec = len(frames)
		st.LRec = len(rec.L)
		if st.NRec > st.LRec {
			rec.Problems = append(rec.Problems, fmt.Sprintf("image after op %d holds %d records, only %d were appended", i, st.NRec, st.LRec))
			st.NRec = st.LRec
		}
		for k := 0; k < st.NRec; k++ {
			if d := frameVsLRec(&frames[k], &rec.L[k]); d != "" {
				rec.Problems = append(rec.Problems, fmt.Sprintf("image after op %d, record %d: %s", i, k, d))
				break
			}
		}
		if st.Synced {
			st.Dur = st.LRec
			if st.NRec != st.LRec {
				rec.Problems = append(rec.Problems, fmt.Sprintf("completed-op-not-written: op %d %s had to sync but only %d of %d records are in the files", i, op, st.NRec, st.LRec))
			}
		} else if i > 0 {
			st.Dur = rec.Steps[i-1].Dur
		}
		rec.Steps = append(rec.Steps, st)
		prevImg = img
		if hook != nil {
			hook(i)
		}
		if op.Kind == "close" {
			rec.Phys = frames
			break
		}

		// observation for the adaptive generator
		obs.JustCut = st.Cut
		obs.Cuts = rec.Cuts
		tail := names[len(names)-1]
		tf := ParseFile(tail, img[tail])
		obs.TailOff = 0
		crc := uint32(0)
		if len(tf) > 0 {
			obs.TailOff = tf[len(tf)-1].End
		}
		if st.NRec > 0 {
			crc = frames[st.NRec-1].Crc
		}
		for k := st.NRec; k < st.LRec; k++ {
			r := &rec.L[k]
			if r.Type != RecCrc {
				crc = chainCRC(crc, r.Data)
			}
			obs.TailOff += int64(frameSize(recordSize(r.Type, crc, len(r.Data), r.Data != nil)))
		}
		obs.PrevCRC = crc

		var ok bool
		op, ok = src.Next(obs)
		if !ok {
			op = Op{Kind: "close"}
		}
	}
	return rec, nil
}

func frameVsLRec(f *Frame, l *LRec) string {
	if f.Type != l.Type {
		return fmt.Sprintf("type %s on disk, %s appended", KindName(f.Type), KindName(l.Type))
	}
	if f.FileSeq != l.FileSeq {
		return fmt.Sprintf("in segment %d, expected segment %d", f.FileSeq, l.FileSeq)
	}
	if l.Type != RecCrc && !bytes.Equal(f.Data, l.Data) {
		return fmt.Sprintf("%s data differs from what was appended", KindName(f.Type))
	}
	return ""
}

// Expected is what ReadAll must return for a given record prefix.
type Expected struct {
	Meta       []byte
	State      raftpb.HardState
	Ents       []raftpb.Entry
	Match      bool // start snapshot found
	OutOfRange bool // library would report ErrSliceOutOfRange
	// GlobalState is the last hard state in the whole prefix, regardless of
	// which segment reading starts from; the property demands this one.
	GlobalState raftpb.HardState
	N           int
}

// Expect models ReadAll over the record prefix recs for a directory holding
// the segment files names, opened at snapshot start: reading begins at the
// last segment whose name index is <= start.Index; an entry with index i is
// stored at position i-start.Index-1 and truncates everything behind it.
func Expect(recs []LRec, names []string, start walpb.Snapshot) Expected {
	ex := Expected{N: len(recs)}
	from := uint64(0)
	for i := len(names) - 1; i >= 0; i-- {
		seq, idx := ParseWALName(names[i])
		if start.Index >= idx {
			from = seq
			break
		}
	}
	for i := range recs {
		r := &recs[i]
		if r.Type == RecState {
			ex.GlobalState = *r.St
		}
		if r.FileSeq < from {
			continue
		}
		switch r.Type {
		case RecEntry:
			e := *r.Ent
			if e.Index > start.Index {
				up := e.Index - start.Index - 1
				if up > uint64(len(ex.Ents)) {
					ex.OutOfRange = true
					return ex
				}
				ex.Ents = append(ex.Ents[:up:up], e)
			}
		case RecState:
			ex.State = *r.St
		case RecMetadata:
			ex.Meta = r.Data
		case RecSnapshot:
			if r.Snap.Index == start.Index && r.Snap.Term == start.Term {
				ex.Match = true
			}
		}
	}
	return ex
}

func entEqual(a, b *raftpb.Entry) bool {
	return a.Index == b.Index && a.Term == b.Term && a.Type == b.Type && bytes.Equal(a.Data, b.Data)
}

func stEqual(a, b raftpb.HardState) bool {
	return a.Term == b.Term && a.Vote == b.Vote && a.Commit == b.Commit
}

// Diff returns "" when (md, st, ents) is exactly what the model expects.
func (ex *Expected) Diff(md []byte, st raftpb.HardState, ents []raftpb.Entry) string {
	if !bytes.Equal(md, ex.Meta) {
		return fmt.Sprintf("metadata %q, expected %q", trunc(md), trunc(ex.Meta))
	}
	if !stEqual(st, ex.State) {
		return fmt.Sprintf("hard state %+v, expected %+v", st, ex.State)
	}
	if len(ents) != len(ex.Ents) {
		return fmt.Sprintf("%d entries, expected %d", len(ents), len(ex.Ents))
	}
	for i := range ents {
		if !entEqual(&ents[i], &ex.Ents[i]) {
			return fmt.Sprintf("entry #%d (index %d term %d len %d) differs from the written one (index %d term %d len %d)",
				i, ents[i].Index, ents[i].Term, len(ents[i].Data), ex.Ents[i].Index, ex.Ents[i].Term, len(ex.Ents[i].Data))
		}
	}
	return ""
}

func trunc(b []byte) []byte {
	if len(b) > 16 {
		return b[:16]
	}
	return b
}

// SelfCheck compares the final image with the logical record list.
func (r *Recording) SelfCheck() string {
	if len(r.Steps) == 0 {
		return "no steps"
	}
	last := r.Steps[len(r.Steps)-1]
	if last.NRec != len(r.L) {
		return fmt.Sprintf("final image holds %d records, %d were appended", last.NRec, len(r.L))
	}
	return ""
}
