// Package walfault is the C16 check: crash-state and corruption fault
// enumeration against etcd's WAL and snapshot packages (the copies under
// /repo/etcd/server). It drives the real packages in-process, images the WAL
// directory after every call, enumerates the crash states a sector-atomic
// disk could leave behind, and checks what Open/ReadAll/Repair/Verify and
// Snapshotter.Load* return against an independent ground truth.
package walfault

import (
	"encoding/binary"
	"fmt"
	"hash/crc32"
	"sort"
	"strings"
)

// Record types of the WAL (wal.go keeps them unexported).
const (
	RecMetadata = 1
	RecEntry    = 2
	RecState    = 3
	RecCrc      = 4
	RecSnapshot = 5
)

// SectorSize is the atomic write unit assumed by the WAL (decoder.go
// minSectorSize).
const SectorSize = 512

var castagnoli = crc32.MakeTable(crc32.Castagnoli)

// KindName names a record type.
func KindName(t int64) string {
	switch t {
	case RecMetadata:
		return "metadata"
	case RecEntry:
		return "entry"
	case RecState:
		return "state"
	case RecCrc:
		return "crc"
	case RecSnapshot:
		return "snapshot"
	}
	return fmt.Sprintf("type%d", t)
}

// Frame is one WAL frame found by the harness's own parser (independent of
// the decoder under test).
type Frame struct {
	File    string
	FileSeq uint64
	Off     int64 // offset of the 8-byte length field
	RecLen  int
	Pad     int
	End     int64 // Off + 8 + RecLen + Pad
	Type    int64
	TypeOff int64 // file offset of the first byte of the type varint
	Crc     uint32
	Data    []byte
	HasData bool
}

func sov(x uint64) int {
	n := 1
	for x >= 0x80 {
		x >>= 7
		n++
	}
	return n
}

func uvarint(b []byte) (uint64, int) {
	var x uint64
	var s uint
	for i := 0; i < len(b) && i < 10; i++ {
		c := b[i]
		x |= uint64(c&0x7f) << s
		if c < 0x80 {
			return x, i + 1
		}
		s += 7
	}
	return 0, 0
}

// parseRecord decodes a walpb.Record by hand. ok=false on anything that is
// not the canonical encoding written by the encoder.
func parseRecord(b []byte) (typ int64, typOff int, crc uint32, data []byte, hasData bool, ok bool) {
	i := 0
	seen := 0
	for i < len(b) {
		tag := b[i]
		i++
		switch tag {
		case 0x08:
			v, n := uvarint(b[i:])
			if n == 0 {
				return
			}
			typ, typOff = int64(v), i
			i += n
			seen |= 1
		case 0x10:
			v, n := uvarint(b[i:])
			if n == 0 {
				return
			}
			crc = uint32(v)
			i += n
			seen |= 2
		case 0x1a:
			v, n := uvarint(b[i:])
			if n == 0 || uint64(len(b)-i-n) < v {
				return
			}
			i += n
			data = b[i : i+int(v)]
			hasData = true
			i += int(v)
		default:
			return
		}
	}
	ok = seen == 3
	return
}

// ParseFile walks the frames of one segment file until the first zero length
// field, the end of the file, or a frame that does not fit / does not parse.
// It never checks CRCs.
func ParseFile(name string, b []byte) []Frame {
	var out []Frame
	seq, _ := ParseWALName(name)
	off := int64(0)
	for off+8 <= int64(len(b)) {
		l := binary.LittleEndian.Uint64(b[off : off+8])
		if l == 0 {
			break
		}
		recLen := int64(l & ^(uint64(0xff) << 56))
		pad := int64(0)
		if int64(l) < 0 {
			pad = int64((l >> 56) & 7)
		}
		end := off + 8 + recLen + pad
		if recLen < 0 || end > int64(len(b)) || end < off {
			break
		}
		typ, typOff, crc, data, hasData, ok := parseRecord(b[off+8 : off+8+recLen])
		if !ok {
			break
		}
		out = append(out, Frame{
			File: name, FileSeq: seq, Off: off, RecLen: int(recLen), Pad: int(pad), End: end,
			Type: typ, TypeOff: off + 8 + int64(typOff), Crc: crc, Data: data, HasData: hasData,
		})
		off = end
	}
	return out
}

// ParseWALName returns (seq, index) of a "%016x-%016x.wal" name.
func ParseWALName(name string) (seq, index uint64) {
	if !strings.HasSuffix(name, ".wal") {
		return 0, 0
	}
	_, _ = fmt.Sscanf(name, "%016x-%016x.wal", &seq, &index)
	return
}

// IsWALName reports whether name is a segment file name.
func IsWALName(name string) bool {
	if !strings.HasSuffix(name, ".wal") || len(name) != 16+1+16+4 {
		return false
	}
	var a, b uint64
	n, err := fmt.Sscanf(name, "%016x-%016x.wal", &a, &b)
	return err == nil && n == 2
}

// WALNames returns the sorted segment names of an image.
func WALNames(files map[string][]byte) []string {
	var names []string
	for n := range files {
		if IsWALName(n) {
			names = append(names, n)
		}
	}
	sort.Strings(names)
	return names
}

// ParseImage parses all segment files of an image in name order.
func ParseImage(files map[string][]byte) []Frame {
	var out []Frame
	for _, n := range WALNames(files) {
		out = append(out, ParseFile(n, files[n])...)
	}
	return out
}

// recordSize is the marshalled size of a walpb.Record.
func recordSize(typ int64, crc uint32, dataLen int, hasData bool) int {
	n := 1 + sov(uint64(typ)) + 1 + sov(uint64(crc))
	if hasData {
		n += 1 + sov(uint64(dataLen)) + dataLen
	}
	return n
}

// frameSize is the on-disk size of a frame holding a record of recLen bytes.
func frameSize(recLen int) int {
	return 8 + recLen + (8-recLen%8)%8
}

// chainCRC is the CRC the encoder stores in a record given the running CRC.
func chainCRC(prev uint32, data []byte) uint32 {
	return crc32.Update(prev, castagnoli, data)
}
