package walfault

import (
	"encoding/json"
	"fmt"
	"hash/fnv"
	"math/rand"
	"os"
	"path/filepath"
	"sort"
	"sync"
	"time"

	"go.etcd.io/etcd/server/v3/storage/wal"
)

// Params configures one batch: all sequences of one segment size.
type Params struct {
	Tier        string `json:"tier"`
	Seed        int64  `json:"seed"`
	SegSize     int64  `json:"segsize"`
	SizeIdx     int    `json:"size_idx"`
	NSeq        int    `json:"nseq"`
	NOps        int    `json:"nops"`
	MaxBig      int    `json:"max_big"`
	Workers     int    `json:"workers"`
	Work        string `json:"work"`
	FullCorrupt int    `json:"full_corrupt"` // sequences whose final image is corrupted at every offset
	SnapSets    int    `json:"snap_sets"`
	Strace      int    `json:"strace"` // sequences replayed under strace with kill injection
	Self        string `json:"self"`   // path of this binary (for strace children)
}

// ClassStat aggregates the violations of one class.
type ClassStat struct {
	Count   int64      `json:"count"`
	Example *Violation `json:"example"`
}

// SeqSummary describes one recorded sequence.
type SeqSummary struct {
	Seq        int            `json:"seq"`
	SegSize    int64          `json:"segsize"`
	Ops        int            `json:"ops"`
	OpsByKind  map[string]int `json:"ops_by_kind"`
	Cuts       int            `json:"cuts"`
	Records    int            `json:"records"`
	Segments   int            `json:"segments"`
	Pairs      int            `json:"pairs"`
	Exhaustive int            `json:"pairs_exhaustive"`
	Sampled    int            `json:"pairs_sampled"`
	Unsynced   int            `json:"saves_not_required_to_sync"`
	MaxD       int            `json:"max_sectors_in_pair"`
}

// Result is what a batch reports.
type Result struct {
	SegSize  int64                 `json:"segsize"`
	Counters map[string]int64      `json:"counters"`
	Classes  map[string]*ClassStat `json:"classes"`
	Seqs     []SeqSummary          `json:"seqs"`
	Samples  []interface{}         `json:"samples"`
	Errors   []string              `json:"errors"` // harness problems => inconclusive
	Notes    []string              `json:"notes"`
}

type job struct {
	order   int64
	rec     *Recording
	crash   *CrashCase
	deep    bool
	corrupt *CorruptCase
	latest  bool
	set     *SnapSet
	snap    *SnapCase
}

// GenSeed derives the generator seed of a sequence.
func GenSeed(seed, seg int64, seqNo int) int64 {
	h := fnv.New64a()
	fmt.Fprintf(h, "c16/%d/%d/%d", seed, seg, seqNo)
	return int64(h.Sum64() & 0x7fffffffffffffff)
}

// ReplsQuick / ReplsFull are the replacement classes.
var (
	ReplsQuick = []string{"inv", "zero", "inc"}
	ReplsFull  = []string{"inv", "zero", "inc", "bit0", "bit1", "bit2", "bit3", "bit4", "bit5", "bit6", "bit7"}
)

type agg struct {
	mu       sync.Mutex
	res      *Result
	distinct map[uint64]struct{}
}

func (a *agg) inc(k string, n int64) {
	a.res.Counters[k] += n
}

func (a *agg) addViolation(v *Violation) {
	if v.CaseJSON == nil && v.Case != nil {
		v.CaseJSON, _ = json.Marshal(v.Case)
	}
	cs := a.res.Classes[v.Class]
	if cs == nil {
		cs = &ClassStat{}
		a.res.Classes[v.Class] = cs
	}
	cs.Count++
	if cs.Example == nil || v.Order < cs.Example.Order {
		cs.Example = v
	}
}

func (a *agg) key(s string) {
	h := fnv.New64a()
	_, _ = h.Write([]byte(s))
	a.distinct[h.Sum64()] = struct{}{}
}

// RunBatch records the sequences of one segment size and evaluates every
// enumerated case on p.Workers goroutines.
func RunBatch(p *Params) *Result {
	res := &Result{SegSize: p.SegSize, Counters: map[string]int64{}, Classes: map[string]*ClassStat{}}
	a := &agg{res: res, distinct: map[uint64]struct{}{}}
	wal.SegmentSizeBytes = p.SegSize // set once, before any WAL exists

	// ---- record ----
	recs := make([]*Recording, p.NSeq)
	var wg sync.WaitGroup
	sem := make(chan struct{}, p.Workers)
	for k := 0; k < p.NSeq; k++ {
		wg.Add(1)
		sem <- struct{}{}
		go func(k int) {
			defer wg.Done()
			defer func() { <-sem }()
			seqNo := p.SizeIdx*1000 + k
			gs := GenSeed(p.Seed, p.SegSize, seqNo)
			dir := filepath.Join(p.Work, fmt.Sprintf("rec-%d", seqNo), "wal")
			_ = os.MkdirAll(filepath.Dir(dir), 0o755)
			r, err := Record(dir, p.SegSize, NewGen(gs, seqNo, p.SegSize, p.NOps, p.MaxBig), nil)
			if err != nil {
				a.mu.Lock()
				res.Errors = append(res.Errors, fmt.Sprintf("recording %d: %v", seqNo, err))
				a.mu.Unlock()
				return
			}
			r.SeqNo, r.GenSeed, r.ID = seqNo, gs, fmt.Sprintf("seg%d-seq%d", p.SegSize, seqNo)
			recs[k] = r
			_ = os.RemoveAll(filepath.Dir(dir))
		}(k)
	}
	wg.Wait()

	// ---- enumerate ----
	var jobs []job
	order := int64(0)
	next := func() int64 { order++; return order }
	for k, r := range recs {
		if r == nil {
			continue
		}
		for _, pr := range r.Problems {
			v := &Violation{Class: "record/" + normErr(firstWords(pr, 3)), Phase: "record", Step: "record", Observed: pr,
				Accepted: "every call succeeds and the files hold exactly the appended records; a clean reopen returns them",
				SeqNo:    r.SeqNo, SegSize: r.SegSize, Order: next(), Case: map[string]interface{}{"seq": r.SeqNo}, rec: r}
			a.addViolation(v)
		}
		if len(r.Problems) > 0 && len(r.Steps) < len(r.Ops) {
			continue // the recording aborted
		}
		if len(r.Steps) == 0 || r.Ops[len(r.Ops)-1].Kind != "close" {
			continue
		}
		if sc := r.SelfCheck(); sc != "" {
			res.Errors = append(res.Errors, fmt.Sprintf("%s: %s", r.ID, sc))
			continue
		}
		sum := SeqSummary{Seq: r.SeqNo, SegSize: r.SegSize, Ops: len(r.Ops), OpsByKind: map[string]int{}, Cuts: r.Cuts,
			Records: len(r.L), Segments: len(WALNames(r.Steps[len(r.Steps)-1].Img))}
		for i, op := range r.Ops {
			kind := op.Kind
			if kind == "save" {
				switch {
				case op.St.Empty() && len(op.Ents) == 0:
					kind = "save-noop"
				case op.St.Empty():
					kind = "save-entries-only"
				case len(op.Ents) == 0:
					kind = "save-state-only"
				}
				if !r.Steps[i].Synced && kind != "save-noop" {
					sum.Unsynced++
				}
			}
			sum.OpsByKind[kind]++
			res.Counters["ops_"+kind]++
		}
		res.Counters["sequences"]++
		res.Counters["segment_cuts"] += int64(r.Cuts)
		res.Counters["ops_total"] += int64(len(r.Ops))
		if r.Cuts == 0 {
			res.Counters["sequences_without_cut"]++
		}
		rng := rand.New(rand.NewSource(r.GenSeed ^ 0x5eed))
		pairs := r.Pairs()
		sum.Pairs = len(pairs)
		for pi := range pairs {
			pr := &pairs[pi]
			if d := len(pr.Old) + len(pr.New); d > sum.MaxD {
				sum.MaxD = d
			}
			if pr.Exhaustive {
				sum.Exhaustive++
				res.Counters["pairs_exhaustive"]++
			} else {
				sum.Sampled++
				res.Counters["pairs_sampled"]++
			}
			if pr.Extends {
				res.Counters["pairs_writing_beyond_preallocation"]++
			}
			cases := r.Cases(pr, rng)
			for ci := range cases {
				c := &cases[ci]
				o := next()
				jobs = append(jobs, job{order: o, rec: r, crash: c, deep: o%40 == 0})
				if c.NLost > 0 {
					a.key(fmt.Sprintf("crash/%d/%d/%d/%v/%s/%s", r.SeqNo, c.A, c.B, c.Present, c.NewMode, c.LenMode))
					res.Counters["crash_states_with_lost_sector"]++
				}
			}
		}
		full := k < p.FullCorrupt
		repls := ReplsQuick
		if full {
			repls = ReplsFull
			res.Counters["sequences_corrupted_at_every_offset"]++
		}
		stride := 7
		if p.Tier != "thorough" {
			stride = 16
		}
		for _, c := range r.CorruptCases(full, stride, repls) {
			c := c
			jobs = append(jobs, job{order: next(), rec: r, corrupt: &c, latest: p.Tier == "thorough" || c.Off%5 == 0})
			a.key(fmt.Sprintf("corrupt/%d/%s/%d/%s", r.SeqNo, c.File, c.Off, c.Repl))
			res.Counters["wal_corruptions"]++
			res.Counters["wal_corruptions_role_"+c.Role]++
		}
		res.Seqs = append(res.Seqs, sum)
	}
	for s := 0; s < p.SnapSets; s++ {
		dir := filepath.Join(p.Work, fmt.Sprintf("snapset-%d", s))
		set, err := BuildSnapSet(dir, p.SizeIdx*100+s, GenSeed(p.Seed, p.SegSize, 900+s), 2+(p.SizeIdx+s)%3)
		_ = os.RemoveAll(dir)
		if err != nil {
			res.Errors = append(res.Errors, "snapshot set: "+err.Error())
			continue
		}
		res.Counters["snapshot_sets"]++
		res.Counters["snapshot_files"] += int64(len(set.Names))
		repls := ReplsQuick
		if p.Tier == "thorough" {
			repls = ReplsFull
		}
		for _, c := range set.Cases(repls) {
			c := c
			jobs = append(jobs, job{order: next(), set: set, snap: &c})
			a.key(fmt.Sprintf("snap/%d/%s/%d/%d/%s", set.ID, c.Kind, c.Target, c.Off, c.Repl))
			res.Counters["snapshot_mutilations"]++
		}
	}

	// ---- evaluate ----
	ch := make(chan *job, 1024)
	for w := 0; w < p.Workers; w++ {
		wg.Add(1)
		go func(w int) {
			defer wg.Done()
			dir := filepath.Join(p.Work, fmt.Sprintf("w%d", w), "wal")
			_ = os.MkdirAll(filepath.Dir(dir), 0o755)
			local := map[string]int64{}
			var viols []*Violation
			var samples []interface{}
			for j := range ch {
				var cr *CaseResult
				var what string
				var cs interface{}
				t0 := time.Now()
				switch {
				case j.crash != nil:
					cr = j.rec.CheckCrash(dir, j.crash, j.deep)
					what, cs = "crash", j.crash
					local["crash_states"]++
					local["crash_"+cr.Outcome]++
					if j.crash.NLost > 0 && cr.Repaired && cr.Outcome != "violation" {
						local["crash_lost_sector_repaired"]++
					}
					if j.crash.NewMode == "tmp0" || j.crash.NewMode == "tmp1" || j.deep {
						local["crash_states_continued_through_two_cuts"]++
					}
					if len(cr.Notes) > 0 {
						local["crash_states_with_leftover_bytes_after_prefix"]++
					}
					if j.crash.LenMode == "full" {
						local["crash_states_size_persisted_data_lost"]++
					}
				case j.corrupt != nil:
					cr = j.rec.CheckCorrupt(dir, j.corrupt, j.latest)
					what, cs = "corrupt", j.corrupt
					local["corrupt_"+cr.Outcome]++
					if cr.Repaired {
						local["corrupt_reported_as_torn_and_repaired"]++
					}
				case j.snap != nil:
					cr = j.set.CheckSnap(dir, j.snap)
					what, cs = "snap", j.snap
					local["snap_"+cr.Outcome]++
				}
				local["evaluations"]++
				local["worker_ms_"+what] += int64(time.Since(t0) / time.Microsecond)
				local["library_panics_recovered"] += int64(cr.Panics)
				for _, v := range cr.Viols {
					v.Order = j.order
					viols = append(viols, v)
				}
				if j.order%977 == 0 || (what == "crash" && cr.Repaired && j.order%211 == 0) {
					sm := map[string]interface{}{"kind": what, "case": cs, "outcome": cr.Outcome, "recovered_records": cr.N, "order": j.order}
					if j.crash != nil {
						var ops []string
						for k := j.crash.A + 1; k <= j.crash.B; k++ {
							ops = append(ops, j.rec.Ops[k].String())
						}
						sm["ops_between_A_and_B"] = ops
						sm["segsize"] = j.rec.SegSize
						sm["accepted_prefix_records"] = []int{j.rec.Steps[j.crash.A].Dur, j.rec.Steps[j.crash.B].NRec}
					}
					samples = append(samples, sm)
				}
			}
			for _, k := range []string{"crash", "corrupt", "snap"} {
				local["worker_ms_"+k] /= 1000 // accumulated in microseconds
			}
			a.mu.Lock()
			for k, v := range local {
				a.inc(k, v)
			}
			for _, v := range viols {
				a.addViolation(v)
			}
			res.Samples = append(res.Samples, samples...)
			a.mu.Unlock()
		}(w)
	}
	for i := range jobs {
		ch <- &jobs[i]
	}
	close(ch)
	wg.Wait()
	res.Counters["distinct_nontrivial"] = int64(len(a.distinct))
	for _, c := range res.Classes {
		if c.Example != nil && c.Example.rec != nil {
			c.Example.Ops = c.Example.rec.Ops
		}
	}

	// ---- process-crash tier ----
	if p.Strace > 0 {
		runStrace(p, recs, a)
	}

	sort.Slice(res.Samples, func(i, j int) bool {
		return res.Samples[i].(map[string]interface{})["order"].(int64) < res.Samples[j].(map[string]interface{})["order"].(int64)
	})
	return res
}

func firstWords(s string, n int) string {
	k := 0
	for i, c := range s {
		if c == ' ' || c == ':' {
			k++
			if k == n {
				return s[:i]
			}
		}
	}
	return s
}
