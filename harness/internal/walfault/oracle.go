package walfault

import (
	"encoding/json"
	"fmt"
	"io"
	"math"
	"os"
	"path/filepath"
	"regexp"

	"go.etcd.io/etcd/pkg/v3/pbutil"
	"go.etcd.io/etcd/raft/v3/raftpb"
	"go.etcd.io/etcd/server/v3/storage/wal"
	"go.etcd.io/etcd/server/v3/storage/wal/walpb"
)

// Violation is one observed deviation from the property.
type Violation struct {
	Class    string            `json:"class"` // stable; one report per class
	Phase    string            `json:"phase"` // record | crash | continue | corrupt | snap | pcrash | trace
	Step     string            `json:"step"`
	Err      string            `json:"err,omitempty"`
	Observed string            `json:"observed"`
	Accepted string            `json:"accepted"`
	Attr     map[string]string `json:"attr,omitempty"`
	Case     interface{}       `json:"-"`
	CaseJSON json.RawMessage   `json:"case,omitempty"` // exact (no float64 round trip of 63-bit seeds)
	SeqNo    int               `json:"seq"`
	SegSize  int64             `json:"segsize"`
	Order    int64             `json:"order"`
	Ops      []Op              `json:"ops,omitempty"`
	rec      *Recording
}

var reDigits = regexp.MustCompile(`[0-9]+`)

func normErr(s string) string {
	s = reDigits.ReplaceAllString(s, "N")
	if len(s) > 90 {
		s = s[:90]
	}
	return s
}

// CaseResult is the outcome of one evaluated case.
type CaseResult struct {
	Outcome  string // prefix-ok | repaired-ok | error-ok | panic-failstop | loose-ok | violation
	N        int
	Repaired bool
	Panics   int
	Viols    []*Violation
	Notes    []string
}

func writeDir(dir string, files map[string][]byte) error {
	if err := os.RemoveAll(dir); err != nil {
		return err
	}
	if err := os.MkdirAll(dir, 0o755); err != nil {
		return err
	}
	for n, b := range files {
		if err := os.WriteFile(filepath.Join(dir, n), b, 0o600); err != nil {
			return err
		}
	}
	return nil
}

type readResult struct {
	md    []byte
	st    raftpb.HardState
	ents  []raftpb.Entry
	err   error
	panic string
	w     *wal.WAL
}

// openRead opens dir and reads everything. In write mode the WAL is left open
// in r.w when ReadAll succeeded; otherwise it is closed.
func openRead(dir string, start walpb.Snapshot, write bool) (r readResult) {
	var w *wal.WAL
	defer func() {
		if p := recover(); p != nil {
			r.panic = fmt.Sprint(p)
			if w != nil {
				func() {
					defer func() { _ = recover() }()
					_ = w.Close()
				}()
			}
			r.w = nil
		}
	}()
	var err error
	if write {
		w, err = wal.Open(nopLog, dir, start)
	} else {
		w, err = wal.OpenForRead(nopLog, dir, start)
	}
	if err != nil {
		r.err = fmt.Errorf("open: %w", err)
		return r
	}
	r.md, r.st, r.ents, r.err = w.ReadAll()
	if r.err != nil || !write {
		_ = w.Close()
		return r
	}
	r.w = w
	return r
}

func safeVerify(dir string, start walpb.Snapshot) (st *raftpb.HardState, err error, pmsg string) {
	defer func() {
		if p := recover(); p != nil {
			pmsg = fmt.Sprint(p)
		}
	}()
	st, err = wal.Verify(nopLog, dir, start)
	return
}

func safeRepair(dir string) (ok bool, pmsg string) {
	defer func() {
		if p := recover(); p != nil {
			pmsg = fmt.Sprint(p)
		}
	}()
	return wal.Repair(nopLog, dir), ""
}

// matchN finds n in [lo,hi] such that (md,st,ents) is exactly what reading
// the record prefix L[:n] (plus extra) yields. It prefers the longest.
func (r *Recording) matchN(names []string, start walpb.Snapshot, lo, hi int, extra []LRec, md []byte, st raftpb.HardState, ents []raftpb.Entry) (int, *Expected) {
	for n := hi; n >= lo; n-- {
		recs := r.L[:n:n]
		if len(extra) > 0 {
			recs = append(recs, extra...)
		}
		ex := Expect(recs, names, start)
		if ex.OutOfRange || !ex.Match {
			continue
		}
		if ex.Diff(md, st, ents) == "" {
			return n, &ex
		}
	}
	return -1, nil
}

func (r *Recording) describeRange(lo, hi int) string {
	return fmt.Sprintf("a whole-record prefix of the written log with %d..%d records (of %d)", lo, hi, len(r.L))
}

func summarize(md []byte, st raftpb.HardState, ents []raftpb.Entry, err error) string {
	s := fmt.Sprintf("err=%v metadata=%dB state={t%d v%d c%d} ents=%d", err, len(md), st.Term, st.Vote, st.Commit, len(ents))
	if len(ents) > 0 {
		s += fmt.Sprintf("[i%d..i%d]", ents[0].Index, ents[len(ents)-1].Index)
	}
	return s
}

// CheckCrash evaluates one crash state in scratch directory dir.
func (r *Recording) CheckCrash(dir string, c *CrashCase, deep bool) *CaseResult {
	files := r.Build(c)
	lo, hi := r.Steps[c.A].Dur, r.Steps[c.B].NRec
	return r.checkState(dir, files, lo, hi, c, "crash", c.NewMode == "tmp0" || c.NewMode == "tmp1" || deep)
}

// checkState is the reopen oracle. lo..hi is the accepted prefix range.
func (r *Recording) checkState(dir string, files map[string][]byte, lo, hi int, cs interface{}, phase string, toCut bool) *CaseResult {
	res := &CaseResult{}
	viol := func(step, class, errs, observed string) *CaseResult {
		res.Outcome = "violation"
		v := &Violation{Class: phase + "/" + step + "/" + class, Phase: phase, Step: step, Err: errs,
			Observed: observed, Accepted: r.describeRange(lo, hi) + ", or io.ErrUnexpectedEOF followed by a successful wal.Repair and then such a prefix",
			Case: cs, SeqNo: r.SeqNo, SegSize: r.SegSize, Attr: map[string]string{}, rec: r}
		switch c := cs.(type) {
		case *CrashCase:
			v.Attr["new_mode"] = c.NewMode
			v.Attr["len_mode"] = c.LenMode
			v.Attr["ext_lost"] = fmt.Sprint(c.ExtLost)
		case *PCrashCase:
			v.Attr["stale_tmp"] = fmt.Sprint(c.StaleTmp)
			v.Attr["syscall"] = c.Syscall
		}
		res.Viols = append(res.Viols, v)
		return res
	}
	last := func() *Violation { return res.Viols[len(res.Viols)-1] }
	if err := writeDir(dir, files); err != nil {
		return viol("harness", "io", err.Error(), err.Error())
	}
	names := WALNames(files)
	start := latestSnap(r.L[:lo])

	// 1. wal.Verify tolerates a torn tail and reports the last hard state.
	vst, verr, vp := safeVerify(dir, start)
	switch {
	case vp != "":
		res.Panics++
		viol("verify", "panic:"+normErr(vp), vp, "panic: "+vp)
	case verr != nil:
		viol("verify", "error:"+normErr(verr.Error()), verr.Error(), "wal.Verify: "+verr.Error())
	default:
		okState := false
		for n := hi; n >= lo && !okState; n-- {
			ex := Expect(r.L[:n], names, start)
			okState = stEqual(ex.State, *vst)
		}
		if !okState {
			viol("verify", "wrong-state", "", fmt.Sprintf("wal.Verify returned state %+v", *vst))
		}
	}

	// 2. read mode, from the very beginning of the log.
	rr := openRead(dir, walpb.Snapshot{}, false)
	if rr.panic != "" {
		res.Panics++
		viol("read", "panic:"+normErr(rr.panic), rr.panic, "panic: "+rr.panic)
	} else if rr.err != nil {
		viol("read", "error:"+normErr(rr.err.Error()), rr.err.Error(), "OpenForRead+ReadAll: "+rr.err.Error())
	} else if n, _ := r.matchN(names, walpb.Snapshot{}, lo, hi, nil, rr.md, rr.st, rr.ents); n < 0 {
		cl := "foreign-or-reordered-data"
		if m, _ := r.matchN(names, walpb.Snapshot{}, 0, lo-1, nil, rr.md, rr.st, rr.ents); m >= 0 {
			cl = "lost-synced-records"
		}
		viol("read", cl, "", "OpenForRead+ReadAll: "+summarize(rr.md, rr.st, rr.ents, nil))
	}

	// 3. write mode at the latest durable snapshot; repair a torn tail.
	wr := openRead(dir, start, true)
	if wr.panic != "" {
		res.Panics++
		return viol("open", "panic:"+normErr(wr.panic), wr.panic, "panic: "+wr.panic)
	}
	if wr.err == io.ErrUnexpectedEOF {
		ok, pm := safeRepair(dir)
		if pm != "" {
			res.Panics++
			return viol("repair", "panic:"+normErr(pm), pm, "panic in wal.Repair: "+pm)
		}
		if !ok {
			return viol("repair", "returned-false", "", "ReadAll returned io.ErrUnexpectedEOF and wal.Repair returned false")
		}
		res.Repaired = true
		wr = openRead(dir, start, true)
		if wr.panic != "" {
			res.Panics++
			return viol("post-repair", "panic:"+normErr(wr.panic), wr.panic, "panic after repair: "+wr.panic)
		}
		if wr.err != nil {
			return viol("post-repair", "error:"+normErr(wr.err.Error()), wr.err.Error(), "after wal.Repair returned true, Open+ReadAll: "+wr.err.Error())
		}
	} else if wr.err != nil {
		return viol("open", "error:"+normErr(wr.err.Error()), wr.err.Error(), "Open+ReadAll: "+wr.err.Error())
	}
	n, ex := r.matchN(names, start, lo, hi, nil, wr.md, wr.st, wr.ents)
	if n < 0 {
		_ = wr.w.Close()
		cl := "foreign-or-reordered-data"
		if m, _ := r.matchN(names, start, 0, lo-1, nil, wr.md, wr.st, wr.ents); m >= 0 {
			cl = "lost-synced-records"
		}
		step := "open"
		if res.Repaired {
			step = "post-repair"
		}
		return viol(step, cl, "", "Open+ReadAll: "+summarize(wr.md, wr.st, wr.ents, nil))
	}
	if !stEqual(ex.State, ex.GlobalState) {
		_ = wr.w.Close()
		return viol("open", "latest-hard-state-not-returned", "", fmt.Sprintf("returned %+v, the last completed save stored %+v", ex.State, ex.GlobalState))
	}
	res.N = n

	// 4. the recovered log must be usable: append, close, reopen.
	w := wr.w
	lastIdx, lastTerm := start.Index, start.Term
	if len(wr.ents) > 0 {
		lastIdx, lastTerm = wr.ents[len(wr.ents)-1].Index, wr.ents[len(wr.ents)-1].Term
	}
	term := wr.st.Term
	if lastTerm > term {
		term = lastTerm
	}
	term++
	var extra []LRec
	appendOne := func(payload int) error {
		lastIdx++
		e := raftpb.Entry{Index: lastIdx, Term: term, Data: make([]byte, payload)}
		for i := range e.Data {
			e.Data[i] = byte(0xa0 + i%7)
		}
		hs := raftpb.HardState{Term: term, Vote: 0, Commit: wr.st.Commit}
		ec, hc := e, hs
		extra = append(extra,
			LRec{Type: RecEntry, Data: pbutil.MustMarshal(&ec), FileSeq: math.MaxUint64, Ent: &ec},
			LRec{Type: RecState, Data: pbutil.MustMarshal(&hc), FileSeq: math.MaxUint64, St: &hc})
		err, pm := safely(func() error { return w.Save(hs, []raftpb.Entry{e}) })
		if pm != "" {
			return fmt.Errorf("panic: %s", pm)
		}
		return err
	}
	countWAL := func() int {
		es, _ := os.ReadDir(dir)
		k := 0
		for _, e := range es {
			if IsWALName(e.Name()) {
				k++
			}
		}
		return k
	}
	finalNames := func() []string {
		es, _ := os.ReadDir(dir)
		var ns []string
		for _, e := range es {
			if IsWALName(e.Name()) {
				ns = append(ns, e.Name())
			}
		}
		return ns
	}
	// If torn-write leftovers follow the recovered prefix in the tail segment,
	// size the first append so that it ends inside them: the library must
	// have zeroed (ReadAll) or cut off (Repair) those bytes, otherwise the
	// next reader runs from the new records straight into garbage.
	first := 24
	if len(names) > 0 && n > 0 && n <= len(r.Phys) {
		tailName := names[len(names)-1]
		e := int64(0)
		if r.Phys[n-1].File == tailName {
			e = r.Phys[n-1].End
		}
		tb := files[tailName]
		for g := e; g < int64(len(tb)); g++ {
			if tb[g] != 0 {
				if d := int(g-e) + 16; d > first && d < 6000 {
					first = d
				}
				res.Notes = append(res.Notes, "garbage-after-prefix")
				break
			}
		}
	}
	if err := appendOne(first); err != nil {
		_ = w.Close()
		return viol("usable", "save-error:"+normErr(err.Error()), err.Error(), "Save on the recovered log: "+err.Error())
	}
	phaseC := phase
	if toCut {
		// keep appending in the same session through two segment cuts (the
		// file pipeline hands out 0.tmp, then 1.tmp) and look at the log, in
		// read mode, right after each cut returned.
		phaseC = "continue"
		for cuts := 0; cuts < 2; cuts++ {
			before := countWAL()
			for k := 0; countWAL() == before; k++ {
				if k > 200 {
					_ = w.Close()
					return viol("continue", "no-cut", "", "200 saves without a segment cut")
				}
				if err := appendOne(300); err != nil {
					_ = w.Close()
					return viol("continue", "save-error:"+normErr(err.Error()), err.Error(), "Save while continuing on the recovered log: "+err.Error())
				}
			}
			cr := openRead(dir, walpb.Snapshot{}, false)
			bad := ""
			switch {
			case cr.panic != "":
				bad = "panic: " + cr.panic
			case cr.err != nil:
				bad = cr.err.Error()
			default:
				if m, _ := r.matchN(finalNames(), walpb.Snapshot{}, n, n, extra, cr.md, cr.st, cr.ents); m < 0 {
					bad = "data mismatch: " + summarize(cr.md, cr.st, cr.ents, nil)
				}
			}
			if bad != "" {
				_ = w.Close()
				viol("continue", "unreadable-after-cut:"+normErr(bad), bad,
					fmt.Sprintf("after recovery, %d more saves and segment cut #%d all returned nil; reading the log back: %s", len(extra)/2, cuts+1, bad))
				last().Phase = "continue"
				last().Class = "continue/unreadable-after-cut:" + normErr(bad)
				last().Accepted = "every record of the recovered prefix plus every record saved afterwards"
				return res
			}
		}
	}
	if err, pm := safely(func() error { return w.Close() }); err != nil || pm != "" {
		return viol("usable", "close-error", fmt.Sprint(err, pm), fmt.Sprint("Close: ", err, pm))
	}
	fr := openRead(dir, start, true)
	if fr.w != nil {
		_ = fr.w.Close()
	}
	bad := ""
	switch {
	case fr.panic != "":
		res.Panics++
		bad = "panic: " + fr.panic
	case fr.err != nil:
		bad = fr.err.Error()
	default:
		if m, _ := r.matchN(finalNames(), start, n, n, extra, fr.md, fr.st, fr.ents); m < 0 {
			bad = "data mismatch: " + summarize(fr.md, fr.st, fr.ents, nil)
		}
	}
	if bad != "" {
		viol("usable", "reopen-after-append:"+normErr(bad), bad,
			fmt.Sprintf("recovered %d records, appended %d saves, closed; reopening: %s", n, len(extra)/2, bad))
		last().Phase = phaseC
		last().Accepted = "every record of the recovered prefix plus every record saved afterwards"
		return res
	}
	if len(res.Viols) > 0 {
		return res
	}
	// 5. a second torn tail in a segment that was repaired before (its .broken copy is still lying there): one more
	// large record is appended and a whole sector in its middle is lost; that must again be a repairable torn tail,
	// and what was there before it must come back.
	if res.Repaired && !toCut {
		sr := openRead(dir, start, true)
		if sr.w != nil && sr.err == nil {
			w = sr.w
			before := append([]LRec{}, extra...)
			err := appendOne(1700)
			_ = w.Close()
			ns := finalNames()
			if err == nil && len(ns) > 0 {
				tailPath := filepath.Join(dir, ns[len(ns)-1])
				if b, rerr := os.ReadFile(tailPath); rerr == nil {
					end := len(b)
					for end > 0 && b[end-1] == 0 {
						end--
					}
					s0 := ((end - 900) / SectorSize) * SectorSize
					if s0 > 0 && s0+SectorSize < end {
						for i := s0; i < s0+SectorSize; i++ {
							b[i] = 0
						}
						_ = os.WriteFile(tailPath, b, 0o600)
						tr := openRead(dir, start, true)
						if tr.w != nil {
							_ = tr.w.Close()
						}
						res.Notes = append(res.Notes, "second-torn-tail")
						if tr.err == io.ErrUnexpectedEOF {
							ok, pm := safeRepair(dir)
							if pm != "" || !ok {
								viol("second-tear", "not-repairable", pm, fmt.Sprintf("the segment was repaired once, %d more saves completed, then a sector in the middle of the last record was lost: ReadAll reports a torn tail and Repair returns %v %s", len(extra)/2, ok, pm))
								last().Accepted = "a torn final record is repairable, also the second time in one segment"
								return res
							}
							rr := openRead(dir, start, true)
							if rr.w != nil {
								_ = rr.w.Close()
							}
							if rr.err != nil {
								viol("second-tear", "unreadable-after-second-repair:"+normErr(rr.err.Error()), rr.err.Error(), "after the second repair: "+rr.err.Error())
								return res
							}
							if m, _ := r.matchN(ns, start, n, n, before, rr.md, rr.st, rr.ents); m < 0 {
								if m2, _ := r.matchN(ns, start, n, n, extra, rr.md, rr.st, rr.ents); m2 < 0 {
									viol("second-tear", "data-mismatch-after-second-repair", "", "after the second repair: "+summarize(rr.md, rr.st, rr.ents, nil))
									return res
								}
							}
						}
					}
				}
			}
		} else if sr.w != nil {
			_ = sr.w.Close()
		}
	}
	if res.Repaired {
		res.Outcome = "repaired-ok"
	} else {
		res.Outcome = "prefix-ok"
	}
	return res
}
