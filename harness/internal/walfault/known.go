package walfault

import (
	"encoding/json"
	"os"
	"strings"
)

// KnownFinding is one entry of /verif/known_findings.json.
type KnownFinding struct {
	ID       string                 `json:"id"`
	Property string                 `json:"property"`
	Status   string                 `json:"status"`
	Matcher  string                 `json:"matcher"`
	Params   map[string]interface{} `json:"params"`
	What     string                 `json:"what"`
}

type knownFile struct {
	Findings []KnownFinding `json:"findings"`
}

// KnownFindingsPath is where the shared list lives.
const KnownFindingsPath = "/verif/known_findings.json"

// LoadKnown reads the known-findings list; a missing file is an empty list.
func LoadKnown(path string) ([]KnownFinding, error) {
	b, err := os.ReadFile(path)
	if err != nil {
		if os.IsNotExist(err) {
			return nil, nil
		}
		return nil, err
	}
	var f knownFile
	if err := json.Unmarshal(b, &f); err != nil {
		return nil, err
	}
	var out []KnownFinding
	for _, k := range f.Findings {
		if k.Property == "C16" && k.Status == "known" {
			out = append(out, k)
		}
	}
	return out, nil
}

func paramList(p map[string]interface{}, key string) []string {
	v, ok := p[key]
	if !ok {
		return nil
	}
	var out []string
	if l, ok := v.([]interface{}); ok {
		for _, x := range l {
			if s, ok := x.(string); ok {
				out = append(out, s)
			}
		}
	}
	return out
}

func inList(l []string, s string) bool {
	for _, x := range l {
		if x == s {
			return true
		}
	}
	return false
}

// matchers are deliberately narrow: each recognises exactly one confirmed
// upstream weakness by the structural attributes of the failing case, not by
// a free-text pattern over the whole report.
var matchers = map[string]func(v *Violation, p map[string]interface{}) bool{
	// The CRC of a WAL record covers Record.Data only. A corrupted
	// Record.Type byte turns a record into another, wire-compatible kind.
	// params.transitions lists the admitted "<kind>-><new kind>" pairs.
	"wal-record-type-tag": func(v *Violation, p map[string]interface{}) bool {
		if v.Phase != "corrupt" || v.Attr["role"] != "rectype" {
			return false
		}
		return inList(paramList(p, "transitions"), v.Attr["kind"]+"->"+v.Attr["new_type"])
	},
	// filePipeline.alloc reuses a leftover N.tmp without truncating it, so a
	// later cut() leaves stale bytes behind the new segment header.
	"wal-stale-tmp-reuse": func(v *Violation, p map[string]interface{}) bool {
		if v.Phase != "continue" || !strings.HasPrefix(v.Class, "continue/unreadable-after-cut:") {
			return false
		}
		return v.Attr["new_mode"] == "tmp0" || v.Attr["new_mode"] == "tmp1" || v.Attr["stale_tmp"] == "true"
	},
	// A record torn in the part of a segment that lies beyond its
	// preallocated size is reported as "max entry size limit exceeded"
	// instead of io.ErrUnexpectedEOF, so it is fatal and not repairable.
	"wal-torn-beyond-preallocation": func(v *Violation, p map[string]interface{}) bool {
		if (v.Phase != "crash" && v.Phase != "pcrash") || v.Attr["ext_lost"] != "true" || v.Attr["len_mode"] != "follow" {
			return false
		}
		// the finding is about reading the crash image as it is; the same message after a successful recovery and
		// further saves (the usability steps) is something else
		if !strings.Contains(v.Class, "/open/error:") && !strings.Contains(v.Class, "/read/error:") && !strings.Contains(v.Class, "/verify/error:") {
			return false
		}
		return strings.Contains(v.Err, "max entry size limit exceeded")
	},
}

// MatchKnown returns the known finding that covers v, or nil.
func MatchKnown(known []KnownFinding, v *Violation) *KnownFinding {
	for i := range known {
		m, ok := matchers[known[i].Matcher]
		if ok && m(v, known[i].Params) {
			return &known[i]
		}
	}
	return nil
}
