package walfault

import (
	"fmt"
	"io"
	"strings"

	"go.etcd.io/etcd/raft/v3/raftpb"
	"go.etcd.io/etcd/server/v3/storage/wal/walpb"
)

// CorruptCase is a single-byte corruption of the final image of a sequence.
type CorruptCase struct {
	Seq    int    `json:"seq"`
	File   string `json:"file"`
	Off    int64  `json:"off"`
	Repl   string `json:"repl"` // inv | zero | inc | bit0..bit7
	Orig   byte   `json:"orig"`
	New    byte   `json:"new"`
	Frame  int    `json:"frame"` // index of the frame in the whole log
	Role   string `json:"role"`  // lenfield | rectag | rectype | crctag | crc | datatag | datalen | data | pad
	Kind   string `json:"kind"`  // record kind of the frame
	IsLast bool   `json:"is_last_record"`
}

func replace(orig byte, repl string) byte {
	switch repl {
	case "inv":
		return ^orig
	case "zero":
		return 0
	case "inc":
		return orig + 1
	}
	var bit uint
	_, _ = fmt.Sscanf(repl, "bit%d", &bit)
	return orig ^ (1 << bit)
}

func roleOf(f *Frame, off int64) string {
	p := off - f.Off
	switch {
	case p < 8:
		return "lenfield"
	case p >= 8+int64(f.RecLen):
		return "pad"
	}
	q := off - (f.TypeOff - 1) // position inside the record
	tl := int64(sov(uint64(f.Type)))
	cl := int64(sov(uint64(f.Crc)))
	switch {
	case q == 0:
		return "rectag"
	case q < 1+tl:
		return "rectype"
	case q == 1+tl:
		return "crctag"
	case q < 2+tl+cl:
		return "crc"
	case q == 2+tl+cl:
		return "datatag"
	}
	dl := int64(sov(uint64(len(f.Data))))
	if q < 3+tl+cl+dl {
		return "datalen"
	}
	return "data"
}

// CorruptCases enumerates corruptions of the final image. full=false: every
// offset of the last three records, every frame header and record
// tag/type/crc prefix, every stride-th offset elsewhere; full=true: every
// offset.
func (r *Recording) CorruptCases(full bool, stride int, repls []string) []CorruptCase {
	var out []CorruptCase
	final := r.Steps[len(r.Steps)-1].Img
	nf := len(r.Phys)
	for fi := range r.Phys {
		f := &r.Phys[fi]
		b := final[f.File]
		dense := full || fi >= nf-3
		for off := f.Off; off < f.End; off++ {
			p := off - f.Off
			if !dense && p >= 8+10 && (off%int64(stride)) != 0 {
				continue
			}
			role := roleOf(f, off)
			for _, rp := range repls {
				// payload bytes are covered by the CRC as a block: of the
				// eight single-bit flips only the lowest and highest are tried
				if role == "data" && strings.HasPrefix(rp, "bit") && rp != "bit0" && rp != "bit7" {
					continue
				}
				nb := replace(b[off], rp)
				if nb == b[off] {
					continue
				}
				out = append(out, CorruptCase{Seq: r.SeqNo, File: f.File, Off: off, Repl: rp, Orig: b[off], New: nb,
					Frame: fi, Role: role, Kind: KindName(f.Type), IsLast: fi == nf-1})
			}
		}
	}
	return out
}

// writtenStates is the set of hard states ever saved.
func (r *Recording) writtenState(st raftpb.HardState) bool {
	if stEqual(st, raftpb.HardState{}) {
		return true
	}
	for i := range r.L {
		if r.L[i].Type == RecState && stEqual(*r.L[i].St, st) {
			return true
		}
	}
	return false
}

// judgeCorrupt classifies one read result of a corrupted log.
func (r *Recording) judgeCorrupt(names []string, start walpb.Snapshot, rr *readResult) (string, string) {
	if rr.panic != "" {
		return "panic-failstop", ""
	}
	if rr.err != nil {
		return "error-ok", ""
	}
	// any whole-record prefix, including the empty one (in write mode the
	// library never reports ErrSnapshotNotFound: ReadAll overwrites it with
	// the result of newFileEncoder; that is outside C16)
	for n := len(r.L); n >= 0; n-- {
		ex := Expect(r.L[:n], names, start)
		if !ex.OutOfRange && ex.Diff(rr.md, rr.st, rr.ents) == "" {
			return "prefix-ok", ""
		}
	}
	// the looser reading of the property: entries are an unmodified prefix,
	// the hard state is one that was written, the metadata is unmodified
	entsOK := false
	for n := len(r.L); n >= 0 && !entsOK; n-- {
		ex := Expect(r.L[:n], names, start)
		if ex.OutOfRange || len(ex.Ents) != len(rr.ents) {
			continue
		}
		entsOK = true
		for i := range rr.ents {
			if !entEqual(&rr.ents[i], &ex.Ents[i]) {
				entsOK = false
				break
			}
		}
	}
	mdOK := string(rr.md) == string(r.Meta)
	stOK := r.writtenState(rr.st)
	if entsOK && mdOK && stOK {
		return "loose-ok", ""
	}
	what := ""
	if !entsOK {
		what += "entries-altered "
	}
	if !stOK {
		what += "state-never-written "
	}
	if !mdOK {
		what += "metadata-altered "
	}
	return "violation", what
}

// CheckCorrupt evaluates one corruption in scratch directory dir.
func (r *Recording) CheckCorrupt(dir string, c *CorruptCase, withLatest bool) *CaseResult {
	res := &CaseResult{}
	final := r.Steps[len(r.Steps)-1].Img
	files := map[string][]byte{}
	for n, b := range final {
		files[n] = b
	}
	nb := append([]byte(nil), final[c.File]...)
	nb[c.Off] = c.New
	files[c.File] = nb
	names := WALNames(files)
	newType := ""
	if c.Role == "rectype" {
		newType = KindName(int64(c.New))
	}
	viol := func(step, what, observed string) *CaseResult {
		res.Outcome = "violation"
		cls := fmt.Sprintf("corrupt/%s/%s role=%s kind=%s", step, strings.TrimSpace(what), c.Role, c.Kind)
		if newType != "" {
			cls += " new=" + newType
		}
		v := &Violation{Class: cls, Phase: "corrupt", Step: step, Observed: observed,
			Accepted: "an error, or entries that are an unmodified prefix of the written entries with a hard state that was written and unmodified metadata",
			Case:     c, SeqNo: r.SeqNo, SegSize: r.SegSize, rec: r,
			Attr: map[string]string{"role": c.Role, "kind": c.Kind, "new_type": newType, "repl": c.Repl, "what": strings.TrimSpace(what)}}
		res.Viols = append(res.Viols, v)
		return res
	}
	starts := []walpb.Snapshot{{}}
	if withLatest {
		if s := latestSnap(r.L); s.Index != 0 {
			starts = append(starts, s)
		}
	}
	worst := "prefix-ok"
	note := func(o string) {
		switch o {
		case "panic-failstop":
			res.Panics++
			worst = o
		case "error-ok":
			if worst == "prefix-ok" || worst == "loose-ok" {
				worst = o
			}
		case "loose-ok":
			if worst == "prefix-ok" {
				worst = o
			}
		}
	}
	for si, start := range starts {
		if err := writeDir(dir, files); err != nil {
			return viol("harness", "io", err.Error())
		}
		// Verify
		vst, verr, vp := safeVerify(dir, start)
		switch {
		case vp != "":
			note("panic-failstop")
		case verr != nil:
			note("error-ok")
		case !r.writtenState(*vst):
			viol("verify", "state-never-written", fmt.Sprintf("wal.Verify returned nil error and state %+v, which was never saved", *vst))
		}
		// read mode
		rr := openRead(dir, start, false)
		o, what := r.judgeCorrupt(names, start, &rr)
		if o == "violation" {
			viol("read", what, "OpenForRead+ReadAll: "+summarize(rr.md, rr.st, rr.ents, nil))
		} else {
			note(o)
		}
		// write mode (+ repair)
		wr := openRead(dir, start, true)
		if wr.err == io.ErrUnexpectedEOF {
			ok, pm := safeRepair(dir)
			if pm != "" {
				note("panic-failstop")
				continue
			}
			if !ok {
				note("error-ok")
				continue
			}
			res.Repaired = true
			wr = openRead(dir, start, true)
		}
		if wr.w != nil {
			_ = wr.w.Close()
		}
		o, what = r.judgeCorrupt(names, start, &wr)
		if o == "violation" {
			step := "open"
			if res.Repaired {
				step = "post-repair"
			}
			if si > 0 {
				step += "@snap"
			}
			viol(step, what, "Open+ReadAll: "+summarize(wr.md, wr.st, wr.ents, nil))
		} else {
			note(o)
		}
	}
	if len(res.Viols) > 0 {
		return res
	}
	res.Outcome = worst
	return res
}
