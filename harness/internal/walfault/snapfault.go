package walfault

import (
	"bytes"
	"fmt"
	"math/rand"
	"os"
	"path/filepath"
	"sort"
	"strings"

	"go.etcd.io/etcd/pkg/v3/pbutil"
	"go.etcd.io/etcd/raft/v3/raftpb"
	"go.etcd.io/etcd/server/v3/etcdserver/api/snap"
	"go.etcd.io/etcd/server/v3/storage/wal/walpb"
)

// SnapSet is a snapshot directory written by the real Snapshotter.
type SnapSet struct {
	ID    int
	Seed  int64
	K     int
	Names []string          // newest first (the order the snapshotter tries them)
	Files map[string][]byte // as written by SaveSnap
	Orig  map[string][]byte // name -> marshalled raftpb.Snapshot that was saved
	Metas map[string]raftpb.SnapshotMetadata
}

// SnapCase is one mutilation of a snapshot directory.
type SnapCase struct {
	Set     int    `json:"set"`
	Kind    string `json:"kind"`   // byte | truncate | byte2 (newest emptied, second newest corrupted)
	Target  int    `json:"target"` // 0 = newest file, 1 = second newest
	Off     int    `json:"off"`
	Repl    string `json:"repl,omitempty"`
	Loader  string `json:"loader"` // load | newest-all | newest-older
	SetSeed int64  `json:"set_seed"`
	K       int    `json:"k"`
}

// BuildSnapSet saves k snapshots with the real Snapshotter in dir.
func BuildSnapSet(dir string, id int, seed int64, k int) (*SnapSet, error) {
	r := rand.New(rand.NewSource(seed))
	if err := os.RemoveAll(dir); err != nil {
		return nil, err
	}
	if err := os.MkdirAll(dir, 0o755); err != nil {
		return nil, err
	}
	ss := snap.New(nopLog, dir)
	set := &SnapSet{ID: id, Seed: seed, K: k, Files: map[string][]byte{}, Orig: map[string][]byte{}, Metas: map[string]raftpb.SnapshotMetadata{}}
	idx, term := uint64(0), uint64(1)
	sizes := []int{0, 1, 7, 100, 511, 512, 513, 1500, 4096}
	for i := 0; i < k; i++ {
		idx += uint64(1 + r.Intn(300))
		if r.Intn(2) == 0 {
			term += uint64(r.Intn(3))
		}
		n := sizes[r.Intn(len(sizes))]
		data := make([]byte, n)
		switch r.Intn(3) {
		case 0: // zeros
		case 1:
			for j := range data {
				data[j] = byte(r.Intn(256))
			}
		default:
			copy(data, bytes.Repeat([]byte(`{"k":"v"},`), n/10+1))
		}
		sn := raftpb.Snapshot{Data: data, Metadata: raftpb.SnapshotMetadata{Index: idx, Term: term,
			ConfState: raftpb.ConfState{Voters: []uint64{1, 2, uint64(3 + r.Intn(5))}}}}
		if n == 0 {
			sn.Data = nil
		}
		if err := ss.SaveSnap(sn); err != nil {
			return nil, err
		}
		name := fmt.Sprintf("%016x-%016x.snap", term, idx)
		b, err := os.ReadFile(filepath.Join(dir, name))
		if err != nil {
			return nil, err
		}
		set.Files[name] = b
		set.Orig[name] = pbutil.MustMarshal(&sn)
		set.Metas[name] = sn.Metadata
		set.Names = append(set.Names, name)
	}
	sort.Sort(sort.Reverse(sort.StringSlice(set.Names)))
	return set, nil
}

// Cases enumerates the mutilations of a set.
func (s *SnapSet) Cases(repls []string) []SnapCase {
	var out []SnapCase
	loaders := []string{"load", "newest-all", "newest-older"}
	newest := s.Files[s.Names[0]]
	for off := range newest {
		for _, rp := range repls {
			if replace(newest[off], rp) == newest[off] {
				continue
			}
			out = append(out, SnapCase{Set: s.ID, Kind: "byte", Target: 0, Off: off, Repl: rp, Loader: loaders[(off+len(rp))%3]})
		}
	}
	for l := 0; l < len(newest); l++ {
		out = append(out, SnapCase{Set: s.ID, Kind: "truncate", Target: 0, Off: l, Loader: loaders[l%3]})
	}
	if len(s.Names) > 1 {
		second := s.Files[s.Names[1]]
		for off := range second {
			for _, rp := range repls {
				if replace(second[off], rp) == second[off] {
					continue
				}
				out = append(out, SnapCase{Set: s.ID, Kind: "byte2", Target: 1, Off: off, Repl: rp, Loader: loaders[(off+len(rp))%2]})
			}
		}
		for l := 0; l < len(second); l++ {
			out = append(out, SnapCase{Set: s.ID, Kind: "truncate2", Target: 1, Off: l, Loader: "load"})
		}
	}
	for i := range out {
		out[i].SetSeed, out[i].K = s.Seed, s.K
	}
	return out
}

// CheckSnap evaluates one snapshot mutilation in scratch directory dir.
func (s *SnapSet) CheckSnap(dir string, c *SnapCase) *CaseResult {
	res := &CaseResult{}
	files := map[string][]byte{}
	for n, b := range s.Files {
		files[n] = b
	}
	damaged := map[string]bool{}
	tname := s.Names[c.Target]
	switch c.Kind {
	case "byte", "byte2":
		nb := append([]byte(nil), files[tname]...)
		nb[c.Off] = replace(nb[c.Off], c.Repl)
		files[tname] = nb
		damaged[tname] = true
	case "truncate", "truncate2":
		files[tname] = files[tname][:c.Off]
		damaged[tname] = true
	}
	if c.Target == 1 {
		// the newest file is a zero-length leftover of an interrupted save
		files[s.Names[0]] = nil
		damaged[s.Names[0]] = true
	}
	viol := func(what, observed, accepted string) *CaseResult {
		res.Outcome = "violation"
		res.Viols = append(res.Viols, &Violation{Class: "snap/" + c.Loader + "/" + what, Phase: "snap", Step: c.Loader, Observed: observed, Accepted: accepted, Case: c,
			Attr: map[string]string{"kind": c.Kind, "what": what}})
		return res
	}
	if err := writeDir(dir, files); err != nil {
		return viol("harness-io", err.Error(), "")
	}
	ss := snap.New(nopLog, dir)
	var got *raftpb.Snapshot
	var err error
	candidates := s.Names
	pm := ""
	func() {
		defer func() {
			if p := recover(); p != nil {
				pm = fmt.Sprint(p)
			}
		}()
		switch c.Loader {
		case "load":
			got, err = ss.Load()
		case "newest-all", "newest-older":
			var ws []walpb.Snapshot
			for i := len(s.Names) - 1; i >= 0; i-- {
				if c.Loader == "newest-older" && i == 0 {
					continue // the WAL does not know the newest snapshot
				}
				m := s.Metas[s.Names[i]]
				ws = append(ws, walpb.Snapshot{Index: m.Index, Term: m.Term})
			}
			if c.Loader == "newest-older" {
				candidates = s.Names[1:]
			}
			got, err = ss.LoadNewestAvailable(ws)
		}
	}()
	if pm != "" {
		res.Panics++
		res.Outcome = "panic-failstop"
		return res
	}
	// the newest candidate that is not damaged is what must come back,
	// unless a damaged file still decodes to exactly what was saved.
	want := ""
	for _, n := range candidates {
		if !damaged[n] {
			want = n
			break
		}
	}
	accepted := "ErrNoSnapshot"
	if want != "" {
		accepted = "the intact snapshot " + want
	}
	if err != nil {
		if err != snap.ErrNoSnapshot {
			return viol("unexpected-error", err.Error(), accepted)
		}
		if want != "" {
			return viol("no-fallback", "ErrNoSnapshot although "+want+" is intact", accepted)
		}
		res.Outcome = "error-ok"
	} else {
		gb := pbutil.MustMarshal(got)
		match := ""
		for _, n := range candidates {
			if bytes.Equal(gb, s.Orig[n]) {
				match = n
				break
			}
		}
		switch {
		case match == "":
			return viol("altered-snapshot-returned", fmt.Sprintf("snapshot index %d term %d with %d data bytes that was never saved", got.Metadata.Index, got.Metadata.Term, len(got.Data)), accepted)
		case match == want:
			res.Outcome = "fallback-ok"
		case damaged[match] && (want == "" || match > want):
			res.Outcome = "harmless" // the damaged file still decodes to exactly the saved snapshot
		default:
			return viol("wrong-fallback", "returned "+match, accepted)
		}
	}
	// every damaged file the loader had to give up on must be renamed .broken
	es, _ := os.ReadDir(dir)
	present := map[string]bool{}
	for _, e := range es {
		present[e.Name()] = true
	}
	for _, n := range s.Names {
		if !damaged[n] || (res.Outcome == "harmless") {
			continue
		}
		inCand := false
		for _, cn := range s.Names {
			if cn == n {
				inCand = true
			}
		}
		if !inCand {
			continue
		}
		if present[n] || !present[n+".broken"] {
			return viol("damaged-file-not-renamed", n+" still present / no "+n+".broken", "damaged file renamed to .broken")
		}
	}
	for n := range present {
		if strings.HasSuffix(n, ".broken") && !damaged[strings.TrimSuffix(n, ".broken")] {
			return viol("intact-file-renamed-broken", n, "only damaged files are renamed")
		}
	}
	return res
}
