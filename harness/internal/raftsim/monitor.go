package raftsim

import (
	"go.etcd.io/etcd/raft/v3"
	pb "go.etcd.io/etcd/raft/v3/raftpb"
)

type key struct{ i, t uint64 }

type ledgerEnt struct {
	term, dig uint64
	// cterm is the current term of the node that first reported the index as
	// committed; the leader that committed it had a term <= cterm.
	cterm uint64
	set   bool
}

// monitor holds the observer's global ledgers of one schedule.
type monitor struct {
	leaderOf  map[uint64]uint64 // ElectionSafety: term -> leader id
	digest    map[key]uint64    // LogMatching: (index,term) -> digest(type,data)
	prefix    map[key]uint64    // LogMatching: (index,term) -> hash of the whole prefix
	ledger    []ledgerEnt       // CommitLedger: index -> first committed (term,digest)
	ledgerMax uint64
	smAt      []uint64 // state-machine digest after applying index i (0 = unknown)
	states    map[uint64]struct{}
	evals     uint64
}

func (m *monitor) init() {
	m.leaderOf = make(map[uint64]uint64)
	m.digest = make(map[key]uint64)
	m.prefix = make(map[key]uint64)
	m.states = make(map[uint64]struct{})
	m.ledger = make([]ledgerEnt, 64)
	m.smAt = make([]uint64, 64)
}

func mix(a, b uint64) uint64 { return splitmix(a ^ splitmix(b)) }

func entryDigest(e *pb.Entry) uint64 {
	h := uint64(14695981039346656037) ^ uint64(e.Type)
	h *= 1099511628211
	for _, c := range e.Data {
		h ^= uint64(c)
		h *= 1099511628211
	}
	return h
}

// seedBoot registers the (index,term) every ConfState-bootstrapped Storage
// starts from.
func (m *monitor) seedBoot(idx, term uint64) {
	k := key{idx, term}
	m.digest[k] = 0
	m.prefix[k] = mix(idx, term)
	m.setLedger(idx, term, 0, 0)
}

func (m *monitor) growTo(i uint64) {
	for uint64(len(m.ledger)) <= i {
		m.ledger = append(m.ledger, make([]ledgerEnt, len(m.ledger))...)
	}
	for uint64(len(m.smAt)) <= i {
		m.smAt = append(m.smAt, make([]uint64, len(m.smAt))...)
	}
}

func (m *monitor) setLedger(i, term, dig, cterm uint64) {
	m.growTo(i)
	m.ledger[i] = ledgerEnt{term: term, dig: dig, cterm: cterm, set: true}
	if i > m.ledgerMax {
		m.ledgerMax = i
	}
}

// commitAgree records (index,term,digest) as committed or compares it with
// what was committed there first.
func (m *monitor) commitAgree(s *Sim, n *node, how string, i, term, dig uint64) {
	m.growTo(i)
	le := m.ledger[i]
	if !le.set {
		m.setLedger(i, term, dig, n.hs.Term)
		return
	}
	if le.term != term || le.dig != dig {
		s.fail("StateMachineSafety", "n%d %s index %d as (term %d, digest %x) but (term %d, digest %x) was committed there first",
			n.id, how, i, term, dig, le.term, le.dig)
	}
}

func (m *monitor) observeEntry(s *Sim, n *node, e *pb.Entry) uint64 {
	k := key{e.Index, e.Term}
	d := entryDigest(e)
	if old, ok := m.digest[k]; ok {
		if old != d {
			s.fail("LogMatching", "n%d holds entry (index %d, term %d) with digest %x, another log has digest %x",
				n.id, e.Index, e.Term, d, old)
		}
	} else {
		m.digest[k] = d
	}
	return d
}

// observeReady looks at a Ready right after it was handed out.
func (m *monitor) observeReady(s *Sim, n *node, rd *raft.Ready) {
	m.evals++
	// NB: Ready.Entries are fed to the LogMatching tables only when they are
	// persisted (checkAppend). An entry that existed only in the memory of a
	// node that crashed before persisting was never part of any log: a
	// single-voter leader may lose its term with the crash and legitimately
	// create a different entry with the same (index, term) afterwards.
	if rd.SoftState != nil && rd.SoftState.RaftState == raft.StateLeader {
		// Ready-level ElectionSafety: Status is polled after every event, so
		// this can only confirm what was seen, but it is the documented channel.
		t := n.rn.BasicStatus().Term
		if l, ok := m.leaderOf[t]; ok && l != n.id {
			s.fail("ElectionSafety", "Ready of n%d shows StateLeader in term %d, n%d already led that term", n.id, t, l)
		}
	}
	if n.lcPending {
		n.lcPending = false
		m.checkLeaderCompleteness(s, n, rd)
	}
}

// checkLeaderCompleteness runs at the first Ready after n showed StateLeader
// in a new term T: the log it was elected with (Storage overlaid with the
// not-yet-persisted Ready.Entries) must contain every entry that was in the
// commit ledger at the moment of the election and was reported committed by a
// node whose term was below T.
func (m *monitor) checkLeaderCompleteness(s *Sim, n *node, rd *raft.Ready) {
	d := n.disk
	fi, _ := d.FirstIndex()
	li, _ := d.LastIndex()
	base := fi - 1
	baseTerm, _ := d.Term(base)
	if !raft.IsEmptySnap(rd.Snapshot) {
		base, baseTerm = rd.Snapshot.Metadata.Index, rd.Snapshot.Metadata.Term
		li = base
	}
	ovFirst := ^uint64(0)
	if len(rd.Entries) > 0 {
		ovFirst = rd.Entries[0].Index
	}
	for i := base; i <= n.lcMax && i < uint64(len(m.ledger)); i++ {
		le := m.ledger[i]
		if !le.set || le.cterm >= n.lcTerm {
			// Leader Completeness speaks about entries committed in EARLIER
			// terms: a candidate may collect delayed votes and become leader of
			// term T after a leader of a later term has already committed more.
			continue
		}
		var term uint64
		switch {
		case i == base:
			term = baseTerm
		case i >= ovFirst:
			if i-ovFirst >= uint64(len(rd.Entries)) {
				s.fail("LeaderCompleteness", "n%d became leader in term %d but its log ends before committed index %d (term %d)", n.id, n.lcTerm, i, le.term)
				return
			}
			term = rd.Entries[i-ovFirst].Term
		case i <= li:
			term, _ = d.Term(i)
		default:
			s.fail("LeaderCompleteness", "n%d became leader in term %d but its log (last index %d) lacks committed index %d (term %d)", n.id, n.lcTerm, li, i, le.term)
			return
		}
		if term != le.term {
			s.fail("LeaderCompleteness", "n%d became leader in term %d holding term %d at committed index %d (committed term %d)", n.id, n.lcTerm, term, i, le.term)
			return
		}
	}
}

// checkHardState: HardStateMonotone on every persisted HardState.
func (m *monitor) checkHardState(s *Sim, n *node, hs pb.HardState) {
	p := n.hs
	switch {
	case hs.Term < p.Term:
		s.fail("HardStateMonotone", "n%d persists term %d after term %d", n.id, hs.Term, p.Term)
	case hs.Commit < p.Commit:
		s.fail("HardStateMonotone", "n%d persists commit %d after commit %d", n.id, hs.Commit, p.Commit)
	case hs.Term == p.Term && p.Vote != 0 && hs.Vote != p.Vote:
		s.fail("HardStateMonotone", "n%d persists vote %d in term %d after voting for %d", n.id, hs.Vote, hs.Term, p.Vote)
	}
}

// checkRestart: a restarted node must come back with its persisted HardState.
func (m *monitor) checkRestart(s *Sim, n *node, bs raft.BasicStatus) {
	p := n.hs
	switch {
	case bs.Term < p.Term:
		s.fail("HardStateMonotone", "n%d restarted at term %d, persisted term %d", n.id, bs.Term, p.Term)
	case bs.Commit < p.Commit:
		s.fail("HardStateMonotone", "n%d restarted at commit %d, persisted commit %d", n.id, bs.Commit, p.Commit)
	case bs.Term == p.Term && p.Vote != 0 && bs.Vote != p.Vote:
		s.fail("HardStateMonotone", "n%d restarted with vote %d in term %d, persisted vote %d", n.id, bs.Vote, bs.Term, p.Vote)
	}
}

// checkSnapshot: a snapshot replacing log entries must agree with the ledger.
func (m *monitor) checkSnapshot(s *Sim, n *node, sn *pb.Snapshot) {
	si, st := sn.Metadata.Index, sn.Metadata.Term
	m.growTo(si)
	le := m.ledger[si]
	if !le.set {
		s.fail("StateMachineSafety", "n%d installs snapshot (index %d, term %d) but no node ever committed index %d", n.id, si, st, si)
		return
	}
	if le.term != st {
		s.fail("NoCommittedRewrite", "n%d installs snapshot (index %d, term %d), committed term there is %d", n.id, si, st, le.term)
		return
	}
	if want := m.smAt[si]; want != 0 && want != decodeSM(sn.Data) {
		s.fail("StateMachineSafety", "n%d installs snapshot at %d with state digest %x, state machine there is %x", n.id, si, decodeSM(sn.Data), want)
		return
	}
	p, ok := m.prefix[key{si, st}]
	if !ok {
		s.fail("LogMatching", "n%d installs snapshot (index %d, term %d) that no log ever contained", n.id, si, st)
		return
	}
	n.chainBase = si
	n.chain = append(n.chain[:0], p)
	if si > n.ledgerChecked {
		n.ledgerChecked = si
	}
	if si > n.maxCommit {
		n.maxCommit = si
	}
}

// checkAppend runs before Ready.Entries overwrite/extend the persisted log.
func (m *monitor) checkAppend(s *Sim, n *node, ents []pb.Entry) {
	d := n.disk
	li, _ := d.LastIndex()
	fi, _ := d.FirstIndex()
	first := ents[0].Index
	if first > li+1 {
		s.fail("LogMatching", "n%d is told to persist index %d but its log ends at %d (gap)", n.id, first, li)
		return
	}
	for k := range ents {
		e := &ents[k]
		if e.Index != first+uint64(k) || (k > 0 && e.Term < ents[k-1].Term) {
			s.fail("LogMatching", "n%d: Ready.Entries not contiguous / terms decreasing at index %d", n.id, e.Index)
			return
		}
		if e.Index <= n.ledgerChecked && e.Index >= fi-1 && e.Index <= li {
			// Everything up to ledgerChecked was persisted, reported as
			// committed by this node and compared with the ledger.
			if old, err := d.Term(e.Index); err == nil && old != e.Term {
				s.fail("NoCommittedRewrite", "n%d rewrites index %d (term %d -> %d) although it persisted commit %d", n.id, e.Index, old, e.Term, n.ledgerChecked)
				return
			}
		}
	}
	if first <= n.chainBase {
		// Entries at or below an installed snapshot: nothing to chain on.
		return
	}
	pos := first - n.chainBase
	if pos > uint64(len(n.chain)) {
		s.fail("HarnessBug", "n%d chain shorter (%d) than log position %d", n.id, len(n.chain), pos)
		return
	}
	n.chain = n.chain[:pos]
	h := n.chain[pos-1]
	for k := range ents {
		e := &ents[k]
		kk := key{e.Index, e.Term}
		dig := m.observeEntry(s, n, e)
		if s.viol != nil {
			return
		}
		h = mix(mix(h, e.Term), dig)
		if old, ok := m.prefix[kk]; ok {
			if old != h {
				s.fail("LogMatching", "n%d: log prefix up to (index %d, term %d) differs from another log holding the same (index,term)", n.id, e.Index, e.Term)
				return
			}
		} else {
			m.prefix[kk] = h
		}
		n.chain = append(n.chain, h)
	}
}

// checkCommitAdvance compares every newly committed index of n with the ledger.
func (m *monitor) checkCommitAdvance(s *Sim, n *node, commit uint64) {
	d := n.disk
	li, _ := d.LastIndex()
	if commit > li {
		s.fail("HardStateMonotone", "n%d persists commit %d beyond its last index %d", n.id, commit, li)
		return
	}
	fi, _ := d.FirstIndex()
	for i := n.ledgerChecked + 1; i <= commit; i++ {
		if i < fi {
			continue
		}
		t, err := d.Term(i)
		if err != nil {
			continue
		}
		dig, ok := m.digest[key{i, t}]
		if !ok {
			if es, err := d.Entries(i, i+1, ^uint64(0)); err == nil && len(es) == 1 {
				dig = m.observeEntry(s, n, &es[0])
			}
		}
		m.commitAgree(s, n, "commits", i, t, dig)
		if s.viol != nil {
			return
		}
	}
	if commit > n.ledgerChecked {
		n.ledgerChecked = commit
	}
	if commit > n.maxCommit {
		n.maxCommit = commit
	}
}

// checkApply: ApplyOrder plus ledger agreement of every CommittedEntries item.
func (m *monitor) checkApply(s *Sim, n *node, e *pb.Entry) {
	if e.Index != n.nextDeliver {
		s.fail("ApplyOrder", "n%d (incarnation %d) is handed committed index %d, expected %d", n.id, n.incar, e.Index, n.nextDeliver)
		return
	}
	n.nextDeliver++
	m.commitAgree(s, n, "applies", e.Index, e.Term, entryDigest(e))
	if e.Index > n.maxCommit {
		n.maxCommit = e.Index
	}
}

// smStep advances the application's state-machine digest and checks that all
// nodes reach the same digest at the same index.
func (m *monitor) smStep(s *Sim, h uint64, e *pb.Entry) uint64 {
	nh := mix(mix(h, e.Index), entryDigest(e)) | 1
	m.growTo(e.Index)
	if old := m.smAt[e.Index]; old != 0 && old != nh {
		s.fail("StateMachineSafety", "state machine digest after index %d is %x on one node and %x on another", e.Index, nh, old)
	}
	m.smAt[e.Index] = nh
	return nh
}

// afterEvent runs after every simulated event.
func (m *monitor) afterEvent(s *Sim) {
	m.evals++
	var role, cfg [MaxID + 1]uint64
	var term, last, commit [MaxID + 1]uint64
	for id := 1; id <= MaxID; id++ {
		n := s.nodes[id]
		if n == nil {
			continue
		}
		last[id], _ = n.disk.LastIndex()
		cfg[id] = csMask(&n.disk.cs)
		if !n.up {
			role[id] = 5
			term[id], commit[id] = n.hs.Term, n.hs.Commit
			continue
		}
		bs := n.rn.BasicStatus()
		if bs.Term < n.memTerm {
			s.fail("HardStateMonotone", "n%d in-memory term went from %d to %d", n.id, n.memTerm, bs.Term)
			return
		}
		if bs.Commit < n.memCommit {
			s.fail("HardStateMonotone", "n%d in-memory commit went from %d to %d", n.id, n.memCommit, bs.Commit)
			return
		}
		n.memTerm, n.memCommit = bs.Term, bs.Commit
		if bs.Commit > n.maxCommit {
			n.maxCommit = bs.Commit
		}
		if int(bs.Term) > s.stats.MaxTerm {
			s.stats.MaxTerm = int(bs.Term)
		}
		role[id] = uint64(bs.RaftState) + 1
		term[id], commit[id] = bs.Term, bs.Commit
		if bs.RaftState == raft.StateLeader && n.leaderTerm != bs.Term {
			if l, ok := m.leaderOf[bs.Term]; ok && l != n.id {
				s.fail("ElectionSafety", "n%d is leader in term %d, n%d already led that term", n.id, bs.Term, l)
				return
			}
			m.leaderOf[bs.Term] = n.id
			n.leaderTerm = bs.Term
			n.lcPending, n.lcMax, n.lcTerm = true, m.ledgerMax, bs.Term
			s.stats.LeaderChanges++
		}
	}
	// Abstract state: per node (role, rank of term, rank of last index, rank
	// of commit, configuration as the application knows it).
	var h uint64
	for id := 1; id <= MaxID; id++ {
		if s.nodes[id] == nil {
			h = mix(h, 0)
			continue
		}
		var rt, rl, rc uint64
		for j := 1; j <= MaxID; j++ {
			if s.nodes[j] == nil {
				continue
			}
			if term[j] < term[id] {
				rt++
			}
			if last[j] < last[id] {
				rl++
			}
			if commit[j] < commit[id] {
				rc++
			}
		}
		h = mix(h, role[id]|rt<<3|rl<<6|rc<<9|cfg[id]<<12)
	}
	m.states[h] = struct{}{}
}

func csMask(cs *pb.ConfState) uint64 {
	var v uint64
	for _, id := range cs.Voters {
		v |= 1 << (id & 7)
	}
	for _, id := range cs.Learners {
		v |= 1 << (8 + id&7)
	}
	for _, id := range cs.VotersOutgoing {
		v |= 1 << (16 + id&7)
	}
	for _, id := range cs.LearnersNext {
		v |= 1 << (24 + id&7)
	}
	if cs.AutoLeave {
		v |= 1 << 32
	}
	return v
}
