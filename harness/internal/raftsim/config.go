package raftsim

import (
	"math/rand"
)

// MaxID is the largest node id a schedule may ever use (initial members plus
// members added by configuration changes).
const MaxID = 7

// Bias scenarios. Each sets up one classic danger by scripted events (all of
// which go through the normal event/monitor path) and then hands control back
// to the PRNG.
const (
	BiasNone = iota
	BiasFigure8
	BiasSplitVote
	BiasPartitionedLeader
	BiasStaleCandidate
	BiasRemovedCampaigner
	BiasJointDisjoint
	BiasSnapshotRace
	BiasRestartApplied0
	BiasBatchedConf
	BiasSlowApplier
	BiasLostVote
	BiasPendingReady
	numBias
)

// BiasNames names the scenarios in evidence and replay files.
var BiasNames = [numBias]string{
	"none", "figure8", "split_vote_storm", "partitioned_ex_leader",
	"stale_candidate_longer_older_log", "removed_node_campaigns",
	"joint_disjoint_majorities", "snapshot_vs_appends", "restart_applied0",
	"batched_conf_changes_disjoint_majorities", "slow_applier_campaigns_during_membership_change",
	"vote_lost_in_power_failure", "append_conflicting_inside_a_pending_ready",
}

// SchedConfig is everything that determines one schedule. It is a pure
// function of (Seed, Index, Events); see DeriveConfig.
type SchedConfig struct {
	Seed           int64  `json:"seed"`
	Index          int    `json:"schedule"`
	Events         int    `json:"events"`
	Voters         int    `json:"voters"`
	Learner        bool   `json:"learner"`
	PreVote        bool   `json:"pre_vote"`
	CheckQuorum    bool   `json:"check_quorum"`
	MaxSizePerMsg  uint64 `json:"max_size_per_msg"`
	MaxInflight    int    `json:"max_inflight_msgs"`
	ElectionTick   int    `json:"election_tick"`
	MaxUncommitted uint64 `json:"max_uncommitted_entries_size"`
	Bootstrap      bool   `json:"bootstrap"` // RawNode.Bootstrap(peers) instead of a ConfState snapshot
	Chaos          int    `json:"chaos"`     // 0 calm, 1 medium, 2 stormy
	DetTicks       bool   `json:"det_ticks"` // only leaders are ticked: schedule is exactly replayable
	Bias           int    `json:"bias"`
	BiasName       string `json:"bias_name"`
	BiasAt         int    `json:"bias_at"` // event number at which the scenario starts
}

func splitmix(x uint64) uint64 {
	x += 0x9e3779b97f4a7c15
	x = (x ^ (x >> 30)) * 0xbf58476d1ce4e5b9
	x = (x ^ (x >> 27)) * 0x94d049bb133111eb
	return x ^ (x >> 31)
}

// schedSeed mixes the run seed and the schedule index into one PRNG seed.
func schedSeed(seed int64, idx int) int64 {
	return int64(splitmix(splitmix(uint64(seed))^splitmix(uint64(idx)*0x100000001b3+7)) >> 1)
}

func pickW(r *rand.Rand, w []int) int {
	t := 0
	for _, x := range w {
		t += x
	}
	k := r.Intn(t)
	for i, x := range w {
		if k < x {
			return i
		}
		k -= x
	}
	return len(w) - 1
}

// DeriveConfig computes the configuration of schedule idx of run seed.
func DeriveConfig(seed int64, idx, events int) SchedConfig {
	r := rand.New(rand.NewSource(schedSeed(seed, idx) ^ 0x5eedc0f1))
	c := SchedConfig{Seed: seed, Index: idx, Events: events}
	c.Voters = 1 + pickW(r, []int{4, 8, 42, 10, 36})
	c.Learner = r.Intn(4) == 0
	c.PreVote = r.Intn(2) == 0
	c.CheckQuorum = r.Intn(5) < 2
	c.MaxSizePerMsg = []uint64{0, 64, 1 << 20}[pickW(r, []int{3, 3, 4})]
	c.MaxInflight = []int{1, 4, 256}[pickW(r, []int{2, 3, 5})]
	c.ElectionTick = []int{10, 5, 3}[pickW(r, []int{5, 4, 1})]
	c.Bootstrap = r.Intn(2) == 0
	if r.Intn(5) == 0 {
		c.MaxUncommitted = 300
	}
	c.Chaos = pickW(r, []int{3, 4, 3})
	c.DetTicks = r.Intn(5) < 2
	// The index, not the PRNG, picks the scenario so that every scenario is
	// exercised equally often whatever the seed.
	c.Bias = idx % (numBias + 1)
	if c.Bias >= numBias {
		c.Bias = BiasNone
	}
	c.BiasAt = 30 + r.Intn(events/4+1)
	early := 20 + r.Intn(80)
	lateOK := r.Intn(3) == 0
	switch c.Bias {
	case BiasFigure8:
		if !lateOK {
			c.BiasAt = early // before membership changes reshape the group
		}
		// Needs an odd group, one entry per MsgApp and no vote lease.
		c.Voters = 3 + 2*r.Intn(2)
		c.Learner = false
		c.MaxSizePerMsg = 0
		c.CheckQuorum = false
	case BiasSplitVote:
		if c.Voters < 3 {
			c.Voters = 3
		}
	case BiasPartitionedLeader, BiasStaleCandidate:
		if c.Voters < 3 {
			c.Voters = 3 + 2*r.Intn(2)
		}
		c.CheckQuorum = false
	case BiasRemovedCampaigner:
		if c.Voters < 3 {
			c.Voters = 3
		}
	case BiasJointDisjoint, BiasBatchedConf:
		if !lateOK {
			c.BiasAt = early
		}
		c.Voters = 3
		c.Learner = false
		c.CheckQuorum = false
	case BiasSlowApplier:
		if !lateOK {
			c.BiasAt = early
		}
		// paged applies: one entry per Ready, so that applying lags behind committing
		c.Voters = 3
		c.Learner = false
		c.CheckQuorum = false
		c.PreVote = false
		c.MaxSizePerMsg = 64
	case BiasLostVote:
		if !lateOK {
			c.BiasAt = early
		}
		// a voter learns the term of an election before it is asked for its vote: needs pre-vote and no lease
		c.Voters = 3
		c.Learner = false
		c.CheckQuorum = false
		c.PreVote = true
	case BiasPendingReady:
		if !lateOK {
			c.BiasAt = early
		}
		c.Voters = 5
		c.Learner = false
		c.CheckQuorum = false
		c.MaxSizePerMsg = 1 << 20
		c.MaxUncommitted = 0
	case BiasSnapshotRace, BiasRestartApplied0:
		if c.Voters < 2 {
			c.Voters = 3
		}
	}
	if c.CheckQuorum {
		c.DetTicks = false
	}
	c.BiasName = BiasNames[c.Bias]
	return c
}
