// Package raftsim is a deterministic, seeded simulator that drives a group of
// etcd raft.RawNode instances through the public API (Tick, Step, Propose,
// Campaign, Ready/Advance, ...) under message loss, duplication, reordering,
// partitions, crash/restart from persisted state and membership changes, and
// evaluates the Raft safety invariants of property C15 after every event.
package raftsim

import (
	"fmt"
	"sync"

	"go.etcd.io/etcd/raft/v3"
)

// quietLogger discards everything except Panic/Fatal, which must panic because
// the library relies on Panicf to abort when one of its own invariants breaks.
type quietLogger struct{}

func (quietLogger) Debug(v ...interface{})                   {}
func (quietLogger) Debugf(format string, v ...interface{})   {}
func (quietLogger) Error(v ...interface{})                   {}
func (quietLogger) Errorf(format string, v ...interface{})   {}
func (quietLogger) Info(v ...interface{})                    {}
func (quietLogger) Infof(format string, v ...interface{})    {}
func (quietLogger) Warning(v ...interface{})                 {}
func (quietLogger) Warningf(format string, v ...interface{}) {}
func (quietLogger) Fatal(v ...interface{})                   { panic(fmt.Sprint(v...)) }
func (quietLogger) Fatalf(format string, v ...interface{})   { panic(fmt.Sprintf(format, v...)) }
func (quietLogger) Panic(v ...interface{})                   { panic(fmt.Sprint(v...)) }
func (quietLogger) Panicf(format string, v ...interface{})   { panic(fmt.Sprintf(format, v...)) }

var logOnce sync.Once

// installLogger replaces the package-level raft logger (used by MemoryStorage)
// by the quiet one. Every raft.Config additionally gets its own quietLogger.
func installLogger() {
	logOnce.Do(func() { raft.SetLogger(quietLogger{}) })
}
