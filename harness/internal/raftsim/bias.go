package raftsim

import (
	"sort"

	"go.etcd.io/etcd/raft/v3"
	pb "go.etcd.io/etcd/raft/v3/raftpb"
)

// idset is a bitmask of node ids.
type idset uint16

func setOf(ids ...uint64) idset {
	var m idset
	for _, id := range ids {
		m |= 1 << id
	}
	return m
}

func (m idset) has(id uint64) bool { return id <= MaxID && m&(1<<id) != 0 }

func (s *Sim) allSet() idset {
	var m idset
	for id := uint64(1); id <= MaxID; id++ {
		if s.nodes[id] != nil {
			m |= 1 << id
		}
	}
	return m
}

// deliverWhere delivers, oldest first, every message that is in flight now and
// matches pred. Messages produced meanwhile are not touched.
func (s *Sim) deliverWhere(pred func(m *pb.Message) bool) int {
	return s.sweep(pred, false)
}

func (s *Sim) dropWhere(pred func(m *pb.Message) bool) int {
	return s.sweep(pred, true)
}

func (s *Sim) sweep(pred func(m *pb.Message) bool, drop bool) int {
	maxSeq := s.seq
	n := 0
	for s.viol == nil {
		best := -1
		for k := range s.pool {
			f := &s.pool[k]
			if f.seq <= maxSeq && pred(&f.m) && (best < 0 || f.seq < s.pool[best].seq) {
				best = k
			}
		}
		if best < 0 {
			break
		}
		if drop {
			s.doDrop(best)
		} else {
			s.doDeliver(best)
		}
		n++
	}
	return n
}

func between(a, b idset) func(m *pb.Message) bool {
	return func(m *pb.Message) bool { return a.has(m.From) && b.has(m.To) }
}

func within(a idset) func(m *pb.Message) bool { return between(a, a) }

func isVote(m *pb.Message) bool {
	return m.Type == pb.MsgVote || m.Type == pb.MsgVoteResp || m.Type == pb.MsgPreVote || m.Type == pb.MsgPreVoteResp
}

func votesWithin(a idset) func(m *pb.Message) bool {
	return func(m *pb.Message) bool { return isVote(m) && a.has(m.From) && a.has(m.To) }
}

func touching(a idset) func(m *pb.Message) bool {
	return func(m *pb.Message) bool { return a.has(m.From) || a.has(m.To) }
}

func (s *Sim) readyAll(set idset) int {
	n := 0
	for id := uint64(1); id <= MaxID && s.viol == nil; id++ {
		if set.has(id) && s.alive(id) && s.nodes[id].rn.HasReady() {
			s.doReady(id, readyFull)
			n++
		}
	}
	return n
}

// settle runs Ready handling and delivery inside set until nothing moves.
func (s *Sim) settle(set idset, rounds int) {
	for r := 0; r < rounds && s.viol == nil; r++ {
		a := s.readyAll(set)
		b := s.deliverWhere(within(set))
		if a+b == 0 {
			return
		}
	}
}

func (s *Sim) isLeader(id uint64) bool {
	return s.alive(id) && s.nodes[id].rn.BasicStatus().RaftState == raft.StateLeader
}

func (s *Sim) curLeader() (lead uint64, count int) {
	var best uint64
	for id := uint64(1); id <= MaxID; id++ {
		if s.isLeader(id) {
			count++
			if t := s.nodes[id].rn.BasicStatus().Term; t >= best {
				best, lead = t, id
			}
		}
	}
	return lead, count
}

func (s *Sim) expireLeases(set idset) {
	if !s.cfg.CheckQuorum {
		return
	}
	for id := uint64(1); id <= MaxID; id++ {
		if set.has(id) && s.alive(id) && !s.isLeader(id) {
			for i := 0; i < s.cfg.ElectionTick && s.viol == nil; i++ {
				s.doTick(id)
			}
		}
	}
}

// campaignVotes makes id campaign and delivers nothing but (pre)vote traffic
// inside set, so that a win does not replicate anything yet.
func (s *Sim) campaignVotes(id uint64, set idset, tries int) bool {
	for t := 0; t < tries && s.viol == nil; t++ {
		if !s.alive(id) {
			return false
		}
		s.expireLeases(set &^ setOf(id))
		s.doCampaign(id)
		for r := 0; r < 8 && s.viol == nil; r++ {
			a := s.readyAll(set)
			b := s.deliverWhere(votesWithin(set))
			if s.isLeader(id) {
				return true
			}
			if a+b == 0 {
				break
			}
		}
	}
	return s.isLeader(id)
}

// elect makes id campaign with full message exchange inside set.
func (s *Sim) elect(id uint64, set idset, tries int) bool {
	for t := 0; t < tries && s.viol == nil; t++ {
		if !s.alive(id) {
			return false
		}
		s.expireLeases(set &^ setOf(id))
		s.doCampaign(id)
		s.settle(set, 40)
		if s.isLeader(id) {
			return true
		}
	}
	return false
}

func (s *Sim) lastIndex(id uint64) uint64 {
	li, _ := s.nodes[id].disk.LastIndex()
	return li
}

func (s *Sim) termAt(id, idx uint64) uint64 {
	t, err := s.nodes[id].disk.Term(idx)
	if err != nil {
		return 0
	}
	return t
}

// prep brings the group into a quiet state with one leader: everybody up, no
// partition, empty network, logs converged.
func (s *Sim) prep() (lead uint64, voters []uint64, ok bool) {
	if s.split {
		s.doHeal()
	}
	for id := uint64(1); id <= MaxID; id++ {
		if s.nodes[id] != nil && !s.nodes[id].up {
			s.doRestart(id, false)
		}
	}
	s.dropWhere(func(*pb.Message) bool { return true })
	s.settle(s.allSet(), 40)
	for try := 0; try < 6 && s.viol == nil; try++ {
		all := s.allSet()
		l, cnt := s.curLeader()
		if cnt >= 1 {
			// a heartbeat round lets stale leaders notice the newer term
			for id := uint64(1); id <= MaxID; id++ {
				if s.isLeader(id) {
					s.doTick(id)
				}
			}
			s.settle(all, 40)
			l, cnt = s.curLeader()
		}
		if cnt == 1 {
			cs := &s.nodes[l].disk.cs
			if len(cs.VotersOutgoing) > 0 {
				s.doConfChange(l, pb.ConfChangeV2{}, EvLeaveJoint, 0)
				s.settle(all, 40)
				continue
			}
			if !inSet(cs.Voters, l) {
				continue
			}
			voters = append([]uint64(nil), cs.Voters...)
			sort.Slice(voters, func(i, j int) bool { return voters[i] < voters[j] })
			for _, v := range voters {
				if !s.alive(v) {
					return 0, nil, false
				}
			}
			return l, voters, s.viol == nil
		}
		if cnt == 0 {
			// campaign the voter with the most advanced applied configuration
			var cand uint64
			var bestA uint64
			for id := uint64(1); id <= MaxID; id++ {
				if s.alive(id) && inSet(s.nodes[id].disk.cs.Voters, id) && s.nodes[id].disk.applied >= bestA {
					cand, bestA = id, s.nodes[id].disk.applied
				}
			}
			if cand == 0 {
				return 0, nil, false
			}
			s.elect(cand, all, 1)
		}
	}
	return 0, nil, false
}

func without(ids []uint64, x ...uint64) []uint64 {
	var out []uint64
	for _, id := range ids {
		if !inSet(x, id) {
			out = append(out, id)
		}
	}
	return out
}

func (s *Sim) isolate(ids ...uint64) {
	var g [MaxID + 1]uint8
	for _, id := range ids {
		g[id] = 1
	}
	s.doPartition(g)
}

func (s *Sim) reunite() {
	if s.split {
		s.doHeal()
	}
	for id := uint64(1); id <= MaxID; id++ {
		if s.nodes[id] != nil && !s.nodes[id].up {
			s.doRestart(id, false)
		}
	}
	s.settle(s.allSet(), 40)
}

// runBias runs the scenario of this schedule; true if it ran to completion.
func (s *Sim) runBias() bool {
	switch s.cfg.Bias {
	case BiasFigure8:
		return s.biasFigure8()
	case BiasSplitVote:
		return s.biasSplitVote()
	case BiasPartitionedLeader:
		return s.biasPartitionedLeader(false)
	case BiasStaleCandidate:
		return s.biasPartitionedLeader(true)
	case BiasRemovedCampaigner:
		return s.biasRemoved()
	case BiasJointDisjoint:
		return s.biasJoint()
	case BiasSnapshotRace:
		return s.biasSnapshot()
	case BiasRestartApplied0:
		return s.biasApplied0()
	case BiasBatchedConf:
		return s.biasBatchedConf()
	case BiasSlowApplier:
		return s.biasSlowApplier()
	case BiasLostVote:
		return s.biasLostVote()
	case BiasPendingReady:
		return s.biasPendingReady()
	}
	return false
}

// biasFigure8 is Figure 8 of the Raft paper: an entry of an old term reaches
// a majority under a later leader that has nothing of its own term on a
// majority; it must not be committed by counting replicas, because a node
// holding a newer-term entry at the same index can still win and overwrite it.
func (s *Sim) biasFigure8() bool {
	l, v, ok := s.prep()
	if !ok || len(v) < 3 || len(v)%2 == 0 {
		s.biasNote = "abort@1"
		return false
	}
	q := len(v)/2 + 1
	others := without(v, l)
	mates, rest := others[:q-2], others[q-2:]
	s3, s5 := rest[0], rest[len(rest)-1]
	mateSet, restSet := setOf(mates...), setOf(rest...)
	lSet := setOf(l)
	// (a) x reaches a minority only
	xi := s.lastIndex(l) + 1
	s.doPropose(l)
	s.readyAll(lSet)
	s.deliverWhere(between(lSet, mateSet))
	s.readyAll(mateSet)
	s.dropWhere(touching(lSet))
	tx := s.termAt(l, xi)
	if tx == 0 {
		s.biasNote = "abort@2"
		return false
	}
	// (b) the leader dies; s5 wins with the votes of the rest, writes its own
	// entry at the same index and dies before replicating it
	s.doCrash(l)
	if !s.campaignVotes(s5, restSet, 4) {
		s.biasNote = "abort@3"
		return false
	}
	s.readyAll(setOf(s5))
	s.dropWhere(touching(setOf(s5)))
	s.doCrash(s5)
	if s.termAt(s5, xi) <= tx {
		s.biasNote = "abort@4"
		return false
	}
	// (c) the old leader returns, wins a later term and copies x to s3: x is
	// now on a majority, the leader's own-term entry is not
	s.doRestart(l, false)
	grp := lSet | mateSet | (restSet &^ setOf(s5))
	if !s.campaignVotes(l, grp, 5) {
		s.biasNote = "abort@5"
		return false
	}
	s.readyAll(lSet)
	held := false
	for r := 0; r < 8 && s.viol == nil; r++ {
		s.deliverWhere(between(lSet, mateSet))
		s.readyAll(mateSet)
		s.deliverWhere(between(mateSet, lSet))
		s.deliverWhere(between(lSet, setOf(s3)))
		s.readyAll(setOf(s3))
		s.deliverWhere(between(setOf(s3), lSet))
		if s.lastIndex(s3) == xi && s.termAt(s3, xi) == tx {
			held = true
			s.readyAll(lSet) // a library without the current-term rule commits x here
			s.dropWhere(between(lSet, setOf(s3)))
			break
		}
		s.readyAll(lSet)
	}
	s.dropWhere(between(lSet, restSet))
	// (d) the leader dies again; s5 returns and wins thanks to its newer last
	// term, then legitimately overwrites x
	s.doCrash(l)
	s.doRestart(s5, false)
	won := s.campaignVotes(s5, restSet, 5)
	s.settle(restSet, 40)
	s.reunite()
	return held && won
}

// biasSplitVote: every voter campaigns at once, several rounds, votes are
// delivered in PRNG order.
func (s *Sim) biasSplitVote() bool {
	_, v, ok := s.prep()
	if !ok || len(v) < 2 {
		s.biasNote = "abort@6"
		return false
	}
	all := s.allSet()
	for round := 0; round < 4 && s.viol == nil; round++ {
		s.expireLeases(all)
		for _, id := range v {
			if s.alive(id) {
				s.doCampaign(id)
			}
		}
		for step := 0; step < 200 && s.viol == nil; step++ {
			s.readyAll(all)
			var cand []int
			for k := range s.pool {
				if isVote(&s.pool[k].m) {
					cand = append(cand, k)
				}
			}
			if len(cand) == 0 {
				break
			}
			k := cand[s.rng.Intn(len(cand))]
			if s.rng.Intn(6) == 0 {
				s.doDup(k)
			} else {
				s.doDeliver(k)
			}
		}
	}
	s.settle(all, 40)
	return true
}

// biasPartitionedLeader: the leader is cut off (CheckQuorum off, so it keeps
// believing), piles up uncommitted entries, the majority moves on. With
// stale=true the cut-off node afterwards campaigns with its longer but older
// log against nodes holding newer committed entries.
func (s *Sim) biasPartitionedLeader(stale bool) bool {
	l, v, ok := s.prep()
	if !ok || len(v) < 3 {
		s.biasNote = "abort@7"
		return false
	}
	others := without(v, l)
	oSet := s.allSet() &^ setOf(l)
	s.isolate(l)
	n := 3
	if stale {
		n = 7
	}
	for i := 0; i < n; i++ {
		s.doPropose(l)
	}
	s.readyAll(setOf(l))
	if !s.elect(others[0], oSet, 3) {
		s.reunite()
		s.biasNote = "abort@8"
		return false
	}
	for i := 0; i < 3; i++ {
		s.doPropose(others[0])
	}
	s.settle(oSet, 40)
	both := s.isLeader(l) && s.isLeader(others[0])
	s.doPropose(l)
	s.doTick(l)
	s.readyAll(setOf(l))
	if stale {
		// the old leader restarts as a follower with its long stale log and
		// campaigns while the newer leader is down
		s.doCrash(l)
		s.doRestart(l, false)
		s.doCrash(others[0])
		s.doHeal()
		s.dropWhere(func(*pb.Message) bool { return true })
		up := s.allSet() &^ setOf(others[0])
		won := s.campaignVotes(l, up, 4)
		s.settle(up, 40)
		s.reunite()
		return both && !won
	}
	s.doHeal()
	s.doTick(others[0])
	s.settle(s.allSet(), 40)
	s.reunite()
	return both
}

// biasRemoved: a voter is removed while cut off and then keeps campaigning.
func (s *Sim) biasRemoved() bool {
	l, v, ok := s.prep()
	if !ok || len(v) < 3 {
		s.biasNote = "abort@9"
		return false
	}
	x := without(v, l)[0]
	oSet := s.allSet() &^ setOf(x)
	s.isolate(x)
	s.doConfChange(l, pb.ConfChange{Type: pb.ConfChangeRemoveNode, NodeID: x}, EvConfV1, uint64(pb.ConfChangeRemoveNode)<<8|x)
	s.settle(oSet, 40)
	removed := !inSet(s.nodes[l].disk.cs.Voters, x)
	s.doHeal()
	for i := 0; i < 3 && s.viol == nil; i++ {
		s.expireLeases(s.allSet())
		s.doCampaign(x)
		s.settle(s.allSet(), 40)
		s.doPropose(l)
	}
	s.reunite()
	return removed
}

// biasSlowApplier: applies are paged (one entry per Ready) and a follower x falls behind in applying while two voter
// removals (first y, who is never told, then x itself) are committed behind a run of ordinary entries. x knows they are
// committed but has applied neither; it must not campaign on the configuration it still has applied - y would vote
// for it, and x and the remaining sole voter would commit different entries at the same index.
func (s *Sim) biasSlowApplier() bool {
	l, v, ok := s.prep()
	if !ok || len(v) != 3 {
		s.biasNote = "abort@30"
		return false
	}
	f := without(v, l)
	x, y := f[0], f[1]
	lSet, xSet := setOf(l), setOf(x)
	// y hears nothing from now on
	s.dropWhere(touching(setOf(y)))
	for i := 0; i < 6; i++ {
		s.doPropose(l)
	}
	s.doConfChange(l, pb.ConfChange{Type: pb.ConfChangeRemoveNode, NodeID: y}, EvConfV1, uint64(pb.ConfChangeRemoveNode)<<8|y)
	// one Ready on x per exchange: it persists everything it was sent and applies one page
	exchange := func() {
		s.settle(lSet, 20)
		s.deliverWhere(between(lSet, xSet))
		s.dropWhere(touching(setOf(y)))
		s.readyAll(xSet)
		s.deliverWhere(between(xSet, lSet))
		s.settle(lSet, 20)
		s.dropWhere(touching(setOf(y)))
	}
	for r := 0; r < 3 && inSet(s.nodes[l].disk.cs.Voters, y) && s.viol == nil; r++ {
		exchange()
	}
	if inSet(s.nodes[l].disk.cs.Voters, y) {
		s.reunite()
		s.biasNote = "abort@31"
		return false
	}
	s.doConfChange(l, pb.ConfChange{Type: pb.ConfChangeRemoveNode, NodeID: x}, EvConfV1, uint64(pb.ConfChangeRemoveNode)<<8|x)
	for r := 0; r < 3 && inSet(s.nodes[l].disk.cs.Voters, x) && s.viol == nil; r++ {
		exchange()
	}
	removed := !inSet(s.nodes[l].disk.cs.Voters, x)
	// the sole voter moves on by itself; x, far behind in applying, reaches its election timeout; y is reachable again
	s.doPropose(l)
	s.settle(lSet, 20)
	s.dropWhere(touching(setOf(x, y)))
	xy := setOf(x, y)
	for i := 0; i < 2 && s.viol == nil; i++ {
		s.doCampaign(x)
		for r := 0; r < 6 && s.viol == nil; r++ {
			// x handles only what an election needs; it still does not catch up on applying
			s.readyAll(xy)
			if s.deliverWhere(within(xy)) == 0 {
				break
			}
		}
		s.doPropose(x)
		s.doPropose(l)
		s.settle(lSet, 10)
	}
	s.settle(xy, 40)
	s.reunite()
	return removed
}

// biasJoint: a joint configuration whose incoming and outgoing halves are
// disjoint, split by a partition right after the leader entered it.
func (s *Sim) biasJoint() bool {
	l, v, ok := s.prep()
	if !ok || len(v) != 3 {
		s.biasNote = "abort@10"
		return false
	}
	cs := &s.nodes[l].disk.cs
	var fresh []uint64
	for id := uint64(1); id <= MaxID && len(fresh) < 3; id++ {
		if !inSet(cs.Voters, id) && !inSet(cs.Learners, id) {
			fresh = append(fresh, id)
		}
	}
	if len(fresh) < 3 {
		s.biasNote = "abort@11"
		return false
	}
	f := without(v, l)
	f2, f3 := f[0], f[1]
	cc := pb.ConfChangeV2{Transition: pb.ConfChangeTransitionJointExplicit}
	for _, id := range fresh {
		cc.Changes = append(cc.Changes, pb.ConfChangeSingle{Type: pb.ConfChangeAddNode, NodeID: id})
	}
	for _, id := range v {
		cc.Changes = append(cc.Changes, pb.ConfChangeSingle{Type: pb.ConfChangeRemoveNode, NodeID: id})
	}
	lSet := setOf(l)
	s.doConfChange(l, cc, EvConfV2, 0)
	s.readyAll(lSet)
	// the joint entry commits with the leader and f2 only; f2 and f3 never
	// learn that it is committed
	for r := 0; r < 4 && len(s.nodes[l].disk.cs.VotersOutgoing) == 0 && s.viol == nil; r++ {
		s.deliverWhere(between(lSet, setOf(f2)))
		s.readyAll(setOf(f2))
		s.deliverWhere(between(setOf(f2), lSet))
		s.readyAll(lSet)
	}
	if len(s.nodes[l].disk.cs.VotersOutgoing) == 0 {
		s.reunite()
		s.biasNote = "abort@12"
		return false
	}
	s.dropWhere(touching(setOf(f2, f3)))
	s.isolate(f2, f3)
	aSet := s.allSet() &^ setOf(f2, f3)
	s.settle(aSet, 60)
	s.doPropose(l)
	s.doPropose(l)
	s.settle(aSet, 60)
	// the old followers elect one of themselves under the old configuration
	oSet := setOf(f2, f3)
	won := s.elect(f2, oSet, 3)
	s.doPropose(f2)
	s.settle(oSet, 40)
	s.doHeal()
	for id := uint64(1); id <= MaxID; id++ {
		if s.isLeader(id) {
			s.doTick(id)
		}
	}
	s.settle(s.allSet(), 60)
	s.reunite()
	return won
}

// biasSnapshot: a lagging follower gets a snapshot (twice) interleaved with
// appends of entries behind and beyond it.
func (s *Sim) biasSnapshot() bool {
	l, v, ok := s.prep()
	if !ok || len(v) < 2 {
		s.biasNote = "abort@13"
		return false
	}
	f := without(v, l)[0]
	before := s.stats.SnapshotsApplied
	oSet := s.allSet() &^ setOf(f)
	s.isolate(f)
	for i := 0; i < 8; i++ {
		s.doPropose(l)
	}
	s.settle(oSet, 60)
	s.doCompact(l)
	s.dropWhere(touching(setOf(f))) // what the partition swallowed
	s.doHeal()
	lSet, fSet := setOf(l), setOf(f)
	isSnap := func(m *pb.Message) bool { return m.Type == pb.MsgSnap && m.To == f }
	for r := 0; r < 6 && s.viol == nil; r++ {
		s.doTick(l)
		s.readyAll(lSet)
		dup := false
		for k := range s.pool {
			if isSnap(&s.pool[k].m) {
				s.doDup(k)
				dup = true
				break
			}
		}
		if dup {
			break
		}
		s.deliverWhere(between(lSet, fSet))
		s.readyAll(fSet)
		s.deliverWhere(between(fSet, lSet))
	}
	// first copy, then new appends, then the second copy
	for k := range s.pool {
		if isSnap(&s.pool[k].m) {
			s.doDeliver(k)
			break
		}
	}
	s.doPropose(l)
	s.doPropose(l)
	s.readyAll(lSet)
	s.deliverWhere(func(m *pb.Message) bool { return m.To == f && m.Type != pb.MsgSnap })
	s.readyAll(fSet)
	s.deliverWhere(isSnap)
	s.readyAll(fSet)
	s.settle(s.allSet(), 60)
	s.reunite()
	return s.stats.SnapshotsApplied > before
}

// biasApplied0: nodes restart with Config.Applied=0 after compaction and
// after configuration changes, so raft redelivers committed entries.
func (s *Sim) biasApplied0() bool {
	l, v, ok := s.prep()
	if !ok || len(v) < 2 {
		s.biasNote = "abort@14"
		return false
	}
	all := s.allSet()
	x := without(v, l)[0]
	for round := 0; round < 2 && s.viol == nil; round++ {
		for i := 0; i < 4; i++ {
			s.doPropose(l)
		}
		s.settle(all, 40)
		s.doCompact(x)
		s.doCompact(l)
		var out uint64
		for id := uint64(1); id <= MaxID; id++ {
			if s.nodes[id] == nil || (!inSet(s.nodes[l].disk.cs.Voters, id) && !inSet(s.nodes[l].disk.cs.Learners, id)) {
				out = id
				break
			}
		}
		if out != 0 {
			s.doConfChange(l, pb.ConfChange{Type: pb.ConfChangeAddLearnerNode, NodeID: out}, EvConfV1, uint64(pb.ConfChangeAddLearnerNode)<<8|out)
		}
		s.doPropose(l)
		s.settle(s.allSet(), 40)
		for _, id := range []uint64{x, l} {
			if s.alive(id) {
				s.doCrash(id)
			}
			s.doRestart(id, true)
			s.readyAll(setOf(id))
		}
		all = s.allSet()
		s.settle(all, 40)
		nl, cnt := s.curLeader()
		if cnt == 0 {
			if !s.elect(x, all, 3) {
				break
			}
			nl = x
		}
		l = nl
		x = without(v, l)[0]
	}
	s.reunite()
	return s.viol == nil
}

// biasBatchedConf: one proposal message carries two membership changes (add a,
// add b). Only one change may be pending at a time; if both got into the log,
// the members that applied both ({l,a,b} of {l,f2,f3,a,b}) and the old
// followers that applied neither ({f2,f3} of {l,f2,f3}) would each form a
// majority of their own configuration and could elect leaders for one term.
func (s *Sim) biasBatchedConf() bool {
	l, v, ok := s.prep()
	if !ok || len(v) != 3 {
		s.biasNote = "abort@20"
		return false
	}
	cs := &s.nodes[l].disk.cs
	var fresh []uint64
	for id := uint64(1); id <= MaxID && len(fresh) < 2; id++ {
		if !inSet(cs.Voters, id) && !inSet(cs.Learners, id) && s.nodes[id] == nil {
			fresh = append(fresh, id)
		}
	}
	if len(fresh) < 2 {
		s.biasNote = "abort@21"
		return false
	}
	f := without(v, l)
	f2, f3 := f[0], f[1]
	var ents []pb.Entry
	for i, id := range fresh {
		var cc pb.ConfChangeI = pb.ConfChange{Type: pb.ConfChangeAddNode, NodeID: id}
		if (s.step+i)%2 == 1 {
			cc = pb.ConfChangeV2{Changes: []pb.ConfChangeSingle{{Type: pb.ConfChangeAddNode, NodeID: id}}}
		}
		e, ok := confEntry(cc)
		if !ok {
			s.biasNote = "abort@22"
			return false
		}
		ents = append(ents, e)
	}
	lSet := setOf(l)
	s.dropWhere(touching(setOf(f3)))
	before := s.nodes[l].disk.applied
	s.doProposeBatch(l, ents)
	s.readyAll(lSet)
	// f2 stores and acknowledges the entries but never learns the new commit index
	s.deliverWhere(func(m *pb.Message) bool { return m.From == l && m.To == f2 && m.Type == pb.MsgApp })
	s.readyAll(setOf(f2))
	s.deliverWhere(between(setOf(f2), lSet))
	s.readyAll(lSet)
	if s.nodes[l].disk.applied == before {
		s.reunite()
		s.biasNote = "abort@23"
		return false
	}
	s.dropWhere(touching(setOf(f2, f3)))
	s.isolate(f2, f3)
	nSet := s.allSet() &^ setOf(f2, f3)
	s.settle(nSet, 80)
	// both sides hold an election for the next term
	won := false
	for _, id := range fresh {
		if s.alive(id) && inSet(s.nodes[id].disk.cs.Voters, id) {
			won = s.elect(id, nSet, 2) || won
			break
		}
	}
	oSet := setOf(f2, f3)
	wonOld := s.elect(f2, oSet, 2)
	s.doPropose(f2)
	s.settle(oSet, 40)
	s.doHeal()
	for id := uint64(1); id <= MaxID; id++ {
		if s.isLeader(id) {
			s.doTick(id)
		}
	}
	s.settle(s.allSet(), 60)
	s.reunite()
	return wonOld || won
}

func msgIs(t pb.MessageType, from, to uint64) func(m *pb.Message) bool {
	return func(m *pb.Message) bool { return m.Type == t && m.From == from && m.To == to }
}

func (s *Sim) term(id uint64) uint64 { return s.nodes[id].rn.BasicStatus().Term }

// flushPending acknowledges a Ready that the random phase left open on one of the nodes in set.
func (s *Sim) flushPending(set idset) {
	for id := uint64(1); id <= MaxID && s.viol == nil; id++ {
		if set.has(id) && s.alive(id) && s.nodes[id].pending != nil {
			s.doReady(id, readyFull)
		}
	}
}

// biasLostVote: two candidates a and b of the same term, and a voter y that already knows that term (it heard it from
// b in the answer to a heartbeat) but has not voted in it. y grants a's request - a HardState in which only the vote
// changes -, answers, loses power before anything else is written, comes back and is asked by b. A vote that was
// answered has to be on the disk: otherwise y votes twice and the term has two leaders.
func (s *Sim) biasLostVote() bool {
	y, v, ok := s.prep()
	if !ok || len(v) != 3 || !s.cfg.PreVote {
		s.biasNote = "abort@40"
		return false
	}
	all := s.allSet()
	s.flushPending(all)
	s.settle(all, 40)
	f := without(v, y)
	a, b := f[0], f[1]
	t0 := s.term(y)
	drain := func() { s.dropWhere(func(*pb.Message) bool { return true }) }
	// a wins its pre-vote with b's help and becomes a candidate of t0+1; its requests stay in flight
	s.doCampaign(a)
	s.readyAll(setOf(a))
	s.deliverWhere(msgIs(pb.MsgPreVote, a, b))
	s.readyAll(setOf(b))
	s.deliverWhere(msgIs(pb.MsgPreVoteResp, b, a))
	s.readyAll(setOf(a))
	// b wins its own pre-vote with y's help (y still leads t0) and becomes a candidate of t0+1 as well
	s.doCampaign(b)
	s.readyAll(setOf(b))
	s.deliverWhere(msgIs(pb.MsgPreVote, b, y))
	s.readyAll(setOf(y))
	s.deliverWhere(msgIs(pb.MsgPreVoteResp, y, b))
	s.readyAll(setOf(b))
	if s.term(a) != t0+1 || s.term(b) != t0+1 || s.term(y) != t0 || !s.isLeader(y) {
		drain()
		s.biasNote = "abort@41"
		return false
	}
	// y learns the new term from b's answer to a heartbeat: follower of t0+1, no vote cast. That is a term change
	// and is synced.
	s.doTick(y)
	s.readyAll(setOf(y))
	s.deliverWhere(msgIs(pb.MsgHeartbeat, y, b))
	s.readyAll(setOf(b))
	s.deliverWhere(msgIs(pb.MsgAppResp, b, y))
	s.readyAll(setOf(y))
	if s.term(y) != t0+1 || s.nodes[y].hs.Vote != 0 {
		drain()
		s.biasNote = "abort@42"
		return false
	}
	// y votes for a and says so
	s.deliverWhere(msgIs(pb.MsgVote, a, y))
	s.readyAll(setOf(y))
	if s.nodes[y].hs.Vote != a {
		drain()
		s.biasNote = "abort@43"
		return false
	}
	s.deliverWhere(msgIs(pb.MsgVoteResp, y, a))
	s.readyAll(setOf(a))
	// power failure on y, then b's request arrives
	s.flushPending(setOf(y))
	s.doPowerLoss(y)
	s.doRestart(y, false)
	s.deliverWhere(msgIs(pb.MsgVote, b, y))
	s.readyAll(setOf(y))
	s.deliverWhere(msgIs(pb.MsgVoteResp, y, b))
	s.readyAll(setOf(b))
	done := s.isLeader(a)
	drain()
	s.settle(all, 40)
	return done
}

// biasPendingReady: a follower f has handed out a Ready with the entries [A B C] and has not acknowledged it yet when
// the leader of a newer term, which shares A and has B' C' after it, sends its append. The slice inside the Ready
// must stay what was written to the log: Advance marks as stable what that slice says, and if the append had been
// written through it, B' and C' would count as stored although the log still holds B and C.
func (s *Sim) biasPendingReady() bool {
	l, v, ok := s.prep()
	if !ok || len(v) != 5 {
		s.biasNote = "abort@50"
		return false
	}
	all := s.allSet()
	s.flushPending(all)
	s.settle(all, 40)
	o := without(v, l)
	f, g := o[0], o[1]
	rest := setOf(o[1:]...) // g and the two others
	fSet, lSet := setOf(f), setOf(l)
	base := s.lastIndex(l)
	for _, id := range v {
		if s.lastIndex(id) != base {
			s.biasNote = "abort@51"
			return false
		}
	}
	// A reaches everybody; f has it in memory only, the others acknowledge it
	s.doPropose(l)
	s.readyAll(lSet)
	s.deliverWhere(between(lSet, fSet|rest))
	s.readyAll(rest)
	s.deliverWhere(between(rest, lSet))
	s.readyAll(lSet)
	// B and C reach f only
	s.doPropose(l)
	s.doPropose(l)
	s.readyAll(lSet)
	s.deliverWhere(func(m *pb.Message) bool { return m.From == l && m.To == f && m.Type == pb.MsgApp })
	s.dropWhere(between(lSet, rest))
	if s.nodes[f].pending != nil || !s.nodes[f].rn.HasReady() {
		s.biasNote = "abort@52"
		s.reunite()
		return false
	}
	// l is cut off; g wins with the votes of the two others and writes B' (its empty entry) and C'. f hears nothing of it.
	s.isolate(l)
	s.dropWhere(touching(fSet))
	if !s.elect(g, rest, 3) {
		s.biasNote = "abort@53"
		s.reunite()
		return false
	}
	s.dropWhere(touching(fSet))
	s.doPropose(g)
	s.settle(rest, 40)
	s.dropWhere(touching(fSet))
	hit := s.lastIndex(g) == base+3 && s.termAt(g, base+2) == s.term(g)
	// g's heartbeat reaches f. f's next Ready carries the new term, [A B C] and the answer to the heartbeat; it is
	// written and sent, but not acknowledged yet.
	for r := 0; r < 3 && s.viol == nil; r++ {
		s.doTick(g)
		s.readyAll(setOf(g))
		if s.deliverWhere(msgIs(pb.MsgHeartbeat, g, f)) > 0 {
			break
		}
	}
	s.doReady(f, readyHold)
	if s.viol != nil || s.nodes[f].pending == nil || len(s.nodes[f].pending.Entries) < 3 || s.lastIndex(f) != base+3 {
		s.biasNote = "abort@54"
		hit = false
	}
	// the answer takes f out of g's probing state: g sends [B' C'] after A, and f handles that before Advance
	s.deliverWhere(msgIs(pb.MsgHeartbeatResp, f, g))
	s.readyAll(setOf(g))
	if s.deliverWhere(msgIs(pb.MsgApp, g, f)) == 0 {
		s.biasNote = "abort@55"
		hit = false
	}
	s.flushPending(fSet)
	s.reunite()
	s.settle(all, 60)
	return hit
}
