package raftsim

import (
	"go.etcd.io/etcd/raft/v3"
	pb "go.etcd.io/etcd/raft/v3/raftpb"
)

// fault weights per chaos level: drop, dup, delay, partition, heal, crash(x3)
var chaosW = [3][6]int{
	{30, 30, 30, 6, 40, 4},
	{100, 60, 60, 12, 40, 8},
	{300, 120, 120, 20, 40, 15},
}

// share (percent) of events that are not tick/deliver/ready/propose
var chaosShare = [3]int{8, 18, 32}

// Run executes the schedule: PRNG-chosen events with one scripted scenario
// mixed in, monitors after every event.
func (s *Sim) Run() {
	biasDone := s.cfg.Bias == BiasNone
	fifo := []int{0, 50, 90}[s.rng.Intn(3)]
	for s.step < s.cfg.Events && s.viol == nil {
		if !biasDone && s.step >= s.cfg.BiasAt {
			biasDone = true
			s.stats.BiasRan[s.cfg.Bias]++
			if s.runBias() && s.viol == nil {
				s.stats.BiasCompleted[s.cfg.Bias]++
			}
			continue
		}
		s.randomEvent(fifo)
	}
	s.finish()
}

func (s *Sim) finish() {
	s.stats.Schedules = 1
	s.stats.TotalEvents = int64(s.step)
	s.stats.MonitorEvals = int64(s.mon.evals)
	s.stats.MaxCommitted = int(s.mon.ledgerMax)
	s.stats.SumCommitted = int64(s.mon.ledgerMax)
	if s.stats.LeaderChanges > 0 {
		s.stats.WithLeader = 1
	}
	base := uint64(0)
	if !s.cfg.Bootstrap {
		base = 2
	}
	if s.mon.ledgerMax > base+uint64(s.cfg.Voters) {
		s.stats.WithCommit = 1
	}
	if s.cfg.DetTicks {
		s.stats.DetSchedules = 1
	}
}

func (s *Sim) upNodes(buf []uint64) []uint64 {
	buf = buf[:0]
	for id := uint64(1); id <= MaxID; id++ {
		if s.alive(id) {
			buf = append(buf, id)
		}
	}
	return buf
}

func (s *Sim) downNodes(buf []uint64) []uint64 {
	buf = buf[:0]
	for id := uint64(1); id <= MaxID; id++ {
		if s.nodes[id] != nil && !s.nodes[id].up {
			buf = append(buf, id)
		}
	}
	return buf
}

func (s *Sim) readyNodes(buf []uint64) []uint64 {
	buf = buf[:0]
	for id := uint64(1); id <= MaxID; id++ {
		if s.alive(id) && s.nodes[id].rn.HasReady() {
			buf = append(buf, id)
		}
	}
	return buf
}

func (s *Sim) leaders(buf []uint64) []uint64 {
	buf = buf[:0]
	for id := uint64(1); id <= MaxID; id++ {
		if s.alive(id) && s.nodes[id].rn.BasicStatus().RaftState == raft.StateLeader {
			buf = append(buf, id)
		}
	}
	return buf
}

func (s *Sim) pick(ids []uint64) uint64 { return ids[s.rng.Intn(len(ids))] }

// pickFlight chooses an in-flight message that is not being delayed; with
// probability fifo% it prefers the oldest of three candidates.
func (s *Sim) pickFlight(fifo int) int {
	n := len(s.pool)
	if n == 0 {
		return -1
	}
	best := -1
	tries := 1
	if s.rng.Intn(100) < fifo {
		tries = 3
	}
	for t := 0; t < tries+3; t++ {
		k := s.rng.Intn(n)
		if s.pool[k].notBefore > s.step {
			continue
		}
		if best < 0 || s.pool[k].seq < s.pool[best].seq {
			best = k
		}
		tries--
		if tries == 0 {
			break
		}
	}
	return best
}

func (s *Sim) randomEvent(fifo int) {
	var b1, b2 [MaxID]uint64
	up := s.upNodes(b1[:])
	down := s.downNodes(b2[:])
	cw := chaosW[s.cfg.Chaos]
	var b0 [MaxID]uint64
	nReady := len(s.readyNodes(b0[:]))
	nPool := len(s.pool)
	if nPool > 200 {
		nPool = 200
	}
	tickW := 40
	if s.cfg.DetTicks {
		tickW = 15 // every tick goes to a leader and is a heartbeat broadcast
	}
	w := [...]int{
		tickW,           // 0 tick
		100 + 4*nPool,   // 1 deliver: keeps up with the traffic
		150 * nReady,    // 2 ready
		50,              // 3 propose
		cw[0],           // 4 drop
		cw[1],           // 5 dup
		cw[2],           // 6 delay
		cw[3],           // 7 partition
		cw[4],           // 8 heal
		5,               // 9 campaign
		5,               // 10 transfer
		40,              // 11 readindex
		cw[5],           // 12 crash pre-persist
		cw[5],           // 13 crash post-persist
		cw[5],           // 14 crash
		150 * len(down), // 15 restart
		50 * len(down),  // 16 restart applied0
		50,              // 17 compact
		12,              // 18 conf v1
		10,              // 19 conf v2
		8,               // 20 leave joint
		15,              // 21 report unreachable
		0,               // 22 pressure valve: drop when the pool is huge
	}
	// Two-stage choice: first progress (0..3) versus everything else with a
	// fixed share per chaos level, then by weight inside the class; so the
	// fault rates do not depend on how busy the network is.
	lo, hi := 0, 4
	if s.rng.Intn(100) < chaosShare[s.cfg.Chaos] {
		lo, hi = 4, len(w)
	}
	if len(s.pool) > 1024 {
		w[22] = 400
	}
	for i := range w {
		if i < lo || i >= hi {
			w[i] = 0
		}
	}
	tot := 0
	for _, x := range w {
		tot += x
	}
	k := s.rng.Intn(tot)
	ev := 0
	for i, x := range w {
		if k < x {
			ev = i
			break
		}
		k -= x
	}
	if len(up) == 0 {
		if len(down) > 0 {
			s.doRestart(s.pick(down), s.rng.Intn(4) == 0)
		} else {
			s.step++ // cannot happen: there is always at least one node
		}
		return
	}
	switch ev {
	case 1:
		if k := s.pickFlight(fifo); k >= 0 {
			s.doDeliver(k)
			return
		}
	case 2:
		var b3 [MaxID]uint64
		if r := s.readyNodes(b3[:]); len(r) > 0 {
			s.doReady(s.pick(r), readyFull)
			return
		}
	case 3:
		if s.rng.Intn(10) == 0 {
			// several entries in one proposal message, membership changes among them
			id := s.pick(up)
			n := 2 + s.rng.Intn(2)
			var ents []pb.Entry
			for i := 0; i < n; i++ {
				switch s.rng.Intn(4) {
				case 0:
					c := s.randomSingle(&s.nodes[id].disk.cs)
					if e, ok := confEntry(pb.ConfChange{Type: c.Type, NodeID: c.NodeID}); ok {
						ents = append(ents, e)
					}
				case 1:
					c := s.randomSingle(&s.nodes[id].disk.cs)
					if e, ok := confEntry(pb.ConfChangeV2{Changes: []pb.ConfChangeSingle{c}}); ok {
						ents = append(ents, e)
					}
				default:
					ents = append(ents, pb.Entry{Data: s.payload()})
				}
			}
			s.doProposeBatch(id, ents)
			return
		}
		s.doPropose(s.pick(up))
		return
	case 4, 22:
		if k := s.pickFlight(0); k >= 0 {
			s.doDrop(k)
			return
		}
	case 5:
		if k := s.pickFlight(0); k >= 0 && len(s.pool) < 4096 {
			s.doDup(k)
			return
		}
	case 6:
		if k := s.pickFlight(0); k >= 0 {
			s.doDelay(k, 1+s.rng.Intn(300))
			return
		}
	case 7:
		var g [MaxID + 1]uint8
		a, b := 0, 0
		for i := 1; i <= MaxID; i++ {
			g[i] = uint8(s.rng.Intn(2))
			if s.nodes[i] != nil {
				if g[i] == 0 {
					a++
				} else {
					b++
				}
			}
		}
		if a > 0 && b > 0 {
			s.doPartition(g)
			return
		}
	case 8:
		if s.split {
			s.doHeal()
			return
		}
	case 9:
		s.doCampaign(s.pick(up))
		return
	case 10:
		id := s.pick(up)
		if v := s.nodes[id].disk.cs.Voters; len(v) > 0 {
			s.doTransfer(id, v[s.rng.Intn(len(v))])
			return
		}
	case 11:
		s.doReadIndex(s.pick(up))
		return
	case 12, 13:
		var b3 [MaxID]uint64
		if r := s.readyNodes(b3[:]); len(r) > 0 {
			s.doReady(s.pick(r), readyCrashPre+(ev-12))
			return
		}
	case 14:
		s.doCrash(s.pick(up))
		return
	case 15:
		s.doRestart(s.pick(down), false)
		return
	case 16:
		s.doRestart(s.pick(down), true)
		return
	case 17:
		if s.doCompact(s.pick(up)) {
			return
		}
	case 18:
		s.randomConfV1(up)
		return
	case 19:
		s.randomConfV2(up)
		return
	case 20:
		id := s.pick(up)
		if len(s.nodes[id].disk.cs.VotersOutgoing) > 0 || s.rng.Intn(3) == 0 {
			s.doConfChange(id, pb.ConfChangeV2{}, EvLeaveJoint, 0)
			return
		}
	case 21:
		s.doReportUnreachable(s.pick(up), uint64(1+s.rng.Intn(MaxID)))
		return
	}
	// tick (also the fallback of events whose precondition does not hold)
	if s.cfg.DetTicks {
		// Only leaders are ticked (heartbeats, no library randomness);
		// elections start from explicit Campaign events, preferably when the
		// group has gone quiet.
		var b3 [MaxID]uint64
		quiet := nReady == 0 && len(s.pool) == 0
		l := s.leaders(b3[:])
		switch {
		case len(l) > 0 && !(quiet && s.rng.Intn(6) == 0):
			s.doTick(s.pick(l))
		case quiet || s.rng.Intn(25) == 0:
			s.doCampaign(s.pick(up))
		case nReady > 0:
			s.doReady(s.pick(s.readyNodes(b3[:])), readyFull)
		default:
			if k := s.pickFlight(fifo); k >= 0 {
				s.doDeliver(k)
			} else {
				s.doCampaign(s.pick(up))
			}
		}
		return
	}
	s.doTick(s.pick(up))
}

func inSet(ids []uint64, id uint64) bool {
	for _, x := range ids {
		if x == id {
			return true
		}
	}
	return false
}

func (s *Sim) randomSingle(cs *pb.ConfState) pb.ConfChangeSingle {
	smart := s.rng.Intn(6) != 0
	if !smart {
		return pb.ConfChangeSingle{
			Type:   []pb.ConfChangeType{pb.ConfChangeAddNode, pb.ConfChangeRemoveNode, pb.ConfChangeAddLearnerNode}[s.rng.Intn(3)],
			NodeID: uint64(1 + s.rng.Intn(MaxID)),
		}
	}
	var in, out []uint64
	for id := uint64(1); id <= MaxID; id++ {
		if inSet(cs.Voters, id) || inSet(cs.Learners, id) {
			in = append(in, id)
		} else {
			out = append(out, id)
		}
	}
	op := s.rng.Intn(10)
	if len(cs.Voters) >= 5 && op < 6 {
		op = 6 // shrink big groups
	}
	if len(cs.Voters) <= 3 && op >= 6 && op < 9 && s.rng.Intn(4) != 0 {
		op = s.rng.Intn(6) // grow small ones
	}
	switch {
	case op < 4 && len(out) > 0:
		return pb.ConfChangeSingle{Type: pb.ConfChangeAddNode, NodeID: s.pick(out)}
	case op < 6 && len(out) > 0:
		return pb.ConfChangeSingle{Type: pb.ConfChangeAddLearnerNode, NodeID: s.pick(out)}
	case op < 9 && len(in) > 0:
		return pb.ConfChangeSingle{Type: pb.ConfChangeRemoveNode, NodeID: s.pick(in)}
	case len(cs.Learners) > 0:
		return pb.ConfChangeSingle{Type: pb.ConfChangeAddNode, NodeID: s.pick(cs.Learners)} // promote
	case len(cs.Voters) > 1:
		return pb.ConfChangeSingle{Type: pb.ConfChangeAddLearnerNode, NodeID: s.pick(cs.Voters)} // demote
	}
	return pb.ConfChangeSingle{Type: pb.ConfChangeAddNode, NodeID: uint64(1 + s.rng.Intn(MaxID))}
}

func (s *Sim) randomConfV1(up []uint64) {
	id := s.pick(up)
	c := s.randomSingle(&s.nodes[id].disk.cs)
	s.doConfChange(id, pb.ConfChange{Type: c.Type, NodeID: c.NodeID}, EvConfV1, uint64(c.Type)<<8|c.NodeID)
}

func (s *Sim) randomConfV2(up []uint64) {
	id := s.pick(up)
	cs := &s.nodes[id].disk.cs
	n := 1 + s.rng.Intn(3)
	var cc pb.ConfChangeV2
	var aux uint64
	for i := 0; i < n; i++ {
		c := s.randomSingle(cs)
		cc.Changes = append(cc.Changes, c)
		aux = aux<<8 | uint64(c.Type)<<4 | c.NodeID
	}
	cc.Transition = []pb.ConfChangeTransition{pb.ConfChangeTransitionAuto, pb.ConfChangeTransitionJointImplicit, pb.ConfChangeTransitionJointExplicit}[s.rng.Intn(3)]
	s.doConfChange(id, cc, EvConfV2, aux<<2|uint64(cc.Transition))
}
