package raftsim

// Stats are the coverage counters of one schedule (or, merged, of a run).
type Stats struct {
	Events           [NumEv]int64
	LeaderChanges    int64
	MaxTerm          int
	MaxLog           int
	MaxCommitted     int
	SumCommitted     int64
	ConfApplied      int64
	ConfRejected     int64
	JointEntered     int64
	SnapshotsSent    int64
	SnapshotsApplied int64
	Crashes          int64
	Restarts         int64
	Compactions      int64
	NodesStarted     int64
	ProposalsDropped int64
	ReapplySkipped   int64
	ReadStates       int
	MonitorEvals     int64
	TotalEvents      int64
	BiasRan          [numBias]int64
	BiasCompleted    [numBias]int64
	Schedules        int64
	WithLeader       int64
	WithCommit       int64
	DetSchedules     int64
}

func (st *Stats) init() {}

// Merge adds o into st.
func (st *Stats) Merge(o *Stats) {
	for i := range st.Events {
		st.Events[i] += o.Events[i]
	}
	st.LeaderChanges += o.LeaderChanges
	if o.MaxTerm > st.MaxTerm {
		st.MaxTerm = o.MaxTerm
	}
	if o.MaxLog > st.MaxLog {
		st.MaxLog = o.MaxLog
	}
	if o.MaxCommitted > st.MaxCommitted {
		st.MaxCommitted = o.MaxCommitted
	}
	st.SumCommitted += o.SumCommitted
	st.ConfApplied += o.ConfApplied
	st.ConfRejected += o.ConfRejected
	st.JointEntered += o.JointEntered
	st.SnapshotsSent += o.SnapshotsSent
	st.SnapshotsApplied += o.SnapshotsApplied
	st.Crashes += o.Crashes
	st.Restarts += o.Restarts
	st.Compactions += o.Compactions
	st.NodesStarted += o.NodesStarted
	st.ProposalsDropped += o.ProposalsDropped
	st.ReapplySkipped += o.ReapplySkipped
	st.ReadStates += o.ReadStates
	st.MonitorEvals += o.MonitorEvals
	st.TotalEvents += o.TotalEvents
	for i := range st.BiasRan {
		st.BiasRan[i] += o.BiasRan[i]
		st.BiasCompleted[i] += o.BiasCompleted[i]
	}
	st.Schedules += o.Schedules
	st.WithLeader += o.WithLeader
	st.WithCommit += o.WithCommit
	st.DetSchedules += o.DetSchedules
}
