package raftsim

import (
	"encoding/json"
	"fmt"
	"os"
	"path/filepath"
	"runtime"
	"runtime/debug"
	"strings"
	"sync"
	"sync/atomic"
)

// Result is the outcome of one schedule.
type Result struct {
	Config    SchedConfig
	Stats     Stats
	Violation *Violation
	Harness   string // non-empty: the harness itself failed (not a verdict)
	States    []uint64
	Trace     []Ev
	Final     []string
	Sample    map[string]interface{}
}

// classifyPanic decides whether a recovered panic was raised by the raft
// library (a verdict) or by the harness itself (no verdict).
func classifyPanic(stack string) bool {
	lines := strings.Split(stack, "\n")
	seenPanic := false
	for _, ln := range lines {
		if strings.HasPrefix(ln, "panic(") {
			seenPanic = true
			continue
		}
		if !seenPanic || strings.HasPrefix(ln, "\t") || strings.HasPrefix(ln, "runtime.") || strings.HasPrefix(ln, "runtime/") {
			continue
		}
		if strings.Contains(ln, "raftsim.quietLogger") || strings.HasPrefix(ln, "fmt.") {
			continue
		}
		return strings.Contains(ln, "go.etcd.io/etcd/raft/")
	}
	return false
}

// RunSchedule runs one schedule to completion or to its first violation.
func RunSchedule(cfg SchedConfig, traceBuf []Ev) Result {
	return runSchedule(cfg, traceBuf, false)
}

func runSchedule(cfg SchedConfig, traceBuf []Ev, sample bool) (res Result) {
	res.Config = cfg
	var s *Sim
	defer func() {
		if r := recover(); r != nil {
			stack := string(debug.Stack())
			if s == nil {
				res.Harness = fmt.Sprintf("panic before start: %v\n%s", r, stack)
				return
			}
			s.finish()
			res.Stats = s.stats
			res.Trace = s.Trace()
			res.Final = s.describe()
			switch {
			case s.viol != nil:
				res.Violation = s.viol
			case classifyPanic(stack):
				res.Violation = &Violation{Invariant: "LibraryPanic", Detail: fmt.Sprint(r), Step: s.step}
			default:
				res.Harness = fmt.Sprintf("harness panic at step %d: %v\n%s", s.step, r, stack)
			}
		}
	}()
	s = NewSim(cfg, traceBuf)
	s.Run()
	res.Stats = s.stats
	if s.viol != nil {
		if s.viol.Invariant == "HarnessBug" {
			res.Harness = s.viol.Detail
		} else {
			res.Violation = s.viol
		}
		res.Trace = s.Trace()
		res.Final = s.describe()
	}
	res.States = make([]uint64, 0, len(s.mon.states))
	for h := range s.mon.states {
		res.States = append(res.States, h)
	}
	if sample {
		tr := s.Trace()
		var ex []string
		for i := 0; i < len(tr) && len(ex) < 25; i++ {
			ex = append(ex, tr[i].String())
		}
		res.Sample = map[string]interface{}{
			"schedule":        cfg.Index,
			"config":          cfg,
			"events":          s.step,
			"leader_changes":  s.stats.LeaderChanges,
			"max_term":        s.stats.MaxTerm,
			"committed_index": s.mon.ledgerMax,
			"abstract_states": len(s.mon.states),
			"final_state":     s.describe(),
			"trace_excerpt":   ex,
		}
	}
	return res
}

// describe renders the final per-node state for replay files and samples.
func (s *Sim) describe() []string {
	var out []string
	for id := uint64(1); id <= MaxID; id++ {
		n := s.nodes[id]
		if n == nil {
			continue
		}
		fi, _ := n.disk.FirstIndex()
		li, _ := n.disk.LastIndex()
		st := "down"
		if n.up {
			bs := n.rn.BasicStatus()
			st = fmt.Sprintf("%s term=%d vote=%d commit=%d lead=%d", bs.RaftState, bs.Term, bs.Vote, bs.Commit, bs.Lead)
		}
		out = append(out, fmt.Sprintf("n%d %s | disk: hs={term %d vote %d commit %d} log=[%d..%d] applied=%d voters=%v outgoing=%v learners=%v",
			id, st, n.hs.Term, n.hs.Vote, n.hs.Commit, fi, li, n.disk.applied, n.disk.cs.Voters, n.disk.cs.VotersOutgoing, n.disk.cs.Learners))
		if os.Getenv("RAFTSIM_LOGS") != "" {
			var b strings.Builder
			for i := fi; i <= li; i++ {
				if es, err := n.disk.Entries(i, i+1, 1<<30); err == nil && len(es) == 1 {
					fmt.Fprintf(&b, " %d:t%d:%04x", i, es[0].Term, entryDigest(&es[0])&0xffff)
				}
			}
			out = append(out, fmt.Sprintf("   n%d log:%s", id, b.String()))
		}
	}
	return out
}

// Summary is the aggregate of a run.
type Summary struct {
	Stats      Stats
	Distinct   int
	Violations []Result // first few violating schedules (full), in schedule order
	NViol      int
	Harness    []string
	Samples    []interface{}
}

const stateShards = 64

type stateSet struct {
	mu [stateShards]sync.Mutex
	m  [stateShards]map[uint64]struct{}
}

func newStateSet() *stateSet {
	ss := &stateSet{}
	for i := range ss.m {
		ss.m[i] = make(map[uint64]struct{})
	}
	return ss
}

func (ss *stateSet) add(hs []uint64) {
	var by [stateShards][]uint64
	for _, h := range hs {
		by[h%stateShards] = append(by[h%stateShards], h)
	}
	for i := range by {
		if len(by[i]) == 0 {
			continue
		}
		ss.mu[i].Lock()
		for _, h := range by[i] {
			ss.m[i][h] = struct{}{}
		}
		ss.mu[i].Unlock()
	}
}

func (ss *stateSet) size() int {
	n := 0
	for i := range ss.m {
		n += len(ss.m[i])
	}
	return n
}

// RunMany runs schedules 0..n-1 of run seed on all cores.
func RunMany(seed int64, n, events, workers int, progress func(done int)) *Summary {
	if workers <= 0 {
		workers = runtime.NumCPU()
	}
	sum := &Summary{}
	ss := newStateSet()
	var mu sync.Mutex
	var next int64 = -1
	var done int64
	var viol []Result
	sampleAt := map[int]bool{0: true, n / 3: true, 2 * n / 3: true}
	var wg sync.WaitGroup
	for w := 0; w < workers; w++ {
		wg.Add(1)
		go func() {
			defer wg.Done()
			buf := make([]Ev, traceCap)
			var local Stats
			for {
				i := int(atomic.AddInt64(&next, 1))
				if i >= n {
					break
				}
				cfg := DeriveConfig(seed, i, events)
				var res Result
				res = runSchedule(cfg, buf, sampleAt[i])
				if res.Sample != nil {
					mu.Lock()
					sum.Samples = append(sum.Samples, res.Sample)
					mu.Unlock()
				}
				local.Merge(&res.Stats)
				ss.add(res.States)
				if res.Violation != nil || res.Harness != "" {
					mu.Lock()
					if res.Harness != "" {
						if len(sum.Harness) < 5 {
							sum.Harness = append(sum.Harness, fmt.Sprintf("schedule %d: %s", i, res.Harness))
						}
					} else {
						sum.NViol++
						res.States = nil
						viol = append(viol, res)
					}
					mu.Unlock()
				}
				if d := atomic.AddInt64(&done, 1); progress != nil && d%20000 == 0 {
					progress(int(d))
				}
			}
			mu.Lock()
			sum.Stats.Merge(&local)
			mu.Unlock()
		}()
	}
	wg.Wait()
	// deterministic order, keep the five lowest schedule indexes
	for i := 0; i < len(viol); i++ {
		for j := i + 1; j < len(viol); j++ {
			if viol[j].Config.Index < viol[i].Config.Index {
				viol[i], viol[j] = viol[j], viol[i]
			}
		}
	}
	if len(viol) > 5 {
		viol = viol[:5]
	}
	sum.Violations = viol
	sum.Distinct = ss.size()
	return sum
}

// ReplayFile is the witness written for a violating schedule.
type ReplayFile struct {
	Property  string      `json:"property"`
	Seed      int64       `json:"seed"`
	Schedule  int         `json:"schedule"`
	Events    int         `json:"events"`
	Config    SchedConfig `json:"config"`
	Invariant string      `json:"invariant"`
	Detail    string      `json:"detail"`
	Step      int         `json:"step"`
	Note      string      `json:"note"`
	Final     []string    `json:"final_state"`
	Trace     []string    `json:"trace"`
}

// WriteReplay stores the witness of res in dir and returns its path.
func WriteReplay(dir string, res *Result) (string, error) {
	rf := ReplayFile{
		Property: "C15", Seed: res.Config.Seed, Schedule: res.Config.Index, Events: res.Config.Events,
		Config: res.Config, Invariant: res.Violation.Invariant, Detail: res.Violation.Detail, Step: res.Violation.Step,
		Note:  "re-run with: c15 -replay <this file>. The schedule is a pure function of (seed, schedule, events); only the library's time-seeded election-timeout jitter is outside the harness' control (none if det_ticks=true).",
		Final: res.Final,
	}
	for _, e := range res.Trace {
		rf.Trace = append(rf.Trace, e.String())
	}
	b, err := json.MarshalIndent(&rf, "", " ")
	if err != nil {
		return "", err
	}
	if err := os.MkdirAll(dir, 0o755); err != nil {
		return "", err
	}
	p := filepath.Join(dir, fmt.Sprintf("C15-%d-%d.json", rf.Seed, rf.Schedule))
	return p, os.WriteFile(p, append(b, '\n'), 0o644)
}

// ReadReplay loads a witness.
func ReadReplay(path string) (*ReplayFile, error) {
	b, err := os.ReadFile(path)
	if err != nil {
		return nil, err
	}
	var rf ReplayFile
	if err := json.Unmarshal(b, &rf); err != nil {
		return nil, err
	}
	return &rf, nil
}
