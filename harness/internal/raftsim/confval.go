package raftsim

import (
	"go.etcd.io/etcd/raft/v3/confchange"
	pb "go.etcd.io/etcd/raft/v3/raftpb"
	"go.etcd.io/etcd/raft/v3/tracker"
)

// validConfChange is the application-side validation of a committed
// configuration change (cf. etcd server's ValidateConfigurationChange): the
// change is dry-run with the public confchange package on the configuration
// the application has at this log position. Only changes that pass are handed
// to RawNode.ApplyConfChange; the others are treated as no-ops, which the API
// explicitly allows. The decision depends only on the log prefix, so every
// node decides the same way.
func validConfChange(cs *pb.ConfState, cc pb.ConfChangeV2) bool {
	tr := tracker.MakeProgressTracker(1)
	cfg, prs, err := confchange.Restore(confchange.Changer{Tracker: tr, LastIndex: 0}, *cs)
	if err != nil {
		return false
	}
	tr.Config, tr.Progress = cfg, prs
	ch := confchange.Changer{Tracker: tr, LastIndex: 0}
	if cc.LeaveJoint() {
		_, _, err = ch.LeaveJoint()
	} else if autoLeave, ok := cc.EnterJoint(); ok {
		_, _, err = ch.EnterJoint(autoLeave, cc.Changes...)
	} else {
		_, _, err = ch.Simple(cc.Changes...)
	}
	return err == nil
}
