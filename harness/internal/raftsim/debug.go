package raftsim

import "fmt"

// Timeline runs one schedule and returns a line every `every` events plus the
// full trace; it exists for diagnosing the harness itself.
func Timeline(cfg SchedConfig, every int) (lines []string, trace []string, viol *Violation) {
	s := NewSim(cfg, nil)
	s.hook = func() {
		if s.step%every == 0 {
			l, c := s.curLeader()
			lines = append(lines, fmt.Sprintf("step %d leader=%d(n=%d) ledger=%d pool=%d split=%v states=%d | %v", s.step, l, c, s.mon.ledgerMax, len(s.pool), s.split, len(s.mon.states), s.describe()))
		}
	}
	s.Run()
	lines = append(lines, fmt.Sprintf("bias=%s ran=%v completed=%v note=%s", cfg.BiasName, s.stats.BiasRan, s.stats.BiasCompleted, s.biasNote))
	for _, e := range s.Trace() {
		trace = append(trace, e.String())
	}
	return lines, trace, s.viol
}
