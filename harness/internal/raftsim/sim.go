package raftsim

import (
	"encoding/binary"
	"fmt"
	"math/rand"

	"go.etcd.io/etcd/raft/v3"
	pb "go.etcd.io/etcd/raft/v3/raftpb"
)

// EvKind enumerates the simulated events.
type EvKind uint8

// Event kinds. Every kind is counted when it is actually executed.
const (
	EvTick EvKind = iota
	EvDeliver
	EvDrop
	EvDup
	EvDelay
	EvPartition
	EvHeal
	EvPropose
	EvCampaign
	EvTransfer
	EvReadIndex
	EvReady
	EvCrashPrePersist
	EvCrashPostPersist
	EvCrash
	EvRestart
	EvRestartApplied0
	EvCompact
	EvConfV1
	EvConfV2
	EvLeaveJoint
	EvReportUnreachable
	EvProposeBatch
	EvReadyNoAdvance
	EvAdvance
	EvCrashPowerLoss
	NumEv
)

// EvNames are the names used in evidence and replay files.
var EvNames = [NumEv]string{
	"tick", "deliver", "drop", "duplicate", "delay", "partition", "heal",
	"propose", "campaign", "transfer_leader", "read_index", "ready_full",
	"ready_crash_before_persist", "ready_crash_after_persist", "crash",
	"restart", "restart_applied0", "compact_snapshot", "confchange_v1",
	"confchange_v2", "leave_joint", "report_unreachable", "propose_batch",
	"ready_without_advance", "advance_after_other_events", "crash_losing_unsynced_hard_state",
}

// Ev is one trace record. Message events carry a digest of the message.
type Ev struct {
	Step    int32
	Kind    EvKind
	Node    uint8
	Peer    uint8
	MsgType int8 // -1 if no message
	Reject  bool
	NEnts   uint16
	Term    uint64
	Index   uint64
	LogTerm uint64
	Commit  uint64
	Aux     uint64
}

func (e Ev) String() string {
	s := fmt.Sprintf("#%d %s n%d", e.Step, EvNames[e.Kind], e.Node)
	if e.MsgType >= 0 {
		s += fmt.Sprintf(" %s %d->%d term=%d idx=%d logterm=%d commit=%d ents=%d",
			pb.MessageType(e.MsgType), e.Peer, e.Node, e.Term, e.Index, e.LogTerm, e.Commit, e.NEnts)
		if e.Reject {
			s += " reject"
		}
	} else if e.Peer != 0 || e.Aux != 0 {
		s += fmt.Sprintf(" peer=%d aux=%d", e.Peer, e.Aux)
	}
	return s
}

const traceCap = 4096

// Violation describes the first invariant breach of a schedule.
type Violation struct {
	Invariant string `json:"invariant"`
	Detail    string `json:"detail"`
	Step      int    `json:"step"`
}

// disk is what survives a crash: raft's log/HardState/snapshot (MemoryStorage)
// plus the application's applied index, its ConfState as of that index and its
// state-machine digest. InitialState serves the ConfState matching the Applied
// index the node is restarted with, as the Storage contract requires.
type disk struct {
	*raft.MemoryStorage
	applied  uint64
	cs       pb.ConfState
	smHash   uint64
	override bool
	// syncedHS is the last HardState written by a Ready that said MustSync (what a write-ahead log that only
	// syncs when told so is certain to hold after a power failure); unsynced is set while a later one is not
	syncedHS pb.HardState
	unsynced bool
}

func (d *disk) InitialState() (pb.HardState, pb.ConfState, error) {
	hs, cs, err := d.MemoryStorage.InitialState()
	if d.override {
		return hs, d.cs, err
	}
	return hs, cs, err
}

type node struct {
	id    uint64
	rn    *raft.RawNode
	disk  *disk
	up    bool
	peers []raft.Peer // non-nil: bootstrapped via RawNode.Bootstrap
	incar int
	// pending is a Ready that was handled (persisted, sent, applied) but not yet acknowledged with Advance:
	// other events, message deliveries among them, happen in between, as with raft.Node's run loop
	pending *raft.Ready
	// afterPowerLoss: the persisted commit index may now lie below what the application had applied, so the
	// application reloads its state machine from the snapshot at the next start (as raftexample always does)
	afterPowerLoss bool

	// monitor state (survives crashes: it belongs to the observer)
	hs            pb.HardState // last persisted HardState
	memTerm       uint64       // in-memory term/commit of this incarnation
	memCommit     uint64
	maxCommit     uint64 // highest commit index this node ever reported
	ledgerChecked uint64 // highest index compared with the commit ledger
	nextDeliver   uint64 // next expected CommittedEntries index
	leaderTerm    uint64 // last term in which this node was seen as leader
	lcPending     bool   // LeaderCompleteness check due at next Ready
	lcMax         uint64 // ledger size at the election
	lcTerm        uint64
	chainBase     uint64   // index of chain[0]
	chain         []uint64 // prefix hash of the persisted log
}

type flight struct {
	m         pb.Message
	seq       uint64
	notBefore int
}

// Sim is one schedule.
type Sim struct {
	cfg   SchedConfig
	rng   *rand.Rand
	nodes [MaxID + 1]*node
	pool  []flight
	seq   uint64
	group [MaxID + 1]uint8
	split bool
	step  int
	props uint64

	trace  []Ev
	traceN int

	mon      monitor
	stats    Stats
	viol     *Violation
	hook     func() // diagnostics only
	biasNote string
}

// NewSim builds the initial cluster of a schedule.
func NewSim(cfg SchedConfig, traceBuf []Ev) *Sim {
	installLogger()
	s := &Sim{cfg: cfg, rng: rand.New(rand.NewSource(schedSeed(cfg.Seed, cfg.Index)))}
	if cap(traceBuf) >= traceCap {
		s.trace = traceBuf[:traceCap]
	} else {
		s.trace = make([]Ev, traceCap)
	}
	s.mon.init()
	s.stats.init()
	var cs pb.ConfState
	var peers []raft.Peer
	for i := 1; i <= cfg.Voters; i++ {
		cs.Voters = append(cs.Voters, uint64(i))
		peers = append(peers, raft.Peer{ID: uint64(i)})
	}
	total := cfg.Voters
	if cfg.Learner && !cfg.Bootstrap {
		total++
		cs.Learners = append(cs.Learners, uint64(total))
	}
	if cfg.Bootstrap {
		// Every bootstrapped node starts with the same ConfChangeAddNode
		// entries at term 1; they are committed by construction.
		for i := 1; i <= total; i++ {
			n := s.newNode(uint64(i))
			n.peers = peers
			s.boot(n, false)
		}
	} else {
		// Recommended way: a Storage whose snapshot carries the ConfState.
		const bootIdx, bootTerm = 2, 1
		s.mon.seedBoot(bootIdx, bootTerm)
		for i := 1; i <= total; i++ {
			n := s.newNode(uint64(i))
			snap := pb.Snapshot{Metadata: pb.SnapshotMetadata{Index: bootIdx, Term: bootTerm, ConfState: cs}}
			if err := n.disk.ApplySnapshot(snap); err != nil {
				panic(err)
			}
			n.disk.applied = bootIdx
			n.disk.cs = cs
			n.chainBase = bootIdx
			n.chain = []uint64{s.mon.prefix[key{bootIdx, bootTerm}]}
			n.ledgerChecked = bootIdx
			n.maxCommit = bootIdx
			s.boot(n, false)
		}
	}
	return s
}

func (s *Sim) newNode(id uint64) *node {
	n := &node{id: id, disk: &disk{MemoryStorage: raft.NewMemoryStorage()}}
	n.chain = []uint64{0}
	s.nodes[id] = n
	return n
}

func (s *Sim) raftConfig(n *node, applied uint64) *raft.Config {
	return &raft.Config{
		ID:                        n.id,
		ElectionTick:              s.cfg.ElectionTick,
		HeartbeatTick:             1,
		Storage:                   n.disk,
		Applied:                   applied,
		MaxSizePerMsg:             s.cfg.MaxSizePerMsg,
		MaxInflightMsgs:           s.cfg.MaxInflight,
		MaxUncommittedEntriesSize: s.cfg.MaxUncommitted,
		CheckQuorum:               s.cfg.CheckQuorum,
		PreVote:                   s.cfg.PreVote,
		Logger:                    quietLogger{},
	}
}

func (n *node) storageEmpty() bool {
	li, _ := n.disk.LastIndex()
	hs, _, _ := n.disk.MemoryStorage.InitialState()
	return li == 0 && raft.IsEmptyHardState(hs)
}

func (n *node) snapIndex() uint64 {
	sn, _ := n.disk.Snapshot()
	return sn.Metadata.Index
}

// boot (re)creates the RawNode of n from its disk, the way raftexample does:
// no persisted state and an initial peer list -> Bootstrap; otherwise restart
// from storage with Applied either the persisted applied index or zero.
func (s *Sim) boot(n *node, applied0 bool) {
	n.incar++
	if n.peers != nil && n.storageEmpty() {
		n.disk.override = false
		n.disk.applied, n.disk.cs, n.disk.smHash = 0, pb.ConfState{}, 0
		rn, err := raft.NewRawNode(s.raftConfig(n, 0))
		if err != nil {
			panic(err)
		}
		if err := rn.Bootstrap(n.peers); err != nil {
			panic(err)
		}
		n.rn = rn
		n.nextDeliver = 1
	} else {
		var applied uint64
		fi, _ := n.disk.FirstIndex()
		if applied0 {
			// The application lost its state machine and reloads it from the
			// latest snapshot; raft redelivers everything after the compaction
			// point and the application skips what the snapshot covers.
			sn, _ := n.disk.Snapshot()
			n.disk.override = false
			n.disk.applied = sn.Metadata.Index
			n.disk.cs = sn.Metadata.ConfState
			n.disk.smHash = decodeSM(sn.Data)
			n.nextDeliver = fi
		} else {
			n.disk.override = true
			applied = n.disk.applied
			if applied < fi-1 {
				applied = fi - 1
			}
			n.nextDeliver = applied + 1
		}
		rn, err := raft.NewRawNode(s.raftConfig(n, applied))
		if err != nil {
			panic(err)
		}
		n.rn = rn
	}
	n.up = true
	bs := n.rn.BasicStatus()
	s.mon.checkRestart(s, n, bs)
	n.memTerm, n.memCommit = bs.Term, bs.Commit
	n.lcPending = false
}

func encodeSM(h uint64) []byte {
	b := make([]byte, 8)
	binary.LittleEndian.PutUint64(b, h)
	return b
}

func decodeSM(b []byte) uint64 {
	if len(b) < 8 {
		return 0
	}
	return binary.LittleEndian.Uint64(b)
}

func (s *Sim) fail(inv, format string, a ...interface{}) {
	if s.viol == nil {
		s.viol = &Violation{Invariant: inv, Detail: fmt.Sprintf(format, a...), Step: s.step}
	}
}

func (s *Sim) record(k EvKind, nd uint64, m *pb.Message, peer, aux uint64) {
	s.step++
	s.stats.Events[k]++
	e := Ev{Step: int32(s.step), Kind: k, Node: uint8(nd), Peer: uint8(peer), MsgType: -1, Aux: aux}
	if m != nil {
		e.MsgType = int8(m.Type)
		e.Peer = uint8(m.From)
		e.Reject = m.Reject
		e.NEnts = uint16(len(m.Entries))
		e.Term, e.Index, e.LogTerm, e.Commit = m.Term, m.Index, m.LogTerm, m.Commit
		if m.Type == pb.MsgSnap {
			e.Index, e.LogTerm = m.Snapshot.Metadata.Index, m.Snapshot.Metadata.Term
		}
	}
	s.trace[s.traceN%traceCap] = e
	s.traceN++
}

// Trace returns the recorded tail of the event trace, oldest first.
func (s *Sim) Trace() []Ev {
	n := s.traceN
	if n > traceCap {
		out := make([]Ev, 0, traceCap)
		for i := n - traceCap; i < n; i++ {
			out = append(out, s.trace[i%traceCap])
		}
		return out
	}
	return append([]Ev(nil), s.trace[:n]...)
}

func (s *Sim) blocked(a, b uint64) bool {
	return s.split && s.group[a] != s.group[b]
}

func (s *Sim) alive(id uint64) bool {
	return id >= 1 && id <= MaxID && s.nodes[id] != nil && s.nodes[id].up
}

func (s *Sim) send(m pb.Message) {
	if m.To == 0 || m.To > MaxID || s.nodes[m.To] == nil {
		return // no such host (yet): lost
	}
	s.seq++
	s.pool = append(s.pool, flight{m: m, seq: s.seq})
	if m.Type == pb.MsgSnap {
		s.stats.SnapshotsSent++
	}
}

func (s *Sim) takeFlight(k int) flight {
	f := s.pool[k]
	last := len(s.pool) - 1
	s.pool[k] = s.pool[last]
	s.pool[last] = flight{}
	s.pool = s.pool[:last]
	return f
}

// ---- events -------------------------------------------------------------

func (s *Sim) doTick(id uint64) {
	s.record(EvTick, id, nil, 0, 0)
	s.nodes[id].rn.Tick()
	s.afterEvent()
}

// lose accounts for a message that will never arrive. The transport tells the
// sender about failed snapshots and (sometimes) unreachable peers, as the
// Node documentation demands.
func (s *Sim) lose(m *pb.Message) {
	if !s.alive(m.From) {
		return
	}
	from := s.nodes[m.From]
	if m.Type == pb.MsgSnap {
		from.rn.ReportSnapshot(m.To, raft.SnapshotFailure)
	} else if s.rng.Intn(4) == 0 {
		from.rn.ReportUnreachable(m.To)
	}
}

func (s *Sim) doDeliver(k int) {
	f := s.takeFlight(k)
	m := f.m
	if !s.alive(m.To) || s.blocked(m.From, m.To) {
		s.record(EvDrop, m.To, &m, 0, 1)
		s.lose(&m)
		s.afterEvent()
		return
	}
	s.record(EvDeliver, m.To, &m, 0, 0)
	if len(m.Entries) > 0 {
		// what arrives is a decoded copy, as on a wire: the sender built the message from slices of its own log and
		// storage, and a receiver that keeps the slice (raft does) must not be able to reach the sender's memory
		// through it - nor a duplicate of the message
		m.Entries = append(make([]pb.Entry, 0, len(m.Entries)), m.Entries...)
	}
	_ = s.nodes[m.To].rn.Step(m)
	if m.Type == pb.MsgSnap && s.alive(m.From) {
		s.nodes[m.From].rn.ReportSnapshot(m.To, raft.SnapshotFinish)
	}
	s.afterEvent()
}

func (s *Sim) doDrop(k int) {
	f := s.takeFlight(k)
	s.record(EvDrop, f.m.To, &f.m, 0, 0)
	s.lose(&f.m)
	s.afterEvent()
}

func (s *Sim) doDup(k int) {
	f := s.pool[k]
	s.record(EvDup, f.m.To, &f.m, 0, 0)
	s.seq++
	s.pool = append(s.pool, flight{m: f.m, seq: s.seq, notBefore: f.notBefore})
	s.afterEvent()
}

func (s *Sim) doDelay(k int, d int) {
	s.pool[k].notBefore = s.step + d
	s.record(EvDelay, s.pool[k].m.To, &s.pool[k].m, 0, uint64(d))
	s.afterEvent()
}

func (s *Sim) doPartition(groups [MaxID + 1]uint8) {
	s.group = groups
	s.split = true
	var mask uint64
	for i := 1; i <= MaxID; i++ {
		if groups[i] != 0 {
			mask |= 1 << uint(i)
		}
	}
	s.record(EvPartition, 0, nil, 0, mask)
	s.afterEvent()
}

func (s *Sim) doHeal() {
	s.split = false
	s.record(EvHeal, 0, nil, 0, 0)
	s.afterEvent()
}

func (s *Sim) payload() []byte {
	s.props++
	sz := 8 + s.rng.Intn(5)*8
	b := make([]byte, sz)
	binary.LittleEndian.PutUint64(b, s.props)
	for i := 8; i < sz; i++ {
		b[i] = byte(s.props) ^ byte(i)
	}
	return b
}

func (s *Sim) doPropose(id uint64) {
	s.record(EvPropose, id, nil, 0, s.props+1)
	if err := s.nodes[id].rn.Propose(s.payload()); err != nil {
		s.stats.ProposalsDropped++
	}
	s.afterEvent()
}

// doProposeBatch hands one proposal message with several entries to a node, as
// a forwarding follower or an application batching its proposals may (the
// Node API: Step with a MsgProp). Entries may be membership changes.
func (s *Sim) doProposeBatch(id uint64, ents []pb.Entry) {
	s.record(EvProposeBatch, id, nil, 0, uint64(len(ents)))
	if err := s.nodes[id].rn.Step(pb.Message{Type: pb.MsgProp, From: id, Entries: ents}); err != nil {
		s.stats.ProposalsDropped++
	}
	s.afterEvent()
}

func confEntry(cc pb.ConfChangeI) (pb.Entry, bool) {
	typ, data, err := pb.MarshalConfChange(cc)
	if err != nil {
		return pb.Entry{}, false
	}
	return pb.Entry{Type: typ, Data: data}, true
}

func (s *Sim) doCampaign(id uint64) {
	s.record(EvCampaign, id, nil, 0, 0)
	_ = s.nodes[id].rn.Campaign()
	s.afterEvent()
}

func (s *Sim) doTransfer(id, to uint64) {
	s.record(EvTransfer, id, nil, to, 0)
	s.nodes[id].rn.TransferLeader(to)
	s.afterEvent()
}

func (s *Sim) doReadIndex(id uint64) {
	s.props++
	s.record(EvReadIndex, id, nil, 0, s.props)
	s.nodes[id].rn.ReadIndex(encodeSM(s.props))
	s.afterEvent()
}

func (s *Sim) doReportUnreachable(id, peer uint64) {
	s.record(EvReportUnreachable, id, nil, peer, 0)
	s.nodes[id].rn.ReportUnreachable(peer)
	s.afterEvent()
}

func (s *Sim) crashNode(n *node) {
	n.rn = nil
	n.pending = nil
	n.up = false
	n.lcPending = false
	s.stats.Crashes++
}

func (s *Sim) doCrash(id uint64) { s.crash(id, false) }

// doPowerLoss is a crash that loses whatever was written without MustSync (scripted scenarios).
func (s *Sim) doPowerLoss(id uint64) { s.crash(id, true) }

func (s *Sim) crash(id uint64, power bool) {
	n := s.nodes[id]
	if n.disk.unsynced && (power || s.rng.Intn(2) == 0) {
		// power failure: a HardState written without MustSync is not on the disk yet
		s.record(EvCrashPowerLoss, id, nil, 0, 0)
		_ = n.disk.SetHardState(n.disk.syncedHS)
		n.hs = n.disk.syncedHS
		n.disk.unsynced = false
		n.afterPowerLoss = true
		s.crashNode(n)
		s.afterEvent()
		return
	}
	s.record(EvCrash, id, nil, 0, 0)
	s.crashNode(n)
	s.afterEvent()
}

func (s *Sim) doRestart(id uint64, applied0 bool) {
	k := EvRestart
	if applied0 {
		k = EvRestartApplied0
	}
	if s.nodes[id].afterPowerLoss {
		applied0, k = true, EvRestartApplied0
		s.nodes[id].afterPowerLoss = false
	}
	s.record(k, id, nil, 0, 0)
	s.stats.Restarts++
	s.boot(s.nodes[id], applied0)
	s.afterEvent()
}

// Ready modes.
const (
	readyFull = iota
	readyCrashPre
	readyCrashPost
	readyHold // persist, send and apply now; Advance at the next doReady of this node
)

// doReady handles the Ready of node id exactly like raftexample: persist
// HardState, snapshot and entries; then send; then apply; then Advance.
func (s *Sim) doReady(id uint64, mode int) {
	n := s.nodes[id]
	if n.pending != nil {
		// the Ready taken earlier is acknowledged now, after whatever happened in between
		s.record(EvAdvance, id, nil, 0, 0)
		n.rn.Advance(*n.pending)
		n.pending = nil
		s.afterEvent()
		return
	}
	split := mode == readyHold || (mode == readyFull && s.rng.Intn(4) == 0)
	k := EvReady
	if split {
		k = EvReadyNoAdvance
	}
	if mode == readyCrashPre {
		k = EvCrashPrePersist
	} else if mode == readyCrashPost {
		k = EvCrashPostPersist
	}
	rd := n.rn.Ready()
	s.record(k, id, nil, uint64(len(rd.Messages)), uint64(len(rd.Entries))<<32|uint64(len(rd.CommittedEntries)))
	s.mon.observeReady(s, n, &rd)
	if s.viol != nil {
		return
	}
	if mode == readyCrashPre {
		s.crashNode(n)
		s.afterEvent()
		return
	}
	s.persist(n, &rd)
	if s.viol != nil {
		return
	}
	if mode == readyCrashPost {
		s.crashNode(n)
		s.afterEvent()
		return
	}
	for i := range rd.Messages {
		s.send(rd.Messages[i])
	}
	s.apply(n, &rd)
	if s.viol != nil {
		return
	}
	s.stats.ReadStates += len(rd.ReadStates)
	if split {
		n.pending = &rd
		s.afterEvent()
		return
	}
	n.rn.Advance(rd)
	s.afterEvent()
}

func (s *Sim) persist(n *node, rd *raft.Ready) {
	d := n.disk
	if !raft.IsEmptyHardState(rd.HardState) {
		s.mon.checkHardState(s, n, rd.HardState)
		_ = d.SetHardState(rd.HardState)
		n.hs = rd.HardState
		if rd.MustSync {
			d.syncedHS, d.unsynced = rd.HardState, false
		} else {
			d.unsynced = true
		}
	} else if rd.MustSync && d.unsynced {
		// a synced write flushes what was written before it
		d.syncedHS, d.unsynced = n.hs, false
	}
	if !raft.IsEmptySnap(rd.Snapshot) && d.unsynced {
		// saving a snapshot syncs the log (wal.SaveSnapshot), and with it everything written before
		d.syncedHS, d.unsynced = n.hs, false
	}
	if !raft.IsEmptySnap(rd.Snapshot) {
		s.mon.checkSnapshot(s, n, &rd.Snapshot)
		if s.viol != nil {
			return
		}
		if err := d.ApplySnapshot(rd.Snapshot); err != nil {
			s.fail("StorageContract", "n%d: ApplySnapshot(index %d): %v", n.id, rd.Snapshot.Metadata.Index, err)
			return
		}
		// The application installs the snapshot atomically with raft's log.
		d.applied = rd.Snapshot.Metadata.Index
		d.cs = rd.Snapshot.Metadata.ConfState
		d.smHash = decodeSM(rd.Snapshot.Data)
		n.nextDeliver = d.applied + 1
		s.stats.SnapshotsApplied++
		for _, id := range allIDs(&d.cs) {
			s.ensureStarted(id)
		}
	}
	if len(rd.Entries) > 0 {
		s.mon.checkAppend(s, n, rd.Entries)
		if s.viol != nil {
			return
		}
		_ = d.Append(rd.Entries)
		if li, _ := d.LastIndex(); int(li) > s.stats.MaxLog {
			s.stats.MaxLog = int(li)
		}
	}
	if !raft.IsEmptyHardState(rd.HardState) {
		s.mon.checkCommitAdvance(s, n, rd.HardState.Commit)
	}
}

func allIDs(cs *pb.ConfState) []uint64 {
	var out []uint64
	out = append(out, cs.Voters...)
	out = append(out, cs.Learners...)
	out = append(out, cs.VotersOutgoing...)
	out = append(out, cs.LearnersNext...)
	return out
}

// ensureStarted starts a member that was added by a configuration change: an
// empty Storage and no peers, i.e. the "join" path of raftexample.
func (s *Sim) ensureStarted(id uint64) {
	if id == 0 || id > MaxID || s.nodes[id] != nil {
		return
	}
	n := s.newNode(id)
	s.boot(n, false)
	s.stats.NodesStarted++
}

func (s *Sim) apply(n *node, rd *raft.Ready) {
	d := n.disk
	for i := range rd.CommittedEntries {
		e := &rd.CommittedEntries[i]
		s.mon.checkApply(s, n, e)
		if s.viol != nil {
			return
		}
		if e.Index <= d.applied {
			// Redelivered after a restart with Applied=0; the state machine
			// restored from the snapshot already contains it.
			s.stats.ReapplySkipped++
			continue
		}
		switch e.Type {
		case pb.EntryConfChange:
			var cc pb.ConfChange
			if err := cc.Unmarshal(e.Data); err != nil {
				s.fail("HarnessBug", "unmarshal ConfChange: %v", err)
				return
			}
			s.applyConf(n, cc)
		case pb.EntryConfChangeV2:
			var cc pb.ConfChangeV2
			if err := cc.Unmarshal(e.Data); err != nil {
				s.fail("HarnessBug", "unmarshal ConfChangeV2: %v", err)
				return
			}
			s.applyConf(n, cc)
		}
		d.applied = e.Index
		d.smHash = s.mon.smStep(s, d.smHash, e)
		if s.viol != nil {
			return
		}
	}
}

// applyConf validates the change against the configuration the application
// has at this log position (the same on every node) and, like etcd's server,
// does not hand invalid changes to raft.
func (s *Sim) applyConf(n *node, cc pb.ConfChangeI) {
	if !validConfChange(&n.disk.cs, cc.AsV2()) {
		s.stats.ConfRejected++
		return
	}
	cs := n.rn.ApplyConfChange(cc)
	n.disk.cs = *cs
	s.stats.ConfApplied++
	if len(cs.VotersOutgoing) > 0 {
		s.stats.JointEntered++
	}
	for _, id := range allIDs(cs) {
		s.ensureStarted(id)
	}
}

func (s *Sim) doCompact(id uint64) bool {
	n := s.nodes[id]
	d := n.disk
	a := d.applied
	if n.pending != nil {
		// raft's own applied cursor only moves at Advance, and the application must not compact beyond it
		// (Storage contract): no compaction while a Ready is outstanding
		return false
	}
	if a <= n.snapIndex() {
		return false
	}
	if li, _ := d.LastIndex(); a > li {
		return false
	}
	s.record(EvCompact, id, nil, 0, a)
	cs := d.cs
	if _, err := d.CreateSnapshot(a, &cs, encodeSM(d.smHash)); err != nil {
		s.fail("StorageContract", "n%d: CreateSnapshot(%d): %v", id, a, err)
		return true
	}
	// the snapshot is recorded in the log with a sync (wal.SaveSnapshot): nothing written before it can be lost
	if d.unsynced {
		d.syncedHS, d.unsynced = n.hs, false
	}
	keep := uint64(s.rng.Intn(4))
	fi, _ := d.FirstIndex()
	if a > keep && a-keep >= fi {
		_ = d.Compact(a - keep)
	}
	s.stats.Compactions++
	s.afterEvent()
	return true
}

func (s *Sim) doConfChange(id uint64, cc pb.ConfChangeI, k EvKind, aux uint64) {
	s.record(k, id, nil, 0, aux)
	if err := s.nodes[id].rn.ProposeConfChange(cc); err != nil {
		s.stats.ProposalsDropped++
	}
	s.afterEvent()
}

// afterEvent runs the per-event monitors.
func (s *Sim) afterEvent() {
	if s.viol != nil {
		return
	}
	s.mon.afterEvent(s)
	if s.hook != nil {
		s.hook()
	}
}
