package model

import (
	"math"
	"strconv"
	"strings"

	"rgverif/internal/respc"
)

func init() {
	handlers["XADD"] = hXAdd
	handlers["XRANGE"] = hXRange
}

func parseU64(s string) (uint64, bool) {
	if s == "" {
		return 0, false
	}
	for _, c := range s {
		if c < '0' || c > '9' {
			return 0, false
		}
	}
	v, err := strconv.ParseUint(s, 10, 64)
	return v, err == nil
}

// parseXID parses "ms" or "ms-seq". hasSeq=false for the bare form.
func parseXID(s string) (id XID, hasSeq, ok bool) {
	parts := strings.Split(s, "-")
	if len(parts) > 2 {
		return id, false, false
	}
	ms, ok1 := parseU64(parts[0])
	if !ok1 {
		return id, false, false
	}
	id.Ms = ms
	if len(parts) == 2 {
		seq, ok2 := parseU64(parts[1])
		if !ok2 {
			return id, false, false
		}
		id.Seq = seq
		return id, true, true
	}
	return id, false, true
}

// lenientID reports id texts that strict parsers reject but strconv-style parsers accept ("+5", "5-+1").
func lenientID(s string) bool {
	s = strings.TrimPrefix(s, "(")
	if s == "-" || s == "+" || s == "*" {
		return false
	}
	if _, _, ok := parseXID(s); ok {
		return false
	}
	if strings.HasSuffix(s, "-*") {
		if _, ok := parseU64(strings.TrimSuffix(s, "-*")); ok {
			return false
		}
	}
	parts := strings.SplitN(s, "-", 2)
	for _, p := range parts {
		if p == "*" {
			continue
		}
		if _, err := strconv.ParseInt(p, 10, 64); err != nil {
			return false
		}
	}
	return true
}

func parseXIDText(g respc.Value, lenient bool) (XID, bool) {
	t, ok := text(g, lenient)
	if !ok {
		return XID{}, false
	}
	id, hasSeq, ok := parseXID(string(t))
	return id, ok && hasSeq
}

func hXAdd(db *DB, a [][]byte, tm Time) ([]alt, string) {
	if len(a) < 5 {
		return errAlt("arity"), ""
	}
	key := string(a[1])
	i := 2
	nomk := false
	trim := "" // MAXLEN | MINID
	approx := false
	var maxlen int64
	var minid XID
	hasLimit := false
	for i < len(a) {
		o := upper(a[i])
		if o == "NOMKSTREAM" {
			nomk = true
			i++
			continue
		}
		if o == "MAXLEN" || o == "MINID" {
			if trim != "" {
				return nil, "two trimming strategies"
			}
			trim = o
			i++
			if i < len(a) && (string(a[i]) == "=" || string(a[i]) == "~") {
				approx = string(a[i]) == "~"
				i++
			}
			if i >= len(a) {
				return errAlt("syntax"), ""
			}
			if trim == "MAXLEN" {
				n, canon, lenOK := parseIntStrict(a[i])
				if !lenOK {
					return errAlt("MAXLEN not an integer"), ""
				}
				if !canon {
					return nil, "non-canonical integer"
				}
				if n < 0 {
					return errAlt("MAXLEN negative"), ""
				}
				maxlen = n
			} else {
				id, _, ok := parseXID(string(a[i]))
				if !ok {
					return errAlt("invalid MINID"), ""
				}
				minid = id
			}
			i++
			if i < len(a) && upper(a[i]) == "LIMIT" {
				hasLimit = true
				i++
				if i >= len(a) {
					return errAlt("syntax"), ""
				}
				n, _, lenOK := parseIntStrict(a[i])
				if !lenOK || n < 0 {
					return errAlt("LIMIT value"), ""
				}
				i++
			}
			continue
		}
		break
	}
	if hasLimit && !approx {
		return errAlt("LIMIT without ~"), ""
	}
	if i >= len(a) {
		return errAlt("syntax"), ""
	}
	idArg := string(a[i])
	i++
	fields := a[i:]
	if len(fields) == 0 || len(fields)%2 != 0 {
		return errAlt("wrong number of field arguments"), ""
	}
	if lenientID(idArg) {
		return nil, "id syntax accepted by some parsers only"
	}
	// id form
	mode := "explicit"
	var want XID
	switch {
	case idArg == "*":
		mode = "auto"
	case strings.HasSuffix(idArg, "-*"):
		ms, ok := parseU64(strings.TrimSuffix(idArg, "-*"))
		if !ok {
			return errAlt("invalid stream id"), ""
		}
		mode = "autoseq"
		want.Ms = ms
	default:
		id, _, ok := parseXID(idArg)
		if !ok {
			return errAlt("invalid stream id"), ""
		}
		want = id
	}
	if want.Ms > math.MaxInt64 || want.Seq > math.MaxInt64 || minid.Ms > math.MaxInt64 || minid.Seq > math.MaxInt64 {
		return nil, "id component above 2^63-1 (implementations with signed ids)"
	}
	v, wrong, amb := db.getTyped(key, "stream", tm)
	if amb {
		return nil, ambiguous
	}
	if wrong {
		return wrongTypeAlt(), ""
	}
	if v == nil && nomk {
		return one("nil (NOMKSTREAM on missing key)", mNil(), nil), ""
	}
	var last XID
	hasLast := false
	if v != nil {
		if len(v.X) > 0 {
			last, hasLast = v.X[len(v.X)-1].ID, true
		} else if v.XHas {
			// emptied by trimming: whether the old top id still counts is an open corner
			return nil, "XADD to a stream emptied by trimming"
		}
	}
	fcopy := make([][]byte, len(fields))
	for j, f := range fields {
		fcopy[j] = cp(f)
	}
	commit := func(id XID) {
		if v == nil {
			v = &Val{T: "stream"}
			db.Keys[key] = v
		}
		v.X = append(v.X, XEntry{ID: id, Fields: fcopy})
		v.XLast, v.XHas = id, true
		switch trim {
		case "MAXLEN":
			if !approx && int64(len(v.X)) > maxlen {
				v.X = append([]XEntry{}, v.X[int64(len(v.X))-maxlen:]...)
			}
		case "MINID":
			if !approx {
				k := 0
				for k < len(v.X) && v.X[k].ID.Less(minid) {
					k++
				}
				v.X = append([]XEntry{}, v.X[k:]...)
			}
		}
	}
	if approx && trim != "" {
		// any number of oldest-first evictions between none and the exact amount: the
		// caller re-synchronises; the reply id is still checked below through Unspecified=false
		// being impossible here, so we give up precision for this corner.
		return nil, "approximate trimming"
	}
	switch mode {
	case "explicit":
		if want == (XID{}) {
			return errAlt("id 0-0 is not allowed"), ""
		}
		if hasLast && !last.Less(want) {
			return errAlt("id equal or smaller than the top item"), ""
		}
		return one("bulk "+want.String(), mBulk([]byte(want.String())), func() { commit(want) }), ""
	case "autoseq":
		id := want
		if hasLast && last.Ms == want.Ms {
			if last.Seq == math.MaxUint64 {
				return errAlt("sequence overflow"), ""
			}
			id.Seq = last.Seq + 1
		} else if hasLast && want.Ms < last.Ms {
			return errAlt("id equal or smaller than the top item"), ""
		} else if want.Ms == 0 {
			id.Seq = 1 // 0-0 is invalid, the first valid id for ms 0 is 0-1
		}
		return one("bulk "+id.String(), mBulk([]byte(id.String())), func() { commit(id) }), ""
	}
	// auto
	okID := func(id XID) bool {
		if hasLast && !last.Less(id) {
			return false
		}
		if int64(id.Ms) >= tm.Ms0 && int64(id.Ms) <= tm.Ms1 {
			if hasLast && id.Ms == last.Ms {
				return id.Seq == last.Seq+1
			}
			return id.Seq == 0
		}
		// clock behind the stream: ms pinned to the last ms
		return hasLast && id.Ms == last.Ms && int64(last.Ms) > tm.Ms0 && id.Seq == last.Seq+1
	}
	return []alt{{
		desc: "bulk auto id > " + last.String() + " with ms in the call window",
		match: func(g respc.Value, lenient bool) bool {
			id, ok := parseXIDText(g, lenient)
			return ok && okID(id)
		},
		apply: func(g respc.Value) {
			id, ok := parseXIDText(g, true)
			if !ok || !okID(id) {
				id = XID{Ms: uint64(tm.Ms1)}
				if hasLast && !last.Less(id) {
					id = XID{Ms: last.Ms, Seq: last.Seq + 1}
				}
			}
			commit(id)
		},
	}}, ""
}

func parseBound(s string, isStart bool) (id XID, excl, ok bool) {
	if strings.HasPrefix(s, "(") {
		excl = true
		s = s[1:]
	}
	if s == "-" {
		return XID{0, 0}, excl, !excl
	}
	if s == "+" {
		return XID{math.MaxUint64, math.MaxUint64}, excl, !excl
	}
	id, hasSeq, ok := parseXID(s)
	if !ok {
		return id, excl, false
	}
	if id.Ms > math.MaxInt64 || id.Seq > math.MaxInt64 {
		return id, excl, false
	}
	if !hasSeq && !isStart {
		id.Seq = math.MaxUint64
	}
	return id, excl, true
}

func hXRange(db *DB, a [][]byte, tm Time) ([]alt, string) {
	if len(a) != 4 && len(a) != 6 {
		return errAlt("arity"), ""
	}
	count := int64(-1)
	if len(a) == 6 {
		if upper(a[4]) != "COUNT" {
			return errAlt("syntax"), ""
		}
		n, canon, lenOK := parseIntStrict(a[5])
		if !lenOK {
			return errAlt("COUNT not an integer"), ""
		}
		if !canon || n < 0 {
			return nil, "COUNT corner"
		}
		count = n
	}
	if lenientID(string(a[2])) || lenientID(string(a[3])) {
		return nil, "id syntax accepted by some parsers only"
	}
	start, sx, ok1 := parseBound(string(a[2]), true)
	end, ex, ok2 := parseBound(string(a[3]), false)
	if !ok1 || !ok2 {
		return errAlt("invalid stream id"), ""
	}
	// '+' as start or '-' as end are accepted by the reference implementation (the
	// range is then empty) but not part of the documented syntax; exclusive bounds may be unsupported
	odd := sx || ex || strings.TrimPrefix(string(a[2]), "(") == "+" || strings.TrimPrefix(string(a[3]), "(") == "-"
	v, wrong, amb := db.getTyped(string(a[1]), "stream", tm)
	if amb {
		return nil, ambiguous
	}
	if wrong {
		if odd {
			return errAlt("WRONGTYPE or unsupported bound"), ""
		}
		return wrongTypeAlt(), ""
	}
	var sel []XEntry
	if v != nil {
		for _, e := range v.X {
			if e.ID.Less(start) || (sx && e.ID == start) {
				continue
			}
			if end.Less(e.ID) || (ex && e.ID == end) {
				continue
			}
			sel = append(sel, e)
		}
	}
	if count >= 0 && int64(len(sel)) > count {
		sel = sel[:count]
	}
	m := func(g respc.Value, lenient bool) bool {
		if g.Kind != '*' || g.Nil || len(g.Arr) != len(sel) {
			return false
		}
		for i, e := range sel {
			it := g.Arr[i]
			if it.Kind != '*' || it.Nil || len(it.Arr) != 2 {
				return false
			}
			t, ok := text(it.Arr[0], lenient)
			if !ok || string(t) != e.ID.String() {
				return false
			}
			if !mBulkArr(e.Fields)(it.Arr[1], lenient) {
				return false
			}
		}
		return true
	}
	alts := []alt{{desc: "array of " + strconv.Itoa(len(sel)) + " entries [id, [field value ...]]", match: m, apply: noop}}
	if odd {
		alts = append(alts, alt{desc: "error (bound form unsupported)", match: mErr(), apply: noop})
	}
	return alts, ""
}
