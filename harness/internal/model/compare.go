package model

import (
	"bytes"
	"fmt"
)

// CompareDumps compares the model's canonical dump with the implementation's.
// Deadlines: the implementation's exact deadline must lie in the model's
// interval. It returns human-readable differences (empty = equal).
func CompareDumps(want, got []Entry) []string {
	var diffs []string
	wi, gi := 0, 0
	for wi < len(want) || gi < len(got) {
		switch {
		case gi >= len(got) || (wi < len(want) && want[wi].Key < got[gi].Key):
			diffs = append(diffs, fmt.Sprintf("key %q (%s) missing in implementation", want[wi].Key, want[wi].Type))
			wi++
		case wi >= len(want) || got[gi].Key < want[wi].Key:
			diffs = append(diffs, fmt.Sprintf("key %q (%s) exists only in implementation", got[gi].Key, got[gi].Type))
			gi++
		default:
			if d := compareEntry(want[wi], got[gi]); d != "" {
				diffs = append(diffs, d)
			}
			wi++
			gi++
		}
	}
	return diffs
}

func compareEntry(w, g Entry) string {
	if w.Type != g.Type {
		return fmt.Sprintf("key %q: type want %s got %s", w.Key, w.Type, g.Type)
	}
	if w.HasDead != g.HasDead {
		return fmt.Sprintf("key %q: deadline present want %v got %v", w.Key, w.HasDead, g.HasDead)
	}
	if w.HasDead && (g.Dmin < w.Dmin || g.Dmax > w.Dmax) {
		return fmt.Sprintf("key %q: deadline %d outside [%d,%d]", w.Key, g.Dmin, w.Dmin, w.Dmax)
	}
	switch w.Type {
	case "string":
		if !bytes.Equal(w.Str, g.Str) {
			return fmt.Sprintf("key %q: value want %s got %s", w.Key, showBytes(w.Str), showBytes(g.Str))
		}
	case "list":
		if len(w.List) != len(g.List) {
			return fmt.Sprintf("key %q: list length want %d got %d", w.Key, len(w.List), len(g.List))
		}
		for i := range w.List {
			if !bytes.Equal(w.List[i], g.List[i]) {
				return fmt.Sprintf("key %q: list[%d] want %s got %s", w.Key, i, showBytes(w.List[i]), showBytes(g.List[i]))
			}
		}
	case "set":
		if len(w.Set) != len(g.Set) {
			return fmt.Sprintf("key %q: set size want %d got %d (%q vs %q)", w.Key, len(w.Set), len(g.Set), w.Set, g.Set)
		}
		for i := range w.Set {
			if w.Set[i] != g.Set[i] {
				return fmt.Sprintf("key %q: set members want %q got %q", w.Key, w.Set, g.Set)
			}
		}
	case "hash":
		if len(w.Hash) != len(g.Hash) {
			return fmt.Sprintf("key %q: hash size want %d got %d", w.Key, len(w.Hash), len(g.Hash))
		}
		for i := range w.Hash {
			if w.Hash[i] != g.Hash[i] {
				return fmt.Sprintf("key %q: hash field want %q got %q", w.Key, w.Hash[i], g.Hash[i])
			}
		}
	case "zset":
		if len(w.ZSet) != len(g.ZSet) {
			return fmt.Sprintf("key %q: zset size want %d got %d (%v vs %v)", w.Key, len(w.ZSet), len(g.ZSet), w.ZSet, g.ZSet)
		}
		for i := range w.ZSet {
			if w.ZSet[i].Member != g.ZSet[i].Member || w.ZSet[i].Score != g.ZSet[i].Score {
				return fmt.Sprintf("key %q: zset[%d] want %v got %v", w.Key, i, w.ZSet[i], g.ZSet[i])
			}
		}
	case "stream":
		if len(w.Stream) != len(g.Stream) {
			return fmt.Sprintf("key %q: stream length want %d got %d", w.Key, len(w.Stream), len(g.Stream))
		}
		for i := range w.Stream {
			if w.Stream[i].ID != g.Stream[i].ID {
				return fmt.Sprintf("key %q: stream[%d] id want %s got %s", w.Key, i, w.Stream[i].ID, g.Stream[i].ID)
			}
			if len(w.Stream[i].Fields) != len(g.Stream[i].Fields) {
				return fmt.Sprintf("key %q: stream[%d] field count want %d got %d", w.Key, i, len(w.Stream[i].Fields), len(g.Stream[i].Fields))
			}
			for j := range w.Stream[i].Fields {
				if !bytes.Equal(w.Stream[i].Fields[j], g.Stream[i].Fields[j]) {
					return fmt.Sprintf("key %q: stream[%d] field %d want %s got %s", w.Key, i, j, showBytes(w.Stream[i].Fields[j]), showBytes(g.Stream[i].Fields[j]))
				}
			}
		}
	}
	return ""
}
