package model

import (
	"math"
	"sort"
	"strconv"

	"rgverif/internal/respc"
)

func init() {
	handlers["HSET"] = hHSet
	handlers["HSETNX"] = hHSetNX
	handlers["HGET"] = hHGet
	handlers["HMGET"] = hHMGet
	handlers["HGETALL"] = hHGetAll
	handlers["HKEYS"] = hHKeys
	handlers["HVALS"] = hHVals
	handlers["HLEN"] = hHLen
	handlers["HEXISTS"] = hHExists
	handlers["HSTRLEN"] = hHStrLen
	handlers["HDEL"] = hHDel
	handlers["HINCRBY"] = hHIncrBy
	handlers["HINCRBYFLOAT"] = hHIncrByFloat
	handlers["HRANDFIELD"] = hHRandField
}

func hHSet(db *DB, a [][]byte, tm Time) ([]alt, string) {
	if len(a) < 4 || len(a)%2 != 0 {
		return errAlt("arity"), ""
	}
	key := string(a[1])
	v, wrong, amb := db.getTyped(key, "hash", tm)
	if amb {
		return nil, ambiguous
	}
	if wrong {
		return wrongTypeAlt(), ""
	}
	added := int64(0)
	seen := map[string]bool{}
	for i := 2; i < len(a); i += 2 {
		f := string(a[i])
		if seen[f] {
			continue
		}
		seen[f] = true
		if v == nil {
			added++
		} else if _, ok := v.H[f]; !ok {
			added++
		}
	}
	return one(":"+strconv.FormatInt(added, 10)+" (new fields)", mInt(added), func() {
		if v == nil {
			v = &Val{T: "hash", H: map[string][]byte{}}
			db.Keys[key] = v
		}
		for i := 2; i < len(a); i += 2 {
			v.H[string(a[i])] = cp(a[i+1])
		}
	}), ""
}

func hHSetNX(db *DB, a [][]byte, tm Time) ([]alt, string) {
	if len(a) != 4 {
		return errAlt("arity"), ""
	}
	key := string(a[1])
	v, wrong, amb := db.getTyped(key, "hash", tm)
	if amb {
		return nil, ambiguous
	}
	if wrong {
		return wrongTypeAlt(), ""
	}
	if v != nil {
		if _, ok := v.H[string(a[2])]; ok {
			return one(":0", mInt(0), nil), ""
		}
	}
	return one(":1", mInt(1), func() {
		if v == nil {
			v = &Val{T: "hash", H: map[string][]byte{}}
			db.Keys[key] = v
		}
		v.H[string(a[2])] = cp(a[3])
	}), ""
}

func hHGet(db *DB, a [][]byte, tm Time) ([]alt, string) {
	if len(a) != 3 {
		return errAlt("arity"), ""
	}
	v, wrong, amb := db.getTyped(string(a[1]), "hash", tm)
	if amb {
		return nil, ambiguous
	}
	if wrong {
		return wrongTypeAlt(), ""
	}
	if v != nil {
		if val, ok := v.H[string(a[2])]; ok {
			return one("bulk "+showBytes(val), mBulk(val), nil), ""
		}
	}
	return one("nil", mNilBulk(), nil), ""
}

func hHMGet(db *DB, a [][]byte, tm Time) ([]alt, string) {
	if len(a) < 3 {
		return errAlt("arity"), ""
	}
	v, wrong, amb := db.getTyped(string(a[1]), "hash", tm)
	if amb {
		return nil, ambiguous
	}
	if wrong {
		return wrongTypeAlt(), ""
	}
	want := make([][]byte, 0, len(a)-2)
	for _, f := range a[2:] {
		if v == nil {
			want = append(want, nil)
			continue
		}
		if val, ok := v.H[string(f)]; ok {
			want = append(want, val)
		} else {
			want = append(want, nil)
		}
	}
	return one("array with one value/nil per field", mBulkArr(want), nil), ""
}

func hashFields(v *Val) []string {
	if v == nil {
		return nil
	}
	fs := make([]string, 0, len(v.H))
	for f := range v.H {
		fs = append(fs, f)
	}
	sort.Strings(fs)
	return fs
}

func hHGetAll(db *DB, a [][]byte, tm Time) ([]alt, string) {
	if len(a) != 2 {
		return errAlt("arity"), ""
	}
	v, wrong, amb := db.getTyped(string(a[1]), "hash", tm)
	if amb {
		return nil, ambiguous
	}
	if wrong {
		return wrongTypeAlt(), ""
	}
	fs := hashFields(v)
	return []alt{{
		desc: "array of " + strconv.Itoa(len(fs)) + " field/value pairs (any order)",
		match: func(g respc.Value, lenient bool) bool {
			if g.Kind != '*' || g.Nil || len(g.Arr) != 2*len(fs) {
				return false
			}
			seen := map[string]bool{}
			for i := 0; i < len(g.Arr); i += 2 {
				f, ok1 := text(g.Arr[i], lenient)
				val, ok2 := text(g.Arr[i+1], lenient)
				if !ok1 || !ok2 {
					return false
				}
				w, ok := v.H[string(f)]
				if !ok || seen[string(f)] || string(w) != string(val) {
					return false
				}
				seen[string(f)] = true
			}
			return true
		},
		apply: noop,
	}}, ""
}

func hHKeys(db *DB, a [][]byte, tm Time) ([]alt, string) {
	if len(a) != 2 {
		return errAlt("arity"), ""
	}
	v, wrong, amb := db.getTyped(string(a[1]), "hash", tm)
	if amb {
		return nil, ambiguous
	}
	if wrong {
		return wrongTypeAlt(), ""
	}
	var want [][]byte
	for _, f := range hashFields(v) {
		want = append(want, []byte(f))
	}
	return one("array(set) of fields", mBulkSet(want), nil), ""
}

func hHVals(db *DB, a [][]byte, tm Time) ([]alt, string) {
	if len(a) != 2 {
		return errAlt("arity"), ""
	}
	v, wrong, amb := db.getTyped(string(a[1]), "hash", tm)
	if amb {
		return nil, ambiguous
	}
	if wrong {
		return wrongTypeAlt(), ""
	}
	var want [][]byte
	for _, f := range hashFields(v) {
		want = append(want, v.H[f])
	}
	return one("array(multiset) of values", mBulkSet(want), nil), ""
}

func hHLen(db *DB, a [][]byte, tm Time) ([]alt, string) {
	if len(a) != 2 {
		return errAlt("arity"), ""
	}
	v, wrong, amb := db.getTyped(string(a[1]), "hash", tm)
	if amb {
		return nil, ambiguous
	}
	if wrong {
		return wrongTypeAlt(), ""
	}
	n := int64(0)
	if v != nil {
		n = int64(len(v.H))
	}
	return one(":"+strconv.FormatInt(n, 10), mInt(n), nil), ""
}

func hHExists(db *DB, a [][]byte, tm Time) ([]alt, string) {
	if len(a) != 3 {
		return errAlt("arity"), ""
	}
	v, wrong, amb := db.getTyped(string(a[1]), "hash", tm)
	if amb {
		return nil, ambiguous
	}
	if wrong {
		return wrongTypeAlt(), ""
	}
	if v != nil {
		if _, ok := v.H[string(a[2])]; ok {
			return one(":1", mInt(1), nil), ""
		}
	}
	return one(":0", mInt(0), nil), ""
}

func hHStrLen(db *DB, a [][]byte, tm Time) ([]alt, string) {
	if len(a) != 3 {
		return errAlt("arity"), ""
	}
	v, wrong, amb := db.getTyped(string(a[1]), "hash", tm)
	if amb {
		return nil, ambiguous
	}
	if wrong {
		return wrongTypeAlt(), ""
	}
	n := int64(0)
	if v != nil {
		n = int64(len(v.H[string(a[2])]))
	}
	return one(":"+strconv.FormatInt(n, 10), mInt(n), nil), ""
}

func hHDel(db *DB, a [][]byte, tm Time) ([]alt, string) {
	if len(a) < 3 {
		return errAlt("arity"), ""
	}
	key := string(a[1])
	v, wrong, amb := db.getTyped(key, "hash", tm)
	if amb {
		return nil, ambiguous
	}
	if wrong {
		return wrongTypeAlt(), ""
	}
	if v == nil {
		return one(":0", mInt(0), nil), ""
	}
	n := int64(0)
	seen := map[string]bool{}
	for _, f := range a[2:] {
		if _, ok := v.H[string(f)]; ok && !seen[string(f)] {
			n++
			seen[string(f)] = true
		}
	}
	return one(":"+strconv.FormatInt(n, 10), mInt(n), func() {
		for _, f := range a[2:] {
			delete(v.H, string(f))
		}
		db.dropIfEmpty(key)
	}), ""
}

func hHIncrBy(db *DB, a [][]byte, tm Time) ([]alt, string) {
	if len(a) != 4 {
		return errAlt("arity"), ""
	}
	inc, canon, lenOK := parseIntStrict(a[3])
	if !lenOK {
		return errAlt("increment not an integer"), ""
	}
	if !canon {
		return nil, "non-canonical integer"
	}
	key, f := string(a[1]), string(a[2])
	v, wrong, amb := db.getTyped(key, "hash", tm)
	if amb {
		return nil, ambiguous
	}
	if wrong {
		return wrongTypeAlt(), ""
	}
	cur := int64(0)
	if v != nil {
		if val, ok := v.H[f]; ok {
			n, c, l := parseIntStrict(val)
			if !l {
				return errAlt("hash value is not an integer"), ""
			}
			if !c {
				return nil, "non-canonical integer value"
			}
			cur = n
		}
	}
	if (inc > 0 && cur > math.MaxInt64-inc) || (inc < 0 && cur < math.MinInt64-inc) {
		return errAlt("increment or decrement would overflow"), ""
	}
	res := cur + inc
	return one(":"+strconv.FormatInt(res, 10), mInt(res), func() {
		if v == nil {
			v = &Val{T: "hash", H: map[string][]byte{}}
			db.Keys[key] = v
		}
		v.H[f] = []byte(strconv.FormatInt(res, 10))
	}), ""
}

func hHIncrByFloat(db *DB, a [][]byte, tm Time) ([]alt, string) {
	if len(a) != 4 {
		return errAlt("arity"), ""
	}
	inc, cls := parseFloatClass(a[3])
	switch cls {
	case fBad, fNaN, fInf:
		return errAlt("increment is not a valid float"), ""
	case fUnspec:
		return nil, "float syntax accepted by some parsers only"
	}
	key, f := string(a[1]), string(a[2])
	v, wrong, amb := db.getTyped(key, "hash", tm)
	if amb {
		return nil, ambiguous
	}
	if wrong {
		return wrongTypeAlt(), ""
	}
	cur := 0.0
	if v != nil {
		if val, ok := v.H[f]; ok {
			x, c := parseFloatClass(val)
			switch c {
			case fBad, fNaN, fInf:
				return errAlt("hash value is not a float"), ""
			case fUnspec:
				return nil, "float syntax accepted by some parsers only"
			}
			cur = x
		}
	}
	res := cur + inc
	if math.IsInf(res, 0) || math.IsNaN(res) {
		return errAlt("increment would produce NaN or Infinity"), ""
	}
	return []alt{{
		desc:  "bulk float " + strconv.FormatFloat(res, 'f', -1, 64),
		match: func(g respc.Value, lenient bool) bool { return floatText(g, res, lenient, true) },
		apply: func(g respc.Value) {
			s := []byte(strconv.FormatFloat(res, 'f', -1, 64))
			if t, ok := text(g, true); ok && floatText(g, res, true, true) {
				s = cp(t)
			}
			if v == nil {
				v = &Val{T: "hash", H: map[string][]byte{}}
				db.Keys[key] = v
			}
			v.H[f] = s
		},
	}}, ""
}

func hHRandField(db *DB, a [][]byte, tm Time) ([]alt, string) {
	if len(a) < 2 || len(a) > 4 {
		return errAlt("arity"), ""
	}
	hasCount := len(a) >= 3
	count := int64(1)
	withValues := false
	if hasCount {
		n, canon, lenOK := parseIntStrict(a[2])
		if !lenOK {
			return errAlt("count not an integer"), ""
		}
		if !canon {
			return nil, "non-canonical integer"
		}
		count = n
		if n < -100000 || n > 1<<40 {
			return nil, "huge count"
		}
	}
	if len(a) == 4 {
		if upper(a[3]) != "WITHVALUES" {
			return errAlt("syntax"), ""
		}
		withValues = true
	}
	v, wrong, amb := db.getTyped(string(a[1]), "hash", tm)
	if amb {
		return nil, ambiguous
	}
	if wrong {
		return wrongTypeAlt(), ""
	}
	if !hasCount {
		if v == nil {
			return one("nil", mNilBulk(), nil), ""
		}
		return []alt{{
			desc: "bulk: one existing field",
			match: func(g respc.Value, lenient bool) bool {
				t, ok := text(g, lenient)
				if !ok {
					return false
				}
				_, ex := v.H[string(t)]
				return ex
			},
			apply: noop,
		}}, ""
	}
	if v == nil {
		return one("empty array", mEmptyArr(), nil), ""
	}
	size := int64(len(v.H))
	wantN := count
	distinct := true
	if count < 0 {
		wantN = -count
		distinct = false
	} else if count > size {
		wantN = size
	}
	per := int64(1)
	if withValues {
		per = 2
	}
	return []alt{{
		desc: "array of " + strconv.FormatInt(wantN, 10) + " existing fields" + map[bool]string{true: " with values", false: ""}[withValues],
		match: func(g respc.Value, lenient bool) bool {
			if g.Kind != '*' || g.Nil || int64(len(g.Arr)) != wantN*per {
				return false
			}
			seen := map[string]bool{}
			for i := 0; i < len(g.Arr); i += int(per) {
				f, ok := text(g.Arr[i], lenient)
				if !ok {
					return false
				}
				val, ex := v.H[string(f)]
				if !ex {
					return false
				}
				if distinct && seen[string(f)] {
					return false
				}
				seen[string(f)] = true
				if withValues {
					gv, ok := text(g.Arr[i+1], lenient)
					if !ok || string(gv) != string(val) {
						return false
					}
				}
			}
			return true
		},
		apply: noop,
	}}, ""
}
