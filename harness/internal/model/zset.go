package model

import (
	"math"
	"strconv"

	"rgverif/internal/respc"
)

func init() {
	handlers["ZADD"] = hZAdd
	handlers["ZREM"] = hZRem
	handlers["ZRANGE"] = hZRange
	handlers["ZRANK"] = hZRank
}

func hZAdd(db *DB, a [][]byte, tm Time) ([]alt, string) {
	if len(a) < 4 {
		return errAlt("arity"), ""
	}
	key := string(a[1])
	var nx, xx, gt, lt, ch, incr bool
	i := 2
	for ; i < len(a); i++ {
		switch upper(a[i]) {
		case "NX":
			nx = true
		case "XX":
			xx = true
		case "GT":
			gt = true
		case "LT":
			lt = true
		case "CH":
			ch = true
		case "INCR":
			incr = true
		default:
			goto done
		}
	}
done:
	rest := a[i:]
	if len(rest) == 0 || len(rest)%2 != 0 {
		return errAlt("syntax"), ""
	}
	if (nx && xx) || (gt && lt) || (nx && (gt || lt)) {
		return errAlt("incompatible options"), ""
	}
	if incr && len(rest) != 2 {
		return errAlt("INCR supports a single pair"), ""
	}
	scores := make([]float64, 0, len(rest)/2)
	for j := 0; j < len(rest); j += 2 {
		f, cls := parseFloatClass(rest[j])
		switch cls {
		case fBad, fNaN:
			return errAlt("score is not a valid float"), ""
		case fUnspec:
			return nil, "float syntax accepted by some parsers only"
		}
		scores = append(scores, f)
	}
	v, wrong, amb := db.getTyped(key, "zset", tm)
	if amb {
		return nil, ambiguous
	}
	if wrong {
		return wrongTypeAlt(), ""
	}
	// simulate on a copy
	cur := map[string]float64{}
	if v != nil {
		for m, s := range v.Z {
			cur[m] = s
		}
	}
	added, updated := int64(0), int64(0)
	var incrRes *float64
	for j := 0; j < len(rest); j += 2 {
		m := string(rest[j+1])
		s := scores[j/2]
		old, exists := cur[m]
		if exists {
			if nx {
				continue
			}
			ns := s
			if incr {
				ns = old + s
				if math.IsNaN(ns) {
					return errAlt("resulting score is not a number"), ""
				}
			}
			if (gt && !(ns > old)) || (lt && !(ns < old)) {
				continue
			}
			if ns != old {
				cur[m] = ns
				updated++
			}
			r := ns
			incrRes = &r
		} else {
			if xx {
				continue
			}
			cur[m] = s
			added++
			r := s
			incrRes = &r
		}
	}
	apply := func() {
		if len(cur) == 0 {
			return // XX on a missing key creates nothing
		}
		if v == nil {
			v = &Val{T: "zset"}
			db.Keys[key] = v
		}
		v.Z = cur
	}
	if incr {
		if incrRes == nil {
			return one("nil (operation suppressed by options)", mNil(), apply), ""
		}
		r := *incrRes
		return []alt{{
			desc:  "bulk score " + strconv.FormatFloat(r, 'g', -1, 64),
			match: func(g respc.Value, lenient bool) bool { return floatText(g, r, lenient, false) },
			apply: func(respc.Value) { apply() },
		}}, ""
	}
	n := added
	if ch {
		n += updated
	}
	return one(":"+strconv.FormatInt(n, 10), mInt(n), apply), ""
}

func hZRem(db *DB, a [][]byte, tm Time) ([]alt, string) {
	if len(a) < 3 {
		return errAlt("arity"), ""
	}
	key := string(a[1])
	v, wrong, amb := db.getTyped(key, "zset", tm)
	if amb {
		return nil, ambiguous
	}
	if wrong {
		return wrongTypeAlt(), ""
	}
	if v == nil {
		return one(":0", mInt(0), nil), ""
	}
	n := int64(0)
	seen := map[string]bool{}
	for _, m := range a[2:] {
		if _, ok := v.Z[string(m)]; ok && !seen[string(m)] {
			n++
		}
		seen[string(m)] = true
	}
	return one(":"+strconv.FormatInt(n, 10), mInt(n), func() {
		for _, m := range a[2:] {
			delete(v.Z, string(m))
		}
		db.dropIfEmpty(key)
	}), ""
}

func hZRange(db *DB, a [][]byte, tm Time) ([]alt, string) {
	if len(a) < 4 {
		return errAlt("arity"), ""
	}
	rev, withScores := false, false
	for _, o := range a[4:] {
		switch upper(o) {
		case "REV":
			rev = true
		case "WITHSCORES":
			withScores = true
		case "BYSCORE", "BYLEX", "LIMIT":
			return nil, "ZRANGE BYSCORE/BYLEX/LIMIT"
		default:
			return errAlt("syntax"), ""
		}
	}
	start, c1, l1 := parseIntStrict(a[2])
	stop, c2, l2 := parseIntStrict(a[3])
	if !l1 || !l2 {
		return errAlt("index not an integer"), ""
	}
	if !c1 || !c2 {
		return nil, "non-canonical integer"
	}
	v, wrong, amb := db.getTyped(string(a[1]), "zset", tm)
	if amb {
		return nil, ambiguous
	}
	if wrong {
		return wrongTypeAlt(), ""
	}
	if v == nil {
		return one("empty array", mEmptyArr(), nil), ""
	}
	ms := v.zsorted()
	if rev {
		for i, j := 0, len(ms)-1; i < j; i, j = i+1, j-1 {
			ms[i], ms[j] = ms[j], ms[i]
		}
	}
	s, e, ok := normRange(start, stop, int64(len(ms)))
	if !ok {
		return one("empty array", mEmptyArr(), nil), ""
	}
	sel := ms[s : e+1]
	desc := "array of " + strconv.Itoa(len(sel)) + " members by rank"
	return []alt{{
		desc: desc,
		match: func(g respc.Value, lenient bool) bool {
			per := 1
			if withScores {
				per = 2
			}
			if g.Kind != '*' || g.Nil || len(g.Arr) != len(sel)*per {
				return false
			}
			for i, m := range sel {
				t, ok := text(g.Arr[i*per], lenient)
				if !ok || string(t) != m.Member {
					return false
				}
				if withScores && !floatText(g.Arr[i*per+1], m.Score, lenient, false) {
					return false
				}
			}
			return true
		},
		apply: noop,
	}}, ""
}

func hZRank(db *DB, a [][]byte, tm Time) ([]alt, string) {
	if len(a) != 3 {
		if len(a) == 4 && upper(a[3]) == "WITHSCORE" {
			return nil, "ZRANK WITHSCORE"
		}
		return errAlt("arity"), ""
	}
	v, wrong, amb := db.getTyped(string(a[1]), "zset", tm)
	if amb {
		return nil, ambiguous
	}
	if wrong {
		return wrongTypeAlt(), ""
	}
	if v == nil {
		return one("nil", mNil(), nil), ""
	}
	if _, ok := v.Z[string(a[2])]; !ok {
		return one("nil", mNil(), nil), ""
	}
	for i, m := range v.zsorted() {
		if m.Member == string(a[2]) {
			return one(":"+strconv.Itoa(i), mInt(int64(i)), nil), ""
		}
	}
	return one("nil", mNil(), nil), ""
}
