package model

import (
	"sort"
	"strconv"

	"rgverif/internal/respc"
)

func init() {
	handlers["SADD"] = hSAdd
	handlers["SREM"] = hSRem
	handlers["SISMEMBER"] = hSIsMember
	handlers["SCARD"] = hSCard
	handlers["SMEMBERS"] = hSMembers
	handlers["SMOVE"] = hSMove
	handlers["SPOP"] = hSPop
	handlers["SRANDMEMBER"] = hSRandMember
	handlers["SUNION"] = func(db *DB, a [][]byte, tm Time) ([]alt, string) { return algebra(db, a, tm, "union", false) }
	handlers["SINTER"] = func(db *DB, a [][]byte, tm Time) ([]alt, string) { return algebra(db, a, tm, "inter", false) }
	handlers["SDIFF"] = func(db *DB, a [][]byte, tm Time) ([]alt, string) { return algebra(db, a, tm, "diff", false) }
	handlers["SUNIONSTORE"] = func(db *DB, a [][]byte, tm Time) ([]alt, string) { return algebra(db, a, tm, "union", true) }
	handlers["SINTERSTORE"] = func(db *DB, a [][]byte, tm Time) ([]alt, string) { return algebra(db, a, tm, "inter", true) }
	handlers["SDIFFSTORE"] = func(db *DB, a [][]byte, tm Time) ([]alt, string) { return algebra(db, a, tm, "diff", true) }
}

func setMembers(v *Val) [][]byte {
	if v == nil {
		return nil
	}
	ks := make([]string, 0, len(v.Set))
	for k := range v.Set {
		ks = append(ks, k)
	}
	sort.Strings(ks)
	out := make([][]byte, len(ks))
	for i, k := range ks {
		out[i] = []byte(k)
	}
	return out
}

func hSAdd(db *DB, a [][]byte, tm Time) ([]alt, string) {
	if len(a) < 3 {
		return errAlt("arity"), ""
	}
	key := string(a[1])
	v, wrong, amb := db.getTyped(key, "set", tm)
	if amb {
		return nil, ambiguous
	}
	if wrong {
		return wrongTypeAlt(), ""
	}
	n := int64(0)
	seen := map[string]bool{}
	for _, m := range a[2:] {
		s := string(m)
		if seen[s] {
			continue
		}
		seen[s] = true
		if v == nil || !v.Set[s] {
			n++
		}
	}
	return one(":"+strconv.FormatInt(n, 10), mInt(n), func() {
		if v == nil {
			v = &Val{T: "set", Set: map[string]bool{}}
			db.Keys[key] = v
		}
		for _, m := range a[2:] {
			v.Set[string(m)] = true
		}
	}), ""
}

func hSRem(db *DB, a [][]byte, tm Time) ([]alt, string) {
	if len(a) < 3 {
		return errAlt("arity"), ""
	}
	key := string(a[1])
	v, wrong, amb := db.getTyped(key, "set", tm)
	if amb {
		return nil, ambiguous
	}
	if wrong {
		return wrongTypeAlt(), ""
	}
	if v == nil {
		return one(":0", mInt(0), nil), ""
	}
	n := int64(0)
	seen := map[string]bool{}
	for _, m := range a[2:] {
		s := string(m)
		if !seen[s] && v.Set[s] {
			n++
		}
		seen[s] = true
	}
	return one(":"+strconv.FormatInt(n, 10), mInt(n), func() {
		for _, m := range a[2:] {
			delete(v.Set, string(m))
		}
		db.dropIfEmpty(key)
	}), ""
}

func hSIsMember(db *DB, a [][]byte, tm Time) ([]alt, string) {
	if len(a) != 3 {
		return errAlt("arity"), ""
	}
	v, wrong, amb := db.getTyped(string(a[1]), "set", tm)
	if amb {
		return nil, ambiguous
	}
	if wrong {
		return wrongTypeAlt(), ""
	}
	if v != nil && v.Set[string(a[2])] {
		return one(":1", mInt(1), nil), ""
	}
	return one(":0", mInt(0), nil), ""
}

func hSCard(db *DB, a [][]byte, tm Time) ([]alt, string) {
	if len(a) != 2 {
		return errAlt("arity"), ""
	}
	v, wrong, amb := db.getTyped(string(a[1]), "set", tm)
	if amb {
		return nil, ambiguous
	}
	if wrong {
		return wrongTypeAlt(), ""
	}
	n := int64(0)
	if v != nil {
		n = int64(len(v.Set))
	}
	return one(":"+strconv.FormatInt(n, 10), mInt(n), nil), ""
}

func hSMembers(db *DB, a [][]byte, tm Time) ([]alt, string) {
	if len(a) != 2 {
		return errAlt("arity"), ""
	}
	v, wrong, amb := db.getTyped(string(a[1]), "set", tm)
	if amb {
		return nil, ambiguous
	}
	if wrong {
		return wrongTypeAlt(), ""
	}
	return one("array(set) of members", mBulkSet(setMembers(v)), nil), ""
}

func hSMove(db *DB, a [][]byte, tm Time) ([]alt, string) {
	if len(a) != 4 {
		return errAlt("arity"), ""
	}
	src, dst, m := string(a[1]), string(a[2]), string(a[3])
	sv, swrong, amb := db.getTyped(src, "set", tm)
	if amb {
		return nil, ambiguous
	}
	dv, dwrong, amb2 := db.getTyped(dst, "set", tm)
	if amb2 {
		return nil, ambiguous
	}
	if swrong {
		return wrongTypeAlt(), ""
	}
	if sv == nil {
		alts := one(":0 (missing source)", mInt(0), nil)
		if dwrong {
			alts = append(alts, wrongTypeAlt()...)
		}
		return alts, ""
	}
	if dwrong {
		return wrongTypeAlt(), ""
	}
	if src == dst {
		if sv.Set[m] {
			return one(":1 (same key, unchanged)", mInt(1), nil), ""
		}
		return one(":0", mInt(0), nil), ""
	}
	if !sv.Set[m] {
		return one(":0 (not a member)", mInt(0), nil), ""
	}
	return one(":1", mInt(1), func() {
		delete(sv.Set, m)
		if dv == nil {
			dv = &Val{T: "set", Set: map[string]bool{}}
			db.Keys[dst] = dv
		}
		dv.Set[m] = true
		db.dropIfEmpty(src)
	}), ""
}

func hSPop(db *DB, a [][]byte, tm Time) ([]alt, string) {
	if len(a) != 2 && len(a) != 3 {
		return errAlt("arity"), ""
	}
	hasCount := len(a) == 3
	count := int64(1)
	if hasCount {
		n, canon, lenOK := parseIntStrict(a[2])
		if !lenOK {
			return errAlt("count not an integer"), ""
		}
		if !canon {
			return nil, "non-canonical integer"
		}
		if n < 0 {
			return errAlt("count out of range"), ""
		}
		count = n
	}
	key := string(a[1])
	v, wrong, amb := db.getTyped(key, "set", tm)
	if amb {
		return nil, ambiguous
	}
	if wrong {
		return wrongTypeAlt(), ""
	}
	if !hasCount {
		if v == nil {
			return one("nil", mNilBulk(), nil), ""
		}
		return []alt{{
			desc: "bulk: one current member (removed)",
			match: func(g respc.Value, lenient bool) bool {
				t, ok := text(g, lenient)
				return ok && v.Set[string(t)]
			},
			apply: func(g respc.Value) {
				t, ok := text(g, true)
				if ok && v.Set[string(t)] {
					delete(v.Set, string(t))
				} else {
					for _, m := range sortedKeys(v.Set) {
						delete(v.Set, m)
						break
					}
				}
				db.dropIfEmpty(key)
			},
		}}, ""
	}
	if v == nil || count == 0 {
		return one("empty array", mEmptyArr(), nil), ""
	}
	wantN := count
	if wantN > int64(len(v.Set)) {
		wantN = int64(len(v.Set))
	}
	return []alt{{
		desc: "array of " + strconv.FormatInt(wantN, 10) + " distinct current members (removed)",
		match: func(g respc.Value, lenient bool) bool {
			if g.Kind != '*' || g.Nil || int64(len(g.Arr)) != wantN {
				return false
			}
			seen := map[string]bool{}
			for _, e := range g.Arr {
				t, ok := text(e, lenient)
				if !ok || !v.Set[string(t)] || seen[string(t)] {
					return false
				}
				seen[string(t)] = true
			}
			return true
		},
		apply: func(g respc.Value) {
			removed := int64(0)
			if g.Kind == '*' {
				for _, e := range g.Arr {
					if t, ok := text(e, true); ok && v.Set[string(t)] {
						delete(v.Set, string(t))
						removed++
					}
				}
			}
			for _, m := range sortedKeys(v.Set) {
				if removed >= wantN {
					break
				}
				delete(v.Set, m)
				removed++
			}
			db.dropIfEmpty(key)
		},
	}}, ""
}

func hSRandMember(db *DB, a [][]byte, tm Time) ([]alt, string) {
	if len(a) != 2 && len(a) != 3 {
		return errAlt("arity"), ""
	}
	hasCount := len(a) == 3
	count := int64(1)
	if hasCount {
		n, canon, lenOK := parseIntStrict(a[2])
		if !lenOK {
			return errAlt("count not an integer"), ""
		}
		if !canon {
			return nil, "non-canonical integer"
		}
		if n < -100000 || n > 1<<40 {
			return nil, "huge count"
		}
		count = n
	}
	v, wrong, amb := db.getTyped(string(a[1]), "set", tm)
	if amb {
		return nil, ambiguous
	}
	if wrong {
		return wrongTypeAlt(), ""
	}
	if !hasCount {
		if v == nil {
			return one("nil", mNilBulk(), nil), ""
		}
		return []alt{{
			desc: "bulk: one current member",
			match: func(g respc.Value, lenient bool) bool {
				t, ok := text(g, lenient)
				return ok && v.Set[string(t)]
			},
			apply: noop,
		}}, ""
	}
	if v == nil || count == 0 {
		return one("empty array", mEmptyArr(), nil), ""
	}
	wantN := count
	distinct := true
	if count < 0 {
		wantN = -count
		distinct = false
	} else if wantN > int64(len(v.Set)) {
		wantN = int64(len(v.Set))
	}
	return []alt{{
		desc: "array of " + strconv.FormatInt(wantN, 10) + " current members",
		match: func(g respc.Value, lenient bool) bool {
			if g.Kind != '*' || g.Nil || int64(len(g.Arr)) != wantN {
				return false
			}
			seen := map[string]bool{}
			for _, e := range g.Arr {
				t, ok := text(e, lenient)
				if !ok || !v.Set[string(t)] || (distinct && seen[string(t)]) {
					return false
				}
				seen[string(t)] = true
			}
			return true
		},
		apply: noop,
	}}, ""
}

func algebra(db *DB, a [][]byte, tm Time, op string, store bool) ([]alt, string) {
	first := 1
	if store {
		first = 2
	}
	if len(a) < first+1 {
		return errAlt("arity"), ""
	}
	var dst string
	if store {
		dst = string(a[1])
		if _, amb := db.live(dst, tm); amb {
			return nil, ambiguous
		}
	}
	anyWrong, anyMissing := false, false
	var ops []*Val
	for _, kb := range a[first:] {
		v, wrong, amb := db.getTyped(string(kb), "set", tm)
		if amb {
			return nil, ambiguous
		}
		if wrong {
			anyWrong = true
		}
		if v == nil && !wrong {
			anyMissing = true
		}
		ops = append(ops, v)
	}
	if anyWrong {
		if op == "inter" && anyMissing {
			return nil, "SINTER mixing a missing and a wrong-typed operand"
		}
		return wrongTypeAlt(), ""
	}
	res := map[string]bool{}
	switch op {
	case "union":
		for _, v := range ops {
			if v != nil {
				for m := range v.Set {
					res[m] = true
				}
			}
		}
	case "inter":
		if ops[0] != nil {
			for m := range ops[0].Set {
				in := true
				for _, v := range ops[1:] {
					if v == nil || !v.Set[m] {
						in = false
						break
					}
				}
				if in {
					res[m] = true
				}
			}
		}
	case "diff":
		if ops[0] != nil {
			for m := range ops[0].Set {
				in := false
				for _, v := range ops[1:] {
					if v != nil && v.Set[m] {
						in = true
						break
					}
				}
				if !in {
					res[m] = true
				}
			}
		}
	}
	var want [][]byte
	for _, m := range sortedKeys(res) {
		want = append(want, []byte(m))
	}
	if !store {
		return one("array(set) of "+strconv.Itoa(len(want))+" members", mBulkSet(want), nil), ""
	}
	n := int64(len(res))
	alts := one(":"+strconv.FormatInt(n, 10)+" and destination replaced", mInt(n), func() {
		if n == 0 {
			delete(db.Keys, dst)
		} else {
			db.Keys[dst] = &Val{T: "set", Set: res}
		}
	})
	if dv := db.Keys[dst]; dv != nil && dv.T != "set" {
		alts = append(alts, wrongTypeAlt()...)
	}
	return alts, ""
}

var _ = respc.Int
