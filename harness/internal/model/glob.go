package model

// Reference glob matcher written from the documented grammar of KEYS:
//   ?      one byte
//   *      any run of bytes (including none)
//   [...]  byte set, a-b ranges, leading ^ negates
//   \x     the byte x literally (also inside a class)
// A pattern with an unclosed '[' or a trailing unescaped '\' is broken and
// matches nothing. Constructs the grammar does not define make the verdict
// Unspecified: '-' first or last in a class, ']' as first class character
// (empty class), reversed ranges, '^' elsewhere than first, range endpoints
// written with an escape.

// GlobVerdict is the three-valued result of the reference matcher.
type GlobVerdict int

const (
	GlobNo GlobVerdict = iota
	GlobYes
	GlobUnspecified
)

type globTok struct {
	kind byte // 'l' literal, '?' any, '*' star, 'c' class
	lit  byte
	set  *[256]bool
}

// GlobParse tokenises p. broken: matches nothing. unspec: hinges on
// undefined grammar.
func GlobParse(p string) (toks []globTok, broken, unspec bool) { return globParse(p, 0) }

// globParse: rev says how a reversed range [y-x] (y > x) is read. 0: as [x-y], and the pattern is flagged as hinging
// on undefined grammar. 1 and 2 do not flag it and produce the smallest and the largest byte set any reading can give
// the class: nothing at all for the range, or the bytes from x to y plus '-'.
func globParse(p string, rev int) (toks []globTok, broken, unspec bool) {
	i := 0
	for i < len(p) {
		c := p[i]
		switch c {
		case '*':
			if len(toks) == 0 || toks[len(toks)-1].kind != '*' {
				toks = append(toks, globTok{kind: '*'})
			}
			i++
		case '?':
			toks = append(toks, globTok{kind: '?'})
			i++
		case '\\':
			if i+1 >= len(p) {
				return nil, true, unspec
			}
			toks = append(toks, globTok{kind: 'l', lit: p[i+1]})
			i += 2
		case '[':
			i++
			var set [256]bool
			neg := false
			if i < len(p) && p[i] == '^' {
				neg = true
				i++
			}
			first := true
			closed := false
			for i < len(p) {
				ch := p[i]
				if ch == ']' {
					if first {
						unspec = true
					}
					closed = true
					i++
					break
				}
				if ch == '\\' {
					if i+1 >= len(p) {
						return nil, true, unspec
					}
					// escaped byte; if it is a range endpoint -> unspecified
					if i+2 < len(p) && p[i+2] == '-' && i+3 < len(p) && p[i+3] != ']' {
						unspec = true
					}
					set[p[i+1]] = true
					i += 2
					first = false
					continue
				}
				if ch == '-' {
					// '-' first or last in the class, or after a complete range
					unspec = true
					set['-'] = true
					i++
					first = false
					continue
				}
				if ch == '^' {
					unspec = true
				}
				// plain byte, maybe start of a range
				if i+2 < len(p) && p[i+1] == '-' && p[i+2] != ']' {
					hi := p[i+2]
					if hi == '\\' {
						unspec = true
						set[ch] = true
						i++
						first = false
						continue
					}
					if hi < ch && rev == 0 {
						unspec = true
					}
					lo, h2 := ch, hi
					if h2 < lo {
						lo, h2 = h2, lo
					}
					// a negated class is the complement: its smallest reading comes from the largest inner set
					widest := hi >= ch || rev == 0 || (rev == 2) != neg
					if widest {
						for b := int(lo); b <= int(h2); b++ {
							set[b] = true
						}
						if hi < ch && rev != 0 {
							set['-'] = true
						}
					}
					i += 3
					first = false
					continue
				}
				set[ch] = true
				i++
				first = false
			}
			if !closed {
				return nil, true, unspec
			}
			if neg {
				for b := 0; b < 256; b++ {
					set[b] = !set[b]
				}
			}
			s := set
			toks = append(toks, globTok{kind: 'c', set: &s})
		default:
			toks = append(toks, globTok{kind: 'l', lit: c})
			i++
		}
	}
	return toks, false, unspec
}

func globMatchToks(toks []globTok, s string) bool {
	// iterative matcher with single-star backtracking (classic algorithm)
	ti, si := 0, 0
	starTi, starSi := -1, 0
	for si < len(s) {
		if ti < len(toks) {
			t := toks[ti]
			switch t.kind {
			case '*':
				starTi, starSi = ti, si
				ti++
				continue
			case '?':
				ti++
				si++
				continue
			case 'l':
				if t.lit == s[si] {
					ti++
					si++
					continue
				}
			case 'c':
				if t.set[s[si]] {
					ti++
					si++
					continue
				}
			}
		}
		if starTi >= 0 {
			starSi++
			si = starSi
			ti = starTi + 1
			continue
		}
		return false
	}
	for ti < len(toks) && toks[ti].kind == '*' {
		ti++
	}
	return ti == len(toks)
}

// Glob decides whether key matches pattern under the documented grammar.
func Glob(pattern, key string) GlobVerdict {
	toks, broken, unspec := GlobParse(pattern)
	if unspec {
		// how the rest of the pattern parses (even whether it is broken) hinges on an undefined construct. One
		// construct leaves the parse alone whatever it means - a range written with the larger bound first: no reading
		// lets it match a byte outside the two bounds (and '-'). If nothing else is undefined, the verdicts under the
		// narrowest and the widest reading bracket every possible one.
		tmin, bmin, umin := globParse(pattern, 1)
		tmax, bmax, umax := globParse(pattern, 2)
		if !umin && !umax && !bmin && !bmax {
			if !globMatchToks(tmax, key) {
				return GlobNo
			}
			if globMatchToks(tmin, key) {
				return GlobYes
			}
		}
		return GlobUnspecified
	}
	if broken {
		return GlobNo
	}
	if globMatchToks(toks, key) {
		return GlobYes
	}
	return GlobNo
}
