// Package model is an executable reference model of the Redis command subset
// RedisGO registers, written from the Redis command reference (not from
// RedisGO's code). For every command it yields the set of acceptable
// (reply, state transition) alternatives; open corners of the reference are
// either listed as several alternatives or marked Unspecified.
package model

import (
	"bytes"
	"fmt"
	"math"
	"sort"
	"strconv"
	"strings"

	"rgverif/internal/respc"
)

// XID is a stream entry id.
type XID struct{ Ms, Seq uint64 }

func (a XID) Less(b XID) bool   { return a.Ms < b.Ms || (a.Ms == b.Ms && a.Seq < b.Seq) }
func (a XID) String() string    { return fmt.Sprintf("%d-%d", a.Ms, a.Seq) }
func (a XID) LessEq(b XID) bool { return !b.Less(a) }

// XEntry is one stream entry.
type XEntry struct {
	ID     XID
	Fields [][]byte
}

// Val is one stored value.
type Val struct {
	T       string // string list set hash zset stream
	S       []byte
	L       [][]byte
	Set     map[string]bool
	H       map[string][]byte
	Z       map[string]float64
	X       []XEntry
	XLast   XID
	XHas    bool  // XLast valid (an entry was ever added)
	Dmin    int64 // deadline interval in unix seconds; 0,0 = no deadline
	Dmax    int64
	HasDead bool
}

// DB is one keyspace.
type DB struct {
	Keys map[string]*Val
}

// NewDB returns an empty keyspace.
func NewDB() *DB { return &DB{Keys: map[string]*Val{}} }

// Time is the wall-clock bracket of one call.
type Time struct {
	T0, T1   int64 // unix seconds before the call / after the reply
	Ms0, Ms1 int64 // unix milliseconds (streams)
}

// Outcome is the model's judgement of one implementation reply.
type Outcome struct {
	OK          bool   // acceptable when text payloads are compared after decoding ('+' == '$')
	StrictOK    bool   // acceptable under strict framing (payloads bulk, statuses simple)
	Want        string // description of the acceptable replies
	Unspecified bool   // open corner / time ambiguity: state must be re-synchronised by the caller
	Note        string
}

// alt is one acceptable (reply, transition) alternative.
type alt struct {
	desc  string
	match func(got respc.Value, lenient bool) bool
	apply func(got respc.Value)
}

// ---- reply matchers -------------------------------------------------------

func textEq(got respc.Value, want []byte, wantKind byte, lenient bool) bool {
	if got.Nil {
		return false
	}
	if got.Kind == wantKind || (lenient && (got.Kind == '+' || got.Kind == '$')) {
		return bytes.Equal(got.Str, want)
	}
	return false
}

func mStatus(s string) func(respc.Value, bool) bool {
	return func(g respc.Value, len bool) bool { return textEq(g, []byte(s), '+', len) }
}
func mBulk(b []byte) func(respc.Value, bool) bool {
	return func(g respc.Value, len bool) bool { return textEq(g, b, '$', len) }
}
func mInt(n int64) func(respc.Value, bool) bool {
	return func(g respc.Value, _ bool) bool { return g.Kind == ':' && g.Int == n }
}
func mNil() func(respc.Value, bool) bool {
	return func(g respc.Value, _ bool) bool { return g.Nil }
}
func mNilBulk() func(respc.Value, bool) bool {
	return func(g respc.Value, _ bool) bool { return g.Nil && g.Kind == '$' }
}
func mErr() func(respc.Value, bool) bool {
	return func(g respc.Value, _ bool) bool { return g.Kind == '-' }
}
func mWrongType() func(respc.Value, bool) bool {
	return func(g respc.Value, _ bool) bool { return g.IsWrongType() }
}
func mEmptyArr() func(respc.Value, bool) bool {
	return func(g respc.Value, _ bool) bool { return g.Kind == '*' && !g.Nil && len(g.Arr) == 0 }
}

// mBulkArr matches an array of bulks (nil element where want[i]==nil) in order.
func mBulkArr(want [][]byte) func(respc.Value, bool) bool {
	return func(g respc.Value, len_ bool) bool {
		if g.Kind != '*' || g.Nil || len(g.Arr) != len(want) {
			return false
		}
		for i, w := range want {
			if w == nil {
				if !g.Arr[i].Nil {
					return false
				}
				continue
			}
			if !textEq(g.Arr[i], w, '$', len_) {
				return false
			}
		}
		return true
	}
}

// mBulkSet matches an array of bulks as a multiset.
func mBulkSet(want [][]byte) func(respc.Value, bool) bool {
	return func(g respc.Value, lenient bool) bool {
		if g.Kind != '*' || g.Nil || len(g.Arr) != len(want) {
			return false
		}
		cnt := map[string]int{}
		for _, w := range want {
			cnt[string(w)]++
		}
		for _, e := range g.Arr {
			if e.Nil || !(e.Kind == '$' || (lenient && e.Kind == '+')) {
				return false
			}
			cnt[string(e.Str)]--
			if cnt[string(e.Str)] < 0 {
				return false
			}
		}
		return true
	}
}

func mIntArr(want []int64) func(respc.Value, bool) bool {
	return func(g respc.Value, _ bool) bool {
		if g.Kind != '*' || g.Nil || len(g.Arr) != len(want) {
			return false
		}
		for i, w := range want {
			if g.Arr[i].Kind != ':' || g.Arr[i].Int != w {
				return false
			}
		}
		return true
	}
}

func text(g respc.Value, lenient bool) ([]byte, bool) {
	if g.Nil {
		return nil, false
	}
	if g.Kind == '$' || (lenient && g.Kind == '+') {
		return g.Str, true
	}
	return nil, false
}

func noop(respc.Value) {}

func showBytes(b []byte) string {
	if len(b) > 40 {
		return fmt.Sprintf("%q...(%d)", b[:30], len(b))
	}
	return strconv.Quote(string(b))
}

// ---- helpers on state -----------------------------------------------------

func cp(b []byte) []byte { return append([]byte{}, b...) }

// live returns the value of key if it certainly exists at tm, nil if it
// certainly does not; amb is set when the deadline falls inside the bracket.
func (db *DB) live(key string, tm Time) (v *Val, amb bool) {
	v = db.Keys[key]
	if v == nil {
		return nil, false
	}
	if !v.HasDead {
		return v, false
	}
	if tm.T1 < v.Dmin {
		return v, false
	}
	if tm.T0 >= v.Dmax {
		delete(db.Keys, key)
		return nil, false
	}
	return v, true
}

func (v *Val) clearDeadline() { v.HasDead, v.Dmin, v.Dmax = false, 0, 0 }

func (v *Val) empty() bool {
	switch v.T {
	case "list":
		return len(v.L) == 0
	case "set":
		return len(v.Set) == 0
	case "hash":
		return len(v.H) == 0
	case "zset":
		return len(v.Z) == 0
	}
	return false
}

func upper(b []byte) string { return strings.ToUpper(string(b)) }

// canonical signed 64-bit integer as Redis' string2ll accepts it.
func parseIntStrict(b []byte) (n int64, canonical bool, lenientOK bool) {
	s := string(b)
	v, err := strconv.ParseInt(s, 10, 64)
	if err != nil {
		// forms some servers accept: surrounding spaces
		if t := strings.TrimSpace(s); t != s {
			if _, err2 := strconv.ParseInt(t, 10, 64); err2 == nil {
				return 0, false, true
			}
		}
		return 0, false, false
	}
	if strconv.FormatInt(v, 10) == s {
		return v, true, true
	}
	return v, false, true // "+1", "01", "-0"
}

type floatClass int

const (
	fBad    floatClass = iota // every server rejects
	fNum                      // plain decimal float
	fInf                      // +-inf
	fNaN                      // nan: must be rejected
	fUnspec                   // accepted by some parsers only
)

func parseFloatClass(b []byte) (float64, floatClass) {
	s := string(b)
	if s == "" {
		return 0, fBad
	}
	ls := strings.ToLower(s)
	body := ls
	neg := false
	if body[0] == '+' || body[0] == '-' {
		neg = body[0] == '-'
		body = body[1:]
	}
	switch body {
	case "inf", "infinity":
		if neg {
			return math.Inf(-1), fInf
		}
		return math.Inf(1), fInf
	case "nan":
		return math.NaN(), fNaN
	}
	// plain decimal grammar
	i := 0
	digits := 0
	for i < len(body) && body[i] >= '0' && body[i] <= '9' {
		i++
		digits++
	}
	if i < len(body) && body[i] == '.' {
		i++
		for i < len(body) && body[i] >= '0' && body[i] <= '9' {
			i++
			digits++
		}
	}
	if digits > 0 && i < len(body) && body[i] == 'e' {
		j := i + 1
		if j < len(body) && (body[j] == '+' || body[j] == '-') {
			j++
		}
		k := j
		for k < len(body) && body[k] >= '0' && body[k] <= '9' {
			k++
		}
		if k > j {
			i = k
		}
	}
	if digits > 0 && i == len(body) {
		f, err := strconv.ParseFloat(s, 64)
		if err != nil {
			// out of range (1e400): overflow to inf is an error for Redis
			if math.IsInf(f, 0) {
				return f, fUnspec
			}
			return 0, fBad
		}
		return f, fNum
	}
	if _, err := strconv.ParseFloat(s, 64); err == nil {
		return 0, fUnspec // hex floats, underscores ...
	}
	if strings.TrimSpace(s) != s || strings.HasPrefix(ls, "0x") || strings.HasPrefix(body, "0x") {
		return 0, fUnspec
	}
	return 0, fBad
}

// floatText checks that g is a textual float numerically equal to want and
// not in exponent notation when noExp is set.
func floatText(g respc.Value, want float64, lenient, noExp bool) bool {
	t, ok := text(g, lenient)
	if !ok {
		return false
	}
	s := string(t)
	if noExp && strings.ContainsAny(s, "eE") && !strings.Contains(strings.ToLower(s), "inf") {
		return false
	}
	f, err := strconv.ParseFloat(s, 64)
	if err != nil {
		return false
	}
	return floatClose(f, want)
}

func floatClose(a, b float64) bool {
	if a == b {
		return true
	}
	if math.IsInf(a, 0) || math.IsInf(b, 0) || math.IsNaN(a) || math.IsNaN(b) {
		return false
	}
	d := math.Abs(a - b)
	m := math.Max(math.Abs(a), math.Abs(b))
	return d <= 1e-12*m || d < 1e-300
}

func sortedKeys(m map[string]bool) []string {
	out := make([]string, 0, len(m))
	for k := range m {
		out = append(out, k)
	}
	sort.Strings(out)
	return out
}

// ---- dispatcher -----------------------------------------------------------

type handler func(db *DB, args [][]byte, tm Time) (alts []alt, unspec string)

var handlers = map[string]handler{}

// Known reports whether the model has semantics for the command name.
func Known(name string) bool {
	_, ok := handlers[strings.ToUpper(name)]
	return ok
}

// Step judges got as the reply to cmd issued in the bracket tm, and advances
// the model state (by the matching alternative, or by the reference
// alternative when nothing matches).
func (db *DB) Step(cmd [][]byte, got respc.Value, tm Time) Outcome {
	if len(cmd) == 0 {
		return Outcome{OK: true, StrictOK: true, Unspecified: true, Want: "(empty command)"}
	}
	name := upper(cmd[0])
	h, ok := handlers[name]
	if !ok {
		m := mErr()
		r := m(got, false)
		return Outcome{OK: r, StrictOK: r, Want: "error (unknown command)"}
	}
	alts, unspec := h(db, cmd, tm)
	if unspec != "" {
		return Outcome{OK: true, StrictOK: true, Unspecified: true, Want: "unspecified: " + unspec, Note: unspec}
	}
	descs := make([]string, 0, len(alts))
	for _, a := range alts {
		descs = append(descs, a.desc)
	}
	want := strings.Join(descs, " | ")
	for _, lenient := range []bool{false, true} {
		for _, a := range alts {
			if a.match(got, lenient) {
				if a.apply != nil {
					a.apply(got)
				}
				return Outcome{OK: true, StrictOK: !lenient, Want: want}
			}
		}
	}
	if len(alts) > 0 && alts[0].apply != nil {
		alts[0].apply(respc.Value{})
	}
	return Outcome{OK: false, StrictOK: false, Want: want}
}

func errAlt(desc string) []alt {
	return []alt{{desc: "error(" + desc + ")", match: mErr(), apply: noop}}
}

func wrongTypeAlt() []alt {
	return []alt{{desc: "WRONGTYPE", match: mWrongType(), apply: noop}}
}

func one(desc string, m func(respc.Value, bool) bool, apply func()) []alt {
	return []alt{{desc: desc, match: m, apply: func(respc.Value) {
		if apply != nil {
			apply()
		}
	}}}
}

const ambiguous = "deadline inside the call bracket"

// ---- canonical dump -------------------------------------------------------

// Entry is the canonical form of one key, comparable with the
// implementation's dump.
type Entry struct {
	Key      string
	Type     string
	Str      []byte
	List     [][]byte
	Set      []string
	Hash     [][2]string
	ZSet     []ZMember
	Stream   []XEntry
	Dmin     int64
	Dmax     int64
	HasDead  bool
	StrIsNum bool // string holds a float result: compare numerically
}

// ZMember is one sorted-set member.
type ZMember struct {
	Member string
	Score  float64
}

// Dump returns the model keyspace sorted by key. Keys whose deadline has
// certainly passed at tm are dropped; keys inside their bracket are kept and
// reported in amb.
func (db *DB) Dump(tm Time) (out []Entry, amb []string) {
	keys := make([]string, 0, len(db.Keys))
	for k := range db.Keys {
		keys = append(keys, k)
	}
	sort.Strings(keys)
	for _, k := range keys {
		v, a := db.live(k, tm)
		if v == nil {
			continue
		}
		if a {
			amb = append(amb, k)
		}
		e := Entry{Key: k, Type: v.T, Dmin: v.Dmin, Dmax: v.Dmax, HasDead: v.HasDead}
		switch v.T {
		case "string":
			e.Str = v.S
		case "list":
			e.List = v.L
		case "set":
			e.Set = sortedKeys(v.Set)
		case "hash":
			fs := make([]string, 0, len(v.H))
			for f := range v.H {
				fs = append(fs, f)
			}
			sort.Strings(fs)
			for _, f := range fs {
				e.Hash = append(e.Hash, [2]string{f, string(v.H[f])})
			}
		case "zset":
			e.ZSet = v.zsorted()
		case "stream":
			e.Stream = v.X
		}
		out = append(out, e)
	}
	return out, amb
}

func (v *Val) zsorted() []ZMember {
	ms := make([]ZMember, 0, len(v.Z))
	for m, s := range v.Z {
		ms = append(ms, ZMember{m, s})
	}
	sort.Slice(ms, func(i, j int) bool {
		if ms[i].Score != ms[j].Score {
			return ms[i].Score < ms[j].Score
		}
		return ms[i].Member < ms[j].Member
	})
	return ms
}

// Load replaces the model state by the given entries (re-synchronisation
// from the implementation after a divergence or an unspecified corner).
func (db *DB) Load(es []Entry) {
	db.Keys = map[string]*Val{}
	for _, e := range es {
		v := &Val{T: e.Type, Dmin: e.Dmin, Dmax: e.Dmax, HasDead: e.HasDead}
		switch e.Type {
		case "string":
			v.S = cp(e.Str)
		case "list":
			for _, x := range e.List {
				v.L = append(v.L, cp(x))
			}
		case "set":
			v.Set = map[string]bool{}
			for _, s := range e.Set {
				v.Set[s] = true
			}
		case "hash":
			v.H = map[string][]byte{}
			for _, fv := range e.Hash {
				v.H[fv[0]] = []byte(fv[1])
			}
		case "zset":
			v.Z = map[string]float64{}
			for _, z := range e.ZSet {
				v.Z[z.Member] = z.Score
			}
		case "stream":
			v.X = append([]XEntry{}, e.Stream...)
			if len(v.X) > 0 {
				v.XLast = v.X[len(v.X)-1].ID
				v.XHas = true
			}
		default:
			continue
		}
		if v.empty() {
			continue // an empty container is not a key
		}
		db.Keys[e.Key] = v
	}
}
