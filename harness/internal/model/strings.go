package model

import (
	"math"
	"strconv"
	"strings"

	"rgverif/internal/respc"
)

func init() {
	handlers["SET"] = hSet
	handlers["GET"] = hGet
	handlers["MSET"] = hMSet
	handlers["MGET"] = hMGet
	handlers["SETNX"] = hSetNX
	handlers["SETEX"] = hSetEX
	handlers["APPEND"] = hAppend
	handlers["STRLEN"] = hStrLen
	handlers["GETRANGE"] = hGetRange
	handlers["SETRANGE"] = hSetRange
	handlers["INCR"] = func(db *DB, a [][]byte, tm Time) ([]alt, string) { return incrGeneric(db, a, tm, 1, false, false) }
	handlers["DECR"] = func(db *DB, a [][]byte, tm Time) ([]alt, string) { return incrGeneric(db, a, tm, -1, false, false) }
	handlers["INCRBY"] = func(db *DB, a [][]byte, tm Time) ([]alt, string) { return incrGeneric(db, a, tm, 0, true, false) }
	handlers["DECRBY"] = func(db *DB, a [][]byte, tm Time) ([]alt, string) { return incrGeneric(db, a, tm, 0, true, true) }
	handlers["INCRBYFLOAT"] = hIncrByFloat
}

const maxStringLen = 512 * 1024 * 1024

func hSet(db *DB, a [][]byte, tm Time) ([]alt, string) {
	if len(a) < 3 {
		return errAlt("arity"), ""
	}
	key, val := string(a[1]), a[2]
	var nx, xx, get, keepttl bool
	expKinds := 0
	var dmin, dmax int64
	hasExp := false
	badExpire := false
	seen := map[string]int{}
	for i := 3; i < len(a); i++ {
		o := upper(a[i])
		seen[o]++
		switch o {
		case "NX":
			nx = true
		case "XX":
			xx = true
		case "GET":
			get = true
		case "KEEPTTL":
			keepttl = true
		case "EX", "PX", "EXAT", "PXAT":
			i++
			if i >= len(a) {
				return errAlt("syntax: missing expire value"), ""
			}
			n, canon, lenOK := parseIntStrict(a[i])
			if !lenOK {
				return errAlt("expire not an integer"), ""
			}
			if !canon {
				return nil, "non-canonical integer expire"
			}
			if o == "PXAT" {
				return nil, "PXAT"
			}
			if n <= 0 {
				badExpire = true
			}
			if n > math.MaxInt64/2000 {
				return nil, "huge expire"
			}
			expKinds++
			hasExp = true
			switch o {
			case "EX":
				dmin, dmax = tm.T0+n, tm.T1+n
			case "PX":
				dmin, dmax = tm.T0+n/1000, tm.T1+(n+999)/1000
			case "EXAT":
				dmin, dmax = n, n
			}
		default:
			return errAlt("syntax: unknown option"), ""
		}
	}
	for _, c := range seen {
		if c > 1 {
			return nil, "repeated option"
		}
	}
	if (nx && xx) || expKinds > 1 || (keepttl && expKinds > 0) || badExpire {
		return errAlt("syntax: incompatible options or invalid expire time"), ""
	}
	if nx && get {
		return nil, "NX with GET is version dependent"
	}
	old, amb := db.live(key, tm)
	if amb {
		return nil, ambiguous
	}
	doSet := func() {
		nv := &Val{T: "string", S: cp(val)}
		if keepttl && old != nil {
			nv.HasDead, nv.Dmin, nv.Dmax = old.HasDead, old.Dmin, old.Dmax
		}
		if hasExp {
			nv.HasDead, nv.Dmin, nv.Dmax = true, dmin, dmax
		}
		db.Keys[key] = nv
	}
	foreign := old != nil && old.T != "string"
	if get && foreign {
		return wrongTypeAlt(), ""
	}
	if nx && old != nil {
		alts := one("nil (NX on existing key)", mNil(), nil)
		if foreign {
			alts = append(alts, wrongTypeAlt()...)
		}
		return alts, ""
	}
	if xx && old == nil {
		return one("nil (XX on missing key)", mNil(), nil), ""
	}
	if get {
		if old == nil {
			return one("nil (GET, no old value)", mNil(), doSet), ""
		}
		return one("bulk old value "+showBytes(old.S), mBulk(old.S), doSet), ""
	}
	alts := one("+OK", mStatus("OK"), doSet)
	if foreign {
		alts = append(alts, wrongTypeAlt()...)
	}
	return alts, ""
}

func hGet(db *DB, a [][]byte, tm Time) ([]alt, string) {
	if len(a) != 2 {
		return errAlt("arity"), ""
	}
	v, amb := db.live(string(a[1]), tm)
	if amb {
		return nil, ambiguous
	}
	if v == nil {
		return one("nil", mNilBulk(), nil), ""
	}
	if v.T != "string" {
		return wrongTypeAlt(), ""
	}
	return one("bulk "+showBytes(v.S), mBulk(v.S), nil), ""
}

func hMSet(db *DB, a [][]byte, tm Time) ([]alt, string) {
	if len(a) < 3 || len(a)%2 != 1 {
		return errAlt("arity"), ""
	}
	foreign := false
	for i := 1; i < len(a); i += 2 {
		v, amb := db.live(string(a[i]), tm)
		if amb {
			return nil, ambiguous
		}
		if v != nil && v.T != "string" {
			foreign = true
		}
	}
	alts := one("+OK", mStatus("OK"), func() {
		for i := 1; i < len(a); i += 2 {
			db.Keys[string(a[i])] = &Val{T: "string", S: cp(a[i+1])}
		}
	})
	if foreign {
		alts = append(alts, wrongTypeAlt()...)
	}
	return alts, ""
}

func hMGet(db *DB, a [][]byte, tm Time) ([]alt, string) {
	if len(a) < 2 {
		return errAlt("arity"), ""
	}
	want := make([][]byte, 0, len(a)-1)
	for _, k := range a[1:] {
		v, amb := db.live(string(k), tm)
		if amb {
			return nil, ambiguous
		}
		if v == nil || v.T != "string" {
			want = append(want, nil)
		} else {
			want = append(want, v.S)
		}
	}
	return one("array of values/nils", mBulkArr(want), nil), ""
}

func hSetNX(db *DB, a [][]byte, tm Time) ([]alt, string) {
	if len(a) != 3 {
		return errAlt("arity"), ""
	}
	v, amb := db.live(string(a[1]), tm)
	if amb {
		return nil, ambiguous
	}
	if v != nil {
		return one(":0", mInt(0), nil), ""
	}
	return one(":1", mInt(1), func() { db.Keys[string(a[1])] = &Val{T: "string", S: cp(a[2])} }), ""
}

func hSetEX(db *DB, a [][]byte, tm Time) ([]alt, string) {
	if len(a) != 4 {
		return errAlt("arity"), ""
	}
	n, canon, lenOK := parseIntStrict(a[2])
	if !lenOK {
		return errAlt("expire not an integer"), ""
	}
	if !canon {
		return nil, "non-canonical integer expire"
	}
	if n <= 0 {
		return errAlt("invalid expire time"), ""
	}
	if n > math.MaxInt64/2000 {
		return nil, "huge expire"
	}
	key := string(a[1])
	old, amb := db.live(key, tm)
	if amb {
		return nil, ambiguous
	}
	alts := one("+OK", mStatus("OK"), func() {
		db.Keys[key] = &Val{T: "string", S: cp(a[3]), HasDead: true, Dmin: tm.T0 + n, Dmax: tm.T1 + n}
	})
	if old != nil && old.T != "string" {
		alts = append(alts, wrongTypeAlt()...)
	}
	return alts, ""
}

func hAppend(db *DB, a [][]byte, tm Time) ([]alt, string) {
	if len(a) != 3 {
		return errAlt("arity"), ""
	}
	key := string(a[1])
	v, amb := db.live(key, tm)
	if amb {
		return nil, ambiguous
	}
	if v == nil {
		return one(":len", mInt(int64(len(a[2]))), func() { db.Keys[key] = &Val{T: "string", S: cp(a[2])} }), ""
	}
	if v.T != "string" {
		return wrongTypeAlt(), ""
	}
	n := int64(len(v.S) + len(a[2]))
	return one(":"+strconv.FormatInt(n, 10), mInt(n), func() { v.S = append(cp(v.S), a[2]...) }), ""
}

func hStrLen(db *DB, a [][]byte, tm Time) ([]alt, string) {
	if len(a) != 2 {
		return errAlt("arity"), ""
	}
	v, amb := db.live(string(a[1]), tm)
	if amb {
		return nil, ambiguous
	}
	if v == nil {
		return one(":0", mInt(0), nil), ""
	}
	if v.T != "string" {
		return wrongTypeAlt(), ""
	}
	return one(":len", mInt(int64(len(v.S))), nil), ""
}

func hGetRange(db *DB, a [][]byte, tm Time) ([]alt, string) {
	if len(a) != 4 {
		return errAlt("arity"), ""
	}
	start, c1, l1 := parseIntStrict(a[2])
	end, c2, l2 := parseIntStrict(a[3])
	if !l1 || !l2 {
		return errAlt("index not an integer"), ""
	}
	if !c1 || !c2 {
		return nil, "non-canonical integer index"
	}
	v, amb := db.live(string(a[1]), tm)
	if amb {
		return nil, ambiguous
	}
	if v != nil && v.T != "string" {
		return wrongTypeAlt(), ""
	}
	var s []byte
	if v != nil {
		s = v.S
	}
	n := int64(len(s))
	if start < 0 && end < 0 && start > end {
		return one(`bulk ""`, mBulk([]byte{}), nil), ""
	}
	if start < 0 {
		start += n
	}
	if end < 0 {
		end += n
	}
	if start < 0 {
		start = 0
	}
	endUnder := end < 0 // the reference implementation clamps this to 0; "" is as defensible
	if end < 0 {
		end = 0
	}
	if end >= n {
		end = n - 1
	}
	if n == 0 || start > end {
		return one(`bulk ""`, mBulk([]byte{}), nil), ""
	}
	w := s[start : end+1]
	alts := one("bulk "+showBytes(w), mBulk(w), nil)
	if endUnder {
		alts = append(alts, one(`bulk "" (end before the first byte)`, mBulk([]byte{}), nil)...)
	}
	return alts, ""
}

func hSetRange(db *DB, a [][]byte, tm Time) ([]alt, string) {
	if len(a) != 4 {
		return errAlt("arity"), ""
	}
	off, canon, lenOK := parseIntStrict(a[2])
	if !lenOK {
		return errAlt("offset not an integer"), ""
	}
	if !canon {
		return nil, "non-canonical integer offset"
	}
	if off < 0 {
		return errAlt("offset out of range"), ""
	}
	key := string(a[1])
	v, amb := db.live(key, tm)
	if amb {
		return nil, ambiguous
	}
	if v != nil && v.T != "string" {
		return wrongTypeAlt(), ""
	}
	val := a[3]
	if v == nil && len(val) == 0 {
		return one(":0 and no key", mInt(0), nil), ""
	}
	if len(val) == 0 {
		return one(":len unchanged", mInt(int64(len(v.S))), nil), ""
	}
	if off > maxStringLen-int64(len(val)) {
		return errAlt("string exceeds maximum allowed size"), ""
	}
	var old []byte
	if v != nil {
		old = v.S
	}
	nl := int64(len(old))
	if off+int64(len(val)) > nl {
		nl = off + int64(len(val))
	}
	return one(":"+strconv.FormatInt(nl, 10), mInt(nl), func() {
		ns := make([]byte, nl)
		copy(ns, old)
		copy(ns[off:], val)
		if v == nil {
			db.Keys[key] = &Val{T: "string", S: ns}
		} else {
			v.S = ns
		}
	}), ""
}

func incrGeneric(db *DB, a [][]byte, tm Time, fixed int64, hasArg, negate bool) ([]alt, string) {
	want := 2
	if hasArg {
		want = 3
	}
	if len(a) != want {
		return errAlt("arity"), ""
	}
	delta := fixed
	if hasArg {
		n, canon, lenOK := parseIntStrict(a[2])
		if !lenOK {
			return errAlt("increment not an integer"), ""
		}
		if !canon {
			return nil, "non-canonical integer increment"
		}
		if negate {
			if n == math.MinInt64 {
				return errAlt("decrement would overflow"), ""
			}
			n = -n
		}
		delta = n
	}
	key := string(a[1])
	v, amb := db.live(key, tm)
	if amb {
		return nil, ambiguous
	}
	if v != nil && v.T != "string" {
		return wrongTypeAlt(), ""
	}
	cur := int64(0)
	if v != nil {
		n, canon, lenOK := parseIntStrict(v.S)
		if !lenOK {
			return errAlt("value is not an integer"), ""
		}
		if !canon {
			return nil, "non-canonical integer value"
		}
		cur = n
	}
	if (delta > 0 && cur > math.MaxInt64-delta) || (delta < 0 && cur < math.MinInt64-delta) {
		return errAlt("increment or decrement would overflow"), ""
	}
	res := cur + delta
	return one(":"+strconv.FormatInt(res, 10), mInt(res), func() {
		s := []byte(strconv.FormatInt(res, 10))
		if v == nil {
			db.Keys[key] = &Val{T: "string", S: s}
		} else {
			v.S = s
		}
	}), ""
}

func hIncrByFloat(db *DB, a [][]byte, tm Time) ([]alt, string) {
	if len(a) != 3 {
		return errAlt("arity"), ""
	}
	inc, cls := parseFloatClass(a[2])
	switch cls {
	case fBad, fNaN, fInf:
		return errAlt("increment is not a valid float"), ""
	case fUnspec:
		return nil, "float syntax accepted by some parsers only"
	}
	key := string(a[1])
	v, amb := db.live(key, tm)
	if amb {
		return nil, ambiguous
	}
	if v != nil && v.T != "string" {
		return wrongTypeAlt(), ""
	}
	cur := 0.0
	if v != nil {
		f, c := parseFloatClass(v.S)
		switch c {
		case fBad, fNaN, fInf:
			return errAlt("value is not a valid float"), ""
		case fUnspec:
			return nil, "float syntax accepted by some parsers only"
		}
		cur = f
	}
	res := cur + inc
	if math.IsInf(res, 0) || math.IsNaN(res) {
		return errAlt("increment would produce NaN or Infinity"), ""
	}
	return []alt{{
		desc:  "bulk float " + strconv.FormatFloat(res, 'f', -1, 64) + " (no exponent)",
		match: func(g respc.Value, lenient bool) bool { return floatText(g, res, lenient, true) },
		apply: func(g respc.Value) {
			s := []byte(strconv.FormatFloat(res, 'f', -1, 64))
			if t, ok := text(g, true); ok && floatText(g, res, true, true) {
				s = cp(t)
			}
			if v == nil {
				db.Keys[key] = &Val{T: "string", S: s}
			} else {
				v.S = s
			}
		},
	}}, ""
}

var _ = strings.ToUpper
