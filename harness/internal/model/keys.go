package model

import (
	"math"
	"strconv"

	"rgverif/internal/respc"
)

func init() {
	handlers["DEL"] = hDel
	handlers["EXISTS"] = hExists
	handlers["TYPE"] = hType
	handlers["RENAME"] = hRename
	handlers["KEYS"] = hKeys
	handlers["PING"] = hPing
	handlers["TTL"] = hTTL
	handlers["EXPIRE"] = hExpire
	handlers["PERSIST"] = hPersist
}

func hDel(db *DB, a [][]byte, tm Time) ([]alt, string) {
	if len(a) < 2 {
		return errAlt("arity"), ""
	}
	n := int64(0)
	seen := map[string]bool{}
	for _, k := range a[1:] {
		v, amb := db.live(string(k), tm)
		if amb {
			return nil, ambiguous
		}
		if v != nil && !seen[string(k)] {
			n++
			seen[string(k)] = true
		}
	}
	return one(":"+strconv.FormatInt(n, 10), mInt(n), func() {
		for _, k := range a[1:] {
			delete(db.Keys, string(k))
		}
	}), ""
}

func hExists(db *DB, a [][]byte, tm Time) ([]alt, string) {
	if len(a) < 2 {
		return errAlt("arity"), ""
	}
	n := int64(0)
	for _, k := range a[1:] {
		v, amb := db.live(string(k), tm)
		if amb {
			return nil, ambiguous
		}
		if v != nil {
			n++
		}
	}
	return one(":"+strconv.FormatInt(n, 10), mInt(n), nil), ""
}

func hType(db *DB, a [][]byte, tm Time) ([]alt, string) {
	if len(a) != 2 {
		return errAlt("arity"), ""
	}
	v, amb := db.live(string(a[1]), tm)
	if amb {
		return nil, ambiguous
	}
	t := "none"
	if v != nil {
		t = v.T
	}
	return one("+"+t, mStatus(t), nil), ""
}

func hRename(db *DB, a [][]byte, tm Time) ([]alt, string) {
	if len(a) != 3 {
		return errAlt("arity"), ""
	}
	src, dst := string(a[1]), string(a[2])
	v, amb := db.live(src, tm)
	if amb {
		return nil, ambiguous
	}
	if _, amb2 := db.live(dst, tm); amb2 {
		return nil, ambiguous
	}
	if v == nil {
		return errAlt("no such key"), ""
	}
	return one("+OK", mStatus("OK"), func() {
		if src != dst {
			delete(db.Keys, src)
			db.Keys[dst] = v
		}
	}), ""
}

func hKeys(db *DB, a [][]byte, tm Time) ([]alt, string) {
	if len(a) != 2 {
		return errAlt("arity"), ""
	}
	pat := string(a[1])
	var want [][]byte
	names := make([]string, 0, len(db.Keys))
	for k := range db.Keys {
		names = append(names, k)
	}
	for _, k := range names {
		v, amb := db.live(k, tm)
		if amb {
			return nil, ambiguous
		}
		if v == nil {
			continue
		}
		switch Glob(pat, k) {
		case GlobUnspecified:
			return nil, "glob grammar corner"
		case GlobYes:
			want = append(want, []byte(k))
		}
	}
	return one("array(set) of "+strconv.Itoa(len(want))+" keys", mBulkSet(want), nil), ""
}

func hPing(db *DB, a [][]byte, tm Time) ([]alt, string) {
	switch len(a) {
	case 1:
		return one("+PONG", mStatus("PONG"), nil), ""
	case 2:
		return one("bulk echo", mBulk(a[1]), nil), ""
	}
	return errAlt("arity"), ""
}

func hTTL(db *DB, a [][]byte, tm Time) ([]alt, string) {
	if len(a) != 2 {
		return errAlt("arity"), ""
	}
	v, amb := db.live(string(a[1]), tm)
	if amb {
		return nil, ambiguous
	}
	if v == nil {
		return one(":-2", mInt(-2), nil), ""
	}
	if !v.HasDead {
		return one(":-1", mInt(-1), nil), ""
	}
	lo, hi := v.Dmin-tm.T1, v.Dmax-tm.T0
	if lo < 0 {
		lo = 0
	}
	return []alt{{
		desc:  ":ttl in [" + strconv.FormatInt(lo, 10) + "," + strconv.FormatInt(hi, 10) + "]",
		match: func(g respc.Value, _ bool) bool { return g.Kind == ':' && g.Int >= lo && g.Int <= hi },
		apply: noop,
	}}, ""
}

func hExpire(db *DB, a [][]byte, tm Time) ([]alt, string) {
	if len(a) < 3 {
		return errAlt("arity"), ""
	}
	n, canon, lenOK := parseIntStrict(a[2])
	if !lenOK {
		return errAlt("seconds not an integer"), ""
	}
	if !canon {
		return nil, "non-canonical integer"
	}
	if len(a) > 4 {
		return nil, "multi-option EXPIRE"
	}
	opt := ""
	if len(a) == 4 {
		opt = upper(a[3])
		switch opt {
		case "NX", "XX", "GT", "LT":
		default:
			return errAlt("unsupported option"), ""
		}
	}
	if n > math.MaxInt64/2000 || n < math.MinInt64/2000 {
		return nil, "huge expire"
	}
	key := string(a[1])
	v, amb := db.live(key, tm)
	if amb {
		return nil, ambiguous
	}
	if v == nil {
		return one(":0 (missing key)", mInt(0), nil), ""
	}
	nmin, nmax := tm.T0+n, tm.T1+n
	pass := true
	switch opt {
	case "NX":
		pass = !v.HasDead
	case "XX":
		pass = v.HasDead
	case "GT":
		if !v.HasDead {
			pass = false
		} else if nmin > v.Dmax {
			pass = true
		} else if nmax <= v.Dmin {
			pass = false
		} else {
			return nil, "GT comparison inside the clock bracket"
		}
	case "LT":
		if !v.HasDead {
			pass = true
		} else if nmax < v.Dmin {
			pass = true
		} else if nmin >= v.Dmax {
			pass = false
		} else {
			return nil, "LT comparison inside the clock bracket"
		}
	}
	if !pass {
		return one(":0 (condition false)", mInt(0), nil), ""
	}
	if n <= 0 {
		return one(":1 and key deleted", mInt(1), func() { delete(db.Keys, key) }), ""
	}
	return one(":1", mInt(1), func() { v.HasDead, v.Dmin, v.Dmax = true, nmin, nmax }), ""
}

func hPersist(db *DB, a [][]byte, tm Time) ([]alt, string) {
	if len(a) != 2 {
		return errAlt("arity"), ""
	}
	v, amb := db.live(string(a[1]), tm)
	if amb {
		return nil, ambiguous
	}
	if v == nil || !v.HasDead {
		return one(":0", mInt(0), nil), ""
	}
	return one(":1", mInt(1), func() { v.clearDeadline() }), ""
}
