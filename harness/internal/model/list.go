package model

import (
	"bytes"
	"strconv"

	"rgverif/internal/respc"
)

func init() {
	handlers["LPUSH"] = func(db *DB, a [][]byte, tm Time) ([]alt, string) { return pushGeneric(db, a, tm, true, false) }
	handlers["RPUSH"] = func(db *DB, a [][]byte, tm Time) ([]alt, string) { return pushGeneric(db, a, tm, false, false) }
	handlers["LPUSHX"] = func(db *DB, a [][]byte, tm Time) ([]alt, string) { return pushGeneric(db, a, tm, true, true) }
	handlers["RPUSHX"] = func(db *DB, a [][]byte, tm Time) ([]alt, string) { return pushGeneric(db, a, tm, false, true) }
	handlers["LPOP"] = func(db *DB, a [][]byte, tm Time) ([]alt, string) { return popGeneric(db, a, tm, true) }
	handlers["RPOP"] = func(db *DB, a [][]byte, tm Time) ([]alt, string) { return popGeneric(db, a, tm, false) }
	handlers["LLEN"] = hLLen
	handlers["LINDEX"] = hLIndex
	handlers["LRANGE"] = hLRange
	handlers["LSET"] = hLSet
	handlers["LREM"] = hLRem
	handlers["LTRIM"] = hLTrim
	handlers["LPOS"] = hLPos
	handlers["LMOVE"] = hLMove
	handlers["BLPOP"] = func(db *DB, a [][]byte, tm Time) ([]alt, string) { return bpopGeneric(db, a, tm, true) }
	handlers["BRPOP"] = func(db *DB, a [][]byte, tm Time) ([]alt, string) { return bpopGeneric(db, a, tm, false) }
}

// getTyped returns the live value of key if it has type t.
// wrong is set when the key holds another type.
func (db *DB) getTyped(key, t string, tm Time) (v *Val, wrong, amb bool) {
	v, amb = db.live(key, tm)
	if amb {
		return nil, false, true
	}
	if v == nil {
		return nil, false, false
	}
	if v.T != t {
		return nil, true, false
	}
	return v, false, false
}

func (db *DB) dropIfEmpty(key string) {
	if v := db.Keys[key]; v != nil && v.empty() {
		delete(db.Keys, key)
	}
}

func pushGeneric(db *DB, a [][]byte, tm Time, left, onlyExisting bool) ([]alt, string) {
	if len(a) < 3 {
		return errAlt("arity"), ""
	}
	key := string(a[1])
	v, wrong, amb := db.getTyped(key, "list", tm)
	if amb {
		return nil, ambiguous
	}
	if wrong {
		return wrongTypeAlt(), ""
	}
	if v == nil && onlyExisting {
		return one(":0 and no key", mInt(0), nil), ""
	}
	cur := 0
	if v != nil {
		cur = len(v.L)
	}
	n := int64(cur + len(a) - 2)
	return one(":"+strconv.FormatInt(n, 10), mInt(n), func() {
		if v == nil {
			v = &Val{T: "list"}
			db.Keys[key] = v
		}
		for _, e := range a[2:] {
			if left {
				v.L = append([][]byte{cp(e)}, v.L...)
			} else {
				v.L = append(v.L, cp(e))
			}
		}
	}), ""
}

func popGeneric(db *DB, a [][]byte, tm Time, left bool) ([]alt, string) {
	if len(a) != 2 && len(a) != 3 {
		return errAlt("arity"), ""
	}
	hasCount := len(a) == 3
	count := int64(1)
	if hasCount {
		n, canon, lenOK := parseIntStrict(a[2])
		if !lenOK {
			return errAlt("count not an integer"), ""
		}
		if !canon {
			return nil, "non-canonical integer"
		}
		if n < 0 {
			return errAlt("count must be positive"), ""
		}
		if n == 0 {
			return nil, "count 0 is version dependent"
		}
		count = n
	}
	key := string(a[1])
	v, wrong, amb := db.getTyped(key, "list", tm)
	if amb {
		return nil, ambiguous
	}
	if wrong {
		return wrongTypeAlt(), ""
	}
	if v == nil {
		if hasCount {
			return []alt{{desc: "nil or empty array (missing key with count)", match: func(g respc.Value, _ bool) bool {
				return g.Nil || (g.Kind == '*' && len(g.Arr) == 0)
			}, apply: noop}}, ""
		}
		return one("nil", mNilBulk(), nil), ""
	}
	if count > int64(len(v.L)) {
		count = int64(len(v.L))
	}
	var popped [][]byte
	for i := int64(0); i < count; i++ {
		if left {
			popped = append(popped, v.L[i])
		} else {
			popped = append(popped, v.L[len(v.L)-1-int(i)])
		}
	}
	apply := func() {
		if left {
			v.L = v.L[count:]
		} else {
			v.L = v.L[:len(v.L)-int(count)]
		}
		db.dropIfEmpty(key)
	}
	if !hasCount {
		return one("bulk "+showBytes(popped[0]), mBulk(popped[0]), apply), ""
	}
	return one("array of "+strconv.Itoa(len(popped))+" popped elements", mBulkArr(popped), apply), ""
}

func hLLen(db *DB, a [][]byte, tm Time) ([]alt, string) {
	if len(a) != 2 {
		return errAlt("arity"), ""
	}
	v, wrong, amb := db.getTyped(string(a[1]), "list", tm)
	if amb {
		return nil, ambiguous
	}
	if wrong {
		return wrongTypeAlt(), ""
	}
	n := int64(0)
	if v != nil {
		n = int64(len(v.L))
	}
	return one(":"+strconv.FormatInt(n, 10), mInt(n), nil), ""
}

func hLIndex(db *DB, a [][]byte, tm Time) ([]alt, string) {
	if len(a) != 3 {
		return errAlt("arity"), ""
	}
	idx, canon, lenOK := parseIntStrict(a[2])
	if !lenOK {
		return errAlt("index not an integer"), ""
	}
	if !canon {
		return nil, "non-canonical integer"
	}
	v, wrong, amb := db.getTyped(string(a[1]), "list", tm)
	if amb {
		return nil, ambiguous
	}
	if wrong {
		return wrongTypeAlt(), ""
	}
	if v == nil {
		return one("nil", mNilBulk(), nil), ""
	}
	n := int64(len(v.L))
	if idx < 0 {
		idx += n
	}
	if idx < 0 || idx >= n {
		return one("nil (out of range)", mNilBulk(), nil), ""
	}
	return one("bulk "+showBytes(v.L[idx]), mBulk(v.L[idx]), nil), ""
}

// normRange applies the reference's start/stop normalisation. ok=false: empty.
func normRange(start, stop, n int64) (int64, int64, bool) {
	if start < 0 {
		start += n
	}
	if stop < 0 {
		stop += n
	}
	if start < 0 {
		start = 0
	}
	if start > stop || start >= n {
		return 0, 0, false
	}
	if stop >= n {
		stop = n - 1
	}
	return start, stop, true
}

func hLRange(db *DB, a [][]byte, tm Time) ([]alt, string) {
	if len(a) != 4 {
		return errAlt("arity"), ""
	}
	start, c1, l1 := parseIntStrict(a[2])
	stop, c2, l2 := parseIntStrict(a[3])
	if !l1 || !l2 {
		return errAlt("index not an integer"), ""
	}
	if !c1 || !c2 {
		return nil, "non-canonical integer"
	}
	v, wrong, amb := db.getTyped(string(a[1]), "list", tm)
	if amb {
		return nil, ambiguous
	}
	if wrong {
		return wrongTypeAlt(), ""
	}
	if v == nil {
		return one("empty array", mEmptyArr(), nil), ""
	}
	s, e, ok := normRange(start, stop, int64(len(v.L)))
	if !ok {
		return one("empty array", mEmptyArr(), nil), ""
	}
	w := v.L[s : e+1]
	return one("array of "+strconv.Itoa(len(w))+" elements", mBulkArr(w), nil), ""
}

func hLSet(db *DB, a [][]byte, tm Time) ([]alt, string) {
	if len(a) != 4 {
		return errAlt("arity"), ""
	}
	idx, canon, lenOK := parseIntStrict(a[2])
	if !lenOK {
		return errAlt("index not an integer"), ""
	}
	if !canon {
		return nil, "non-canonical integer"
	}
	v, wrong, amb := db.getTyped(string(a[1]), "list", tm)
	if amb {
		return nil, ambiguous
	}
	if wrong {
		return wrongTypeAlt(), ""
	}
	if v == nil {
		return errAlt("no such key"), ""
	}
	n := int64(len(v.L))
	if idx < 0 {
		idx += n
	}
	if idx < 0 || idx >= n {
		return errAlt("index out of range"), ""
	}
	return one("+OK", mStatus("OK"), func() { v.L[idx] = cp(a[3]) }), ""
}

func hLRem(db *DB, a [][]byte, tm Time) ([]alt, string) {
	if len(a) != 4 {
		return errAlt("arity"), ""
	}
	count, canon, lenOK := parseIntStrict(a[2])
	if !lenOK {
		return errAlt("count not an integer"), ""
	}
	if !canon {
		return nil, "non-canonical integer"
	}
	key := string(a[1])
	v, wrong, amb := db.getTyped(key, "list", tm)
	if amb {
		return nil, ambiguous
	}
	if wrong {
		return wrongTypeAlt(), ""
	}
	if v == nil {
		return one(":0", mInt(0), nil), ""
	}
	var out [][]byte
	removed := int64(0)
	if count >= 0 {
		for _, e := range v.L {
			if bytes.Equal(e, a[3]) && (count == 0 || removed < count) {
				removed++
				continue
			}
			out = append(out, e)
		}
	} else {
		for i := len(v.L) - 1; i >= 0; i-- {
			e := v.L[i]
			if bytes.Equal(e, a[3]) && removed < -count {
				removed++
				continue
			}
			out = append([][]byte{e}, out...)
		}
	}
	return one(":"+strconv.FormatInt(removed, 10), mInt(removed), func() {
		v.L = out
		db.dropIfEmpty(key)
	}), ""
}

func hLTrim(db *DB, a [][]byte, tm Time) ([]alt, string) {
	if len(a) != 4 {
		return errAlt("arity"), ""
	}
	start, c1, l1 := parseIntStrict(a[2])
	stop, c2, l2 := parseIntStrict(a[3])
	if !l1 || !l2 {
		return errAlt("index not an integer"), ""
	}
	if !c1 || !c2 {
		return nil, "non-canonical integer"
	}
	key := string(a[1])
	v, wrong, amb := db.getTyped(key, "list", tm)
	if amb {
		return nil, ambiguous
	}
	if wrong {
		return wrongTypeAlt(), ""
	}
	if v == nil {
		return one("+OK", mStatus("OK"), nil), ""
	}
	return one("+OK", mStatus("OK"), func() {
		s, e, ok := normRange(start, stop, int64(len(v.L)))
		if !ok {
			v.L = nil
		} else {
			v.L = append([][]byte{}, v.L[s:e+1]...)
		}
		db.dropIfEmpty(key)
	}), ""
}

func hLPos(db *DB, a [][]byte, tm Time) ([]alt, string) {
	if len(a) < 3 {
		return errAlt("arity"), ""
	}
	rank, count, maxlen := int64(1), int64(-1), int64(0)
	if (len(a)-3)%2 != 0 {
		return errAlt("syntax"), ""
	}
	seen := map[string]bool{}
	for i := 3; i < len(a); i += 2 {
		o := upper(a[i])
		if seen[o] {
			return nil, "repeated option"
		}
		seen[o] = true
		n, canon, lenOK := parseIntStrict(a[i+1])
		switch o {
		case "RANK", "COUNT", "MAXLEN":
		default:
			return errAlt("syntax: unknown option"), ""
		}
		if !lenOK {
			return errAlt("option value not an integer"), ""
		}
		if !canon {
			return nil, "non-canonical integer"
		}
		switch o {
		case "RANK":
			if n == 0 || n == -9223372036854775808 {
				return errAlt("RANK can't be zero"), ""
			}
			rank = n
		case "COUNT":
			if n < 0 {
				return errAlt("COUNT can't be negative"), ""
			}
			count = n
		case "MAXLEN":
			if n < 0 {
				return errAlt("MAXLEN can't be negative"), ""
			}
			maxlen = n
		}
	}
	v, wrong, amb := db.getTyped(string(a[1]), "list", tm)
	if amb {
		return nil, ambiguous
	}
	if wrong {
		return wrongTypeAlt(), ""
	}
	hasCount := count >= 0
	if v == nil {
		if hasCount {
			return one("empty array", mEmptyArr(), nil), ""
		}
		return one("nil", mNilBulk(), nil), ""
	}
	n := int64(len(v.L))
	absRank := rank
	if rank < 0 {
		absRank = -rank
	}
	var found []int64
	matches := int64(0)
	for index := int64(0); index < n && (maxlen == 0 || index < maxlen); index++ {
		pos := index
		if rank < 0 {
			pos = n - 1 - index
		}
		if bytes.Equal(v.L[pos], a[2]) {
			matches++
			if matches >= absRank {
				found = append(found, pos)
				if !hasCount {
					break
				}
				if count != 0 && matches-absRank+1 >= count {
					break
				}
			}
		}
	}
	if hasCount {
		if len(found) == 0 {
			return one("empty array", mEmptyArr(), nil), ""
		}
		return one("array of positions", mIntArr(found), nil), ""
	}
	if len(found) == 0 {
		return one("nil", mNilBulk(), nil), ""
	}
	return one(":"+strconv.FormatInt(found[0], 10), mInt(found[0]), nil), ""
}

func hLMove(db *DB, a [][]byte, tm Time) ([]alt, string) {
	if len(a) != 5 {
		return errAlt("arity"), ""
	}
	from, to := upper(a[3]), upper(a[4])
	if (from != "LEFT" && from != "RIGHT") || (to != "LEFT" && to != "RIGHT") {
		return errAlt("syntax"), ""
	}
	src, dst := string(a[1]), string(a[2])
	sv, swrong, amb := db.getTyped(src, "list", tm)
	if amb {
		return nil, ambiguous
	}
	dv, dwrong, amb2 := db.getTyped(dst, "list", tm)
	if amb2 {
		return nil, ambiguous
	}
	if swrong {
		return wrongTypeAlt(), ""
	}
	if sv == nil {
		alts := one("nil (missing source, nothing created)", mNilBulk(), nil)
		if dwrong {
			alts = append(alts, wrongTypeAlt()...)
		}
		return alts, ""
	}
	if dwrong {
		return wrongTypeAlt(), ""
	}
	var e []byte
	if from == "LEFT" {
		e = sv.L[0]
	} else {
		e = sv.L[len(sv.L)-1]
	}
	return one("bulk "+showBytes(e), mBulk(e), func() {
		if from == "LEFT" {
			sv.L = sv.L[1:]
		} else {
			sv.L = sv.L[:len(sv.L)-1]
		}
		if src == dst {
			dv = sv
		}
		if dv == nil {
			dv = &Val{T: "list"}
			db.Keys[dst] = dv
		}
		if to == "LEFT" {
			dv.L = append([][]byte{cp(e)}, dv.L...)
		} else {
			dv.L = append(dv.L, cp(e))
		}
		db.dropIfEmpty(src)
	}), ""
}

// bpopGeneric models BLPOP/BRPOP as seen by a single client: with no other
// client nothing can arrive while blocked, so the reply is the first
// non-empty key's element, or nil after the timeout.
func bpopGeneric(db *DB, a [][]byte, tm Time, left bool) ([]alt, string) {
	if len(a) < 3 {
		return errAlt("arity"), ""
	}
	tarr := a[len(a)-1]
	tn, canon, lenOK := parseIntStrict(tarr)
	if !lenOK {
		if f, cls := parseFloatClass(tarr); cls == fNum && f >= 0 {
			return nil, "fractional timeout"
		}
		return errAlt("timeout is not a number"), ""
	}
	if !canon {
		return nil, "non-canonical integer"
	}
	if tn < 0 {
		return errAlt("timeout is negative"), ""
	}
	for _, kb := range a[1 : len(a)-1] {
		key := string(kb)
		v, wrong, amb := db.getTyped(key, "list", tm)
		if amb {
			return nil, ambiguous
		}
		if wrong {
			return wrongTypeAlt(), ""
		}
		if v == nil {
			continue
		}
		var e []byte
		if left {
			e = v.L[0]
		} else {
			e = v.L[len(v.L)-1]
		}
		return one("array [key, element]", mBulkArr([][]byte{kb, e}), func() {
			if left {
				v.L = v.L[1:]
			} else {
				v.L = v.L[:len(v.L)-1]
			}
			db.dropIfEmpty(key)
		}), ""
	}
	return one("nil at timeout", mNil(), nil), ""
}
