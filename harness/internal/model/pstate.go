package model

import (
	"fmt"
	"sort"
	"strings"

	"rgverif/internal/respc"
)

// Clone returns a deep copy of the keyspace.
func (db *DB) Clone() *DB {
	n := NewDB()
	for k, v := range db.Keys {
		c := &Val{T: v.T, Dmin: v.Dmin, Dmax: v.Dmax, HasDead: v.HasDead, XLast: v.XLast, XHas: v.XHas}
		switch v.T {
		case "string":
			c.S = cp(v.S)
		case "list":
			for _, e := range v.L {
				c.L = append(c.L, e) // elements are never mutated in place
			}
		case "set":
			c.Set = make(map[string]bool, len(v.Set))
			for m := range v.Set {
				c.Set[m] = true
			}
		case "hash":
			c.H = make(map[string][]byte, len(v.H))
			for f, x := range v.H {
				c.H[f] = x
			}
		case "zset":
			c.Z = make(map[string]float64, len(v.Z))
			for m, s := range v.Z {
				c.Z[m] = s
			}
		case "stream":
			c.X = append([]XEntry{}, v.X...)
		}
		n.Keys[k] = c
	}
	return n
}

// Canon renders the keyspace canonically (state identity for the linearizability checker).
func (db *DB) Canon() string {
	keys := make([]string, 0, len(db.Keys))
	for k := range db.Keys {
		keys = append(keys, k)
	}
	sort.Strings(keys)
	var sb strings.Builder
	for _, k := range keys {
		v := db.Keys[k]
		fmt.Fprintf(&sb, "%q=%s:", k, v.T)
		if v.HasDead { // a deadline is part of the state (PERSIST, EXPIRE NX/XX/GT/LT, KEEPTTL observe it)
			fmt.Fprintf(&sb, "@%d-%d:", v.Dmin, v.Dmax)
		}
		if v.XHas {
			fmt.Fprintf(&sb, "last%s:", v.XLast)
		}
		switch v.T {
		case "string":
			fmt.Fprintf(&sb, "%q", v.S)
		case "list":
			fmt.Fprintf(&sb, "%q", v.L)
		case "set":
			fmt.Fprintf(&sb, "%q", sortedKeys(v.Set))
		case "hash":
			fs := make([]string, 0, len(v.H))
			for f := range v.H {
				fs = append(fs, f)
			}
			sort.Strings(fs)
			for _, f := range fs {
				fmt.Fprintf(&sb, "%q:%q,", f, v.H[f])
			}
		case "zset":
			fmt.Fprintf(&sb, "%v", v.zsorted())
		case "stream":
			for _, e := range v.X {
				fmt.Fprintf(&sb, "%s%q,", e.ID, e.Fields)
			}
		}
		sb.WriteString(";")
	}
	return sb.String()
}

// PState is an immutable keyspace state for porcupine models.
type PState struct {
	DB   *DB
	Repr string
}

// NewPState is the empty keyspace.
func NewPState() PState { return PState{DB: NewDB(), Repr: ""} }

var farTime = Time{T0: 1, T1: 1, Ms0: 1000, Ms1: 1000}

// Apply judges got as the outcome of cmd in state s and returns the next state.
// unspec is set when the model has no opinion (the caller should not generate such commands).
func (s PState) Apply(cmd [][]byte, got respc.Value) (ok bool, next PState, unspec bool) {
	ndb := s.DB.Clone()
	out := ndb.Step(cmd, got, farTime)
	if out.Unspecified {
		return true, s, true
	}
	if !out.OK {
		return false, s, false
	}
	return true, PState{DB: ndb, Repr: ndb.Canon()}, false
}

// ApplyUnknown is the state after cmd took effect with a reply that was not observed (deterministic commands only).
func (s PState) ApplyUnknown(cmd [][]byte) PState {
	ndb := s.DB.Clone()
	_ = ndb.Step(cmd, respc.Value{}, farTime) // nothing matches the zero value: the reference alternative is applied
	return PState{DB: ndb, Repr: ndb.Canon()}
}
