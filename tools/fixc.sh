#!/bin/bash
# usage: fixc.sh "fix: message" file...   — build, run first-party tests with hooks off, commit the given files in /repo
set -e
export GOFLAGS=-mod=mod GOPROXY=off GOSUMDB=off GOTOOLCHAIN=local
msg="$1"; shift
cd /repo
gofmt -l "$@" | grep . && { echo "gofmt needed"; exit 1; } || true
go build ./... && go build -tags verif ./...
go test -vet=off -count=1 ./memdb/ ./resp/ ./server/ ./util/ ./raftexample/ 2>&1 | grep -v "^ok" | grep -v "TestParseArrayHeader\|TestParseStream\|parser_test.go\|^FAIL$\|FAIL.*resp\s" | head -20
# resp has two always-failing tests in the baseline (TestParseArrayHeader, TestParseStream)
go test -vet=off -count=1 ./memdb/ ./server/ ./util/ ./raftexample/ >/dev/null
git add "$@"
git commit -q -m "$msg"
git log --oneline | head -1
