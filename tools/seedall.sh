#!/bin/bash
# Re-runs, for every kept seeded change under /verif/seeded/<id>/, the checks listed in its meta.json against a scratch copy of
# /repo with the patch applied, and rewrites /verif/seeded/RESULTS.md. usage: seedall.sh [id-substring]
cd /verif/seeded || exit 1
filter=${1:-}
out=/verif/seeded/RESULTS.md
tmp=$(mktemp)
echo "| seeded change | property | check | exit | caught |" > $tmp; echo "|---|---|---|---|---|" >> $tmp
for d in */; do
  id=${d%/}; [ -f $id/patch.diff ] || continue
  case "$id" in *"$filter"*) ;; *) continue;; esac
  props=$(python3 -c "import json;m=json.load(open('$id/meta.json'));print(' '.join(sorted({c.split(':')[0] for c in m.get('checks_run_against_it',[])})))")
  prop=$(python3 -c "import json;print(json.load(open('$id/meta.json')).get('property'))")
  res=""
  for p in $props; do
    line=$(/verif/tools/mut.sh seed-$id /verif/seeded/$id/patch.diff -- $p 2>&1 | grep "^mutant=")
    rc=$(echo "$line" | sed -n 's/.*exit=\([0-9]*\).*/\1/p')
    caught=no; [ "$rc" = 1 ] && caught=yes
    echo "| $id | $prop | $p | $rc | $caught |" >> $tmp
    res="$res $p:exit=$rc"
    echo "$id $p exit=$rc"
  done
  python3 - "$id/meta.json" "$res" <<'PY'
import json,sys
m=json.load(open(sys.argv[1])); m["checks_run_against_it"]=sys.argv[2].split(); json.dump(m,open(sys.argv[1],'w'),indent=1)
PY
done
if [ -z "$filter" ]; then mv $tmp $out; else cat $tmp; rm -f $tmp; fi
