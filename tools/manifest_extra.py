chk("C04", "Bounded-exhaustive in-process sweep of every registered command x arity x adversarial argument alphabet x one key of each type (fresh preset keyspace per input, under recover, "
    "then a try-lock sweep of every lock stripe and follow-up probes; a per-input watchdog captures the stack of a command that never returns; batches run in journalled child processes so that panics in "
    "server-started goroutines are pinned to their input), plus sampled inputs against the real server binary over TCP with same-connection, same-key, per-stripe and fresh-connection probes.",
    "Exhaustive only inside the arity/alphabet box stated in the evidence; blocking pops are issued with timeout 1 and sampled; outputs the reference makes larger than 1e5 elements are not generated; the expired-key state is left to C06.",
    "runtime sweep with crash/wedge/hang monitors (recover, stripe try-lock, watchdog with goroutine stack, process liveness)")
chk("C15", "Seeded adversarial schedules over real raft.RawNode instances (tick, deliver/drop/duplicate/delay, partitions, crash inside Ready before/after persisting, restart from storage, compaction+snapshot, "
    "conf changes v1/v2, eight scripted danger scenarios such as Figure 8); ElectionSafety, LogMatching, commit ledger/StateMachineSafety, LeaderCompleteness, NoCommittedRewrite, HardStateMonotone and ApplyOrder "
    "are evaluated after every event. Quick 400 schedules x 3000 events, thorough 500k x 8000. Not exhaustive: held on the schedules explored.",
    "Network never forges or corrupts messages; the simulated disk honours persist-before-send; the library's election jitter cannot be seeded (replay of tick-driven schedules is best effort, never a source of alarms).",
    "runtime invariant monitors over a seeded fault-injecting RawNode simulator", cat="fault_enumeration")
chk("C02", "The real resp.ParseStream is fed seeded request streams through a reader that returns exactly the planned chunk per Read (all partitions for tiny streams; every single cut, cut pairs around structural bytes, "
    "1 byte per read, 4095/4096/4097 alignment and random partitions otherwise) and what it delivers is compared with an independent strict recogniser: exact argv for well-formed pipelines, and for damaged streams "
    "exactly the well-formed prefix, then an error/end, never a command from bytes at or after the violation (canary commands). All streams of length <= 6 over {* $ CR LF 0 1 - a} are run for crash-freedom. "
    "The same stream kinds go to the real binary over TCP with paused chunked writes: echo/round-trip replies, error-or-close after a violation, canary keys, a bystander connection.",
    "Top-level values that are well-formed RESP but not arrays of bulk strings, inline text and non-canonical length spellings are open corners (crash-freedom/termination only). Parser panics kill the batch process: the journal pins the stream and the batch resumes after it.",
    "runtime differential monitoring of the parser against an independent recogniser under enumerated fragmentations; process-level liveness over TCP")
chk("C03", "In-process: programs mixing every command family with frame-breaking payloads and key names (CRLF, '+OK', '$-1', ':1', empty, NUL) run through the real executors; the bytes each executor hands to the connection must be exactly one "
    "well-formed RESP value that decodes to the structural reply, and payload-carrying elements must be bulk strings (strict comparison with the reference model). TCP: pipelines 'cmd_1, PING m_1, cmd_2, PING m_2, ...' written in one or several chunks to the real binary; "
    "the reply stream must decode as v_1, bulk(m_1), v_2, ...: a missing, doubled or unframed reply shifts the markers at a known index.",
    "Pub/Sub pushes are excluded (SUBSCRIBE only on dedicated connections, C19); blocking pops are exercised in-process only; error texts are free.",
    "runtime monitoring of reply framing with an independent strict RESP decoder and sync markers")
chk("C06", "Rounds phase-locked to the wall clock on the real clock, in-process and over TCP against the real binary: one small program per key (value type x way of attaching the deadline x ttl x follow-up that keeps/replaces/removes it) with deadlines attached at "
    "fraction ~0.75 of a second, exactly one post-deadline probe per key by one command at fraction 0.10/0.45 of the deadline second or the next, pre-deadline probes at 0.9 of the last live second, and a control group whose deadline was removed. "
    "The oracle is the reference model evaluated on the recorded [before, after] unix-second bracket of every call; the stored deadline (dump hook) must lie in the model's interval.",
    "One-second granularity: probes whose bracket contains the deadline are counted as ambiguous and never decide anything; the floor demands >= 50% decisive probes and >= 200 decisive post-deadline probes.",
    "runtime monitoring on a real clock with an interval-valued reference oracle over recorded call brackets")
chk("C20", "Against the real server binary over TCP: SELECT argument sweep (18 spellings, databases in {1,2,16}), each followed by a probe write that is located from a fresh connection; concurrent histories of 2-8 connections hopping between databases and "
    "writing values tagged (connection, database, sequence) to the same key name in every database, so that a read from, or a write into, a database the connection did not select is identified exactly. Thorough adds the -race build of the server.",
    "'+1', '01' and space-padded indexes are an open corner.", "runtime monitoring of tagged-value histories over concurrent TCP connections")
