chk("C04", "Bounded-exhaustive in-process sweep of every registered command x arity x adversarial argument alphabet x one key of each type (fresh preset keyspace per input, under recover, "
    "then a try-lock sweep of every lock stripe and follow-up probes; a per-input watchdog captures the stack of a command that never returns; batches run in journalled child processes so that panics in "
    "server-started goroutines are pinned to their input), plus sampled inputs against the real server binary over TCP with same-connection, same-key, per-stripe and fresh-connection probes.",
    "Exhaustive only inside the arity/alphabet box stated in the evidence; blocking pops are issued with timeout 1 and sampled; outputs the reference makes larger than 1e5 elements are not generated; the expired-key state is left to C06.",
    "runtime sweep with crash/wedge/hang monitors (recover, stripe try-lock, watchdog with goroutine stack, process liveness)")
chk("C15", "Seeded adversarial schedules over real raft.RawNode instances (tick, deliver/drop/duplicate/delay, partitions, crash inside Ready before/after persisting, restart from storage, compaction+snapshot, "
    "conf changes v1/v2, eight scripted danger scenarios such as Figure 8); ElectionSafety, LogMatching, commit ledger/StateMachineSafety, LeaderCompleteness, NoCommittedRewrite, HardStateMonotone and ApplyOrder "
    "are evaluated after every event. Quick 400 schedules x 3000 events, thorough 500k x 8000. Not exhaustive: held on the schedules explored.",
    "Network never forges or corrupts messages; the simulated disk honours persist-before-send; the library's election jitter cannot be seeded (replay of tick-driven schedules is best effort, never a source of alarms).",
    "runtime invariant monitors over a seeded fault-injecting RawNode simulator", cat="fault_enumeration")
