#!/usr/bin/env python3
"""Regenerates /verif/MANIFEST.json from the table below (kept in one place so it stays valid)."""
import json
base = json.load(open('/root/.vp/BASELINE.json'))
props = [json.loads(l)['id'] for l in open('/verif/properties.jsonl')]
SEQ_TEXT = ("Seeded single-client programs of the {fam} commands run step by step through the real executors (server.Manager.ExecCommand, in child "
            "processes that journal every command) and through an executable reference model written from the Redis command reference; the reply, the whole "
            "keyspace dump and the structural self-check (verif hooks) are compared after every step; about one step in 24 is not a command but puts a key past its deadline without reaping it (verif hook), after which every command must treat it as missing; divergences are minimised and keyed by signature. "
            "Held on the programs explored (quick: thousands, thorough: >=100k), not a proof.")
SEQ_NOTE = ("Trusts the reference model (open corners of the reference are accepted either way or re-synchronised and counted), the verif-tagged "
            "dump/self-check hooks, and far-future deadlines so that no verdict depends on the clock.")
SEQ_TECH = "runtime differential monitoring against an executable reference model + structural invariant hooks, per-batch child processes with journals"
C = {}
def chk(pid, text, note, tech, cat="exploration", thorough=True):
    C[pid] = {"property_id": pid, "quick_cmd": f"./check {pid} quick", "evidence_file": f"/verif/evidence/{pid}.json",
              "replay_cmd_template": f"./check {pid} quick --replay {{path}}", "engine": "rgverif",
              "level_claimed": {"category": cat, "text": text, "design_ref": f"DESIGN.md section 3 {pid}"},
              "level_note": note, "technique": tech}
    if thorough:
        C[pid]["thorough_cmd"] = f"./check {pid} thorough"
for pid, fam in [("C01","string and generic key"),("C09","list"),("C10","hash"),("C11","set"),("C12","sorted-set (plus AVL shape, height, balance, index<->members checks after every step)"),("C18","stream")]:
    extra = ""
    if pid == "C09":
        extra = (" C09 also drives blocking pops against the real binary (each pushed element to exactly one popper, nil only at the timeout) and a queue that keeps running empty with producers, "
                 "plain and blocking poppers, over TCP and in-process with the stripe-lock hook pausing before exclusive acquisitions: every acknowledged element is popped exactly once or left in the list.")
    chk(pid, SEQ_TEXT.format(fam=fam) + extra, SEQ_NOTE, SEQ_TECH)
chk("C17", "Bounded-exhaustive enumeration of every (pattern, key) pair in a length/alphabet box through the real util.PattenMatch under recover, compared with a "
    "three-valued reference matcher (a range written with the larger bound first is bracketed between its narrowest and widest reading), plus a family of class ranges both ways round over a wider alphabet; seeded random long pairs for termination; KEYS on a populated in-process server that also holds keys past their deadline which nothing has reaped yet (watchdog).",
    "Exhaustive only inside the stated box; pairs hinging on constructs the documented grammar leaves undefined only have to terminate without panic.",
    "bounded-exhaustive runtime enumeration with a reference-matcher oracle")
EXTRA = {}
try:
    exec(open('/verif/tools/manifest_extra.py').read())
except FileNotFoundError:
    pass
NA = {}
try:
    NA = json.load(open('/verif/tools/not_applicable.json'))
except FileNotFoundError:
    pass
m = {"version": 1,
     "setup_cmd": "cd /verif/harness && GOFLAGS=-mod=mod GOPROXY=off GOSUMDB=off GOTOOLCHAIN=local go build -tags verif ./... && mkdir -p /verif/.work/bin /verif/evidence /verif/replays",
     "hooks": {"guard": "verif", "enable": "go build -tags verif (./check builds every worker/server binary from /repo's working tree with this tag)",
               "baseline_off_cmd": base["cmd"], "source_commits": ["b557b65", "50c1a6d", "3a885aa", "3f34f81", "c2580ad", "869f121", "d302176"], "add_only": True},
     "engines": [{"name": "rgverif", "path": "/verif/harness", "serves_properties": sorted(C),
                  "kind_free_text": "Go harness: independent RESP codec, executable reference model, seeded generators, in-process differential runner, supervisors with per-batch child processes and journals, known-findings matcher, evidence writer"}],
     "checks": [C[k] for k in sorted(C)],
     "notes": "Runtime monitoring and sanitizers only (see DESIGN.md). Known findings: /verif/known_findings.json (never written at run time).",
     "not_applicable": [{"property_id": p, "reason": NA.get(p, "check under construction in this round (not yet registered)")} for p in props if p not in C]}
json.dump(m, open('/verif/MANIFEST.json', 'w'), indent=1)
print(len(C), "checks,", len(m["not_applicable"]), "not applicable")
