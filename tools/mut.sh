#!/bin/bash
# usage: mut.sh <name> <patch-file|-e 'sed-expr' file> -- <prop> [<prop>...]
# Applies a mutant to a scratch copy of /repo (outside /repo and /verif), confirms it builds,
# runs the given quick checks against it (RG_REPO) with evidence/replays redirected, prints exit codes, removes the copy.
set -u
export GOFLAGS=-mod=mod GOPROXY=off GOSUMDB=off GOTOOLCHAIN=local
name=$1; shift
dir=/dev/shm/mut-$name-$$
mkdir -p $dir && cp -r /repo $dir/repo && rm -rf $dir/repo/.git
if [ "$1" = "-e" ]; then
  sed -i "$2" "$dir/repo/$3" || exit 3; shift 3
else
  (cd $dir/repo && patch -p1 -s < "$1") || { echo "patch failed"; rm -rf $dir; exit 3; }; shift
fi
[ "$1" = "--" ] && shift
(cd $dir/repo && go build ./... && go build -tags verif ./...) || { echo "MUTANT DOES NOT BUILD"; rm -rf $dir; exit 3; }
if [ "${MUT_TESTS:-0}" = 1 ]; then (cd $dir/repo && go test -vet=off -count=1 ./memdb/ ./server/ ./util/ ./raftexample/ 2>&1 | tail -4); fi
tier=${MUT_TIER:-quick}
for p in "$@"; do
  RG_REPO=$dir/repo /verif/check $p $tier -evidence $dir/ev-$p.json -replays $dir/replays > $dir/out-$p.log 2>&1
  rc=$?
  echo "mutant=$name prop=$p exit=$rc $(grep -ac '^VIOLATION' $dir/out-$p.log) violation lines; $(grep -a "^$p $tier\|INCONCL\|BUILD-ERROR" $dir/out-$p.log | tail -1 | cut -c1-200)"
  if [ "${MUT_SHOW:-0}" = 1 ]; then grep -a -A6 "^---" $dir/out-$p.log | head -${MUT_LINES:-30} | cut -c1-300; fi
done
rm -rf $dir
