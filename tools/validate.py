#!/opt/veriftools/pyvenv/bin/python
# validates MANIFEST.json and every evidence file against the schemas
import json, sys, glob, jsonschema
ok = True
try:
    jsonschema.validate(json.load(open('/verif/MANIFEST.json')), json.load(open('/root/.vp/MANIFEST.schema.json')))
except Exception as e:
    ok = False; print('MANIFEST invalid:', str(e)[:300])
es = json.load(open('/root/.vp/EVIDENCE.schema.json'))
for f in sorted(glob.glob('/verif/evidence/*.json')):
    try:
        jsonschema.validate(json.load(open(f)), es)
    except Exception as e:
        ok = False; print(f, 'invalid:', str(e)[:300])
print('valid' if ok else 'INVALID')
sys.exit(0 if ok else 1)
