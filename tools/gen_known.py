#!/usr/bin/env python3
"""Regenerates /verif/known_findings.json: 'fixed' entries from the fix: commits in /repo
(one per commit, with the property it was found under) plus the hand-written 'known'
entries in /verif/tools/known_manual.json. Run by hand after committing a fix; never at check time."""
import json, subprocess, re
log = subprocess.check_output(['git','-C','/repo','log','--reverse','--format=%h\t%s'], text=True).splitlines()
rules = [  # first match wins: regex on the subject -> property
 (r'glob', 'C17'),
 (r'CheckTTL decided', 'C06'),
 (r'RENAME dropped the deadline|EXPIRE|lazy|deadline has passed|expired', 'C06'),
 (r'XADD|XRANGE', 'C18'),
 (r'LREM|LINDEX|BLPOP|LPOS|LMOVE|LPOP|LTRIM|LRANGE', 'C09'),
 (r'HSET|HGET|HMGET|HINCRBY|HRANDFIELD', 'C10'),
 (r'SUNION|SPOP|SRANDMEMBER|SMEMBERS|SMOVE|SADD', 'C11'),
 (r'sorted-set|ZADD|ZRANGE|ZREM|AVL', 'C12'),
 (r'parser|RESP|bulk length|protocol', 'C02'),
 (r'PUBLISH|SUBSCRIBE|subscriber', 'C19'),
 (r'SELECT|database', 'C20'),
 (r'cluster|proposal|callback|raft', 'C07'),
 (r'panick|panic', 'C04'),
 (r'.', 'C01'),
]
override = {}
try:
    override = json.load(open('/verif/tools/known_override.json'))
except FileNotFoundError:
    pass
fixed = []
n = 0
for line in log:
    h, subj = line.split('\t', 1)
    if not subj.startswith('fix:'):
        continue
    n += 1
    prop = override.get(h)
    if not prop:
        for rx, p in rules:
            if re.search(rx, subj):
                prop = p
                break
    fixed.append({"id": "FX-%03d" % n, "property": prop, "status": "fixed", "matcher": "none", "commit": h,
                  "what": "fixed: property=%s %s %s" % (prop, h, subj[len('fix:'):].strip())})
manual = json.load(open('/verif/tools/known_manual.json'))["findings"]
json.dump({"findings": manual + fixed}, open('/verif/known_findings.json', 'w'), indent=1)
print(len(manual), "known/manual,", len(fixed), "fixed")
