#!/bin/bash
# Parallel variant of seedall.sh: usage: [SKIP_FILE=<ids already done>] seedall_par.sh <jobs> [id-substring]. Writes seeded/RESULTS.md when no filter is given.
# (Three jobs next to anything else that is heavy overloads the 16 cores; the cluster checks then take many times longer.)
cd /verif/seeded || exit 1
jobs=${1:-3}; filter=${2:-}
work=/verif/.work/seedall; [ -z "${SKIP_FILE:-}" ] && rm -rf $work; mkdir -p $work
one() {
  id=$1
  props=$(python3 -c "import json;m=json.load(open('$id/meta.json'));print(' '.join(sorted({c.split(':')[0] for c in m.get('checks_run_against_it',[])})))")
  prop=$(python3 -c "import json;print(json.load(open('$id/meta.json')).get('property'))")
  res=""
  for p in $props; do
    line=$(/verif/tools/mut.sh seed-$id /verif/seeded/$id/patch.diff -- $p 2>&1 | grep "^mutant=")
    rc=$(echo "$line" | sed -n 's/.*exit=\([0-9]*\).*/\1/p')
    caught=no; [ "$rc" = 1 ] && caught=yes
    echo "| $id | $prop | $p | $rc | $caught |" >> /verif/.work/seedall/$id.row
    res="$res $p:exit=$rc"
  done
  python3 - "$id/meta.json" "$res" <<'PY'
import json,sys
m=json.load(open(sys.argv[1])); m["checks_run_against_it"]=sys.argv[2].split(); json.dump(m,open(sys.argv[1],'w'),indent=1)
PY
  echo "$id$res"
}
export -f one
ls -d */ | sed 's#/##' | while read id; do [ -f $id/patch.diff ] || continue; [ -n "${SKIP_FILE:-}" ] && grep -qx "$id" "$SKIP_FILE" && continue; case "$id" in *"$filter"*) echo $id;; esac; done | xargs -P $jobs -I{} bash -c 'one {}'
if [ -z "$filter" ]; then
  { echo "| seeded change | property | check | exit | caught |"; echo "|---|---|---|---|---|"; cat $work/*.row | sort; } > /verif/seeded/RESULTS.md
fi
