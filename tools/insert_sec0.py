#!/usr/bin/env python3
"""(Re)inserts tools/design_sec0.md as section 0 of DESIGN.md."""
import re
p='/verif/DESIGN.md'
s=open(p).read()
sec0=open('/verif/tools/design_sec0.md').read().rstrip()+"\n"
bar="---------------------------------------------------------------------------------------\n"
if "\n## 0. As built\n" in s:
    i=s.index("## 0. As built\n")
    j=s.index(bar+"\n## 1. The codebase as read")
    s=s[:i]+sec0+"\n"+s[j:]
else:
    old_intro = "(see §1.3). No framework code exists yet.\n"
    assert old_intro in s
    s=s.replace(old_intro, "(see §1.3). §1–§6 and the appendices are the design as written *before* the code; **§0\nrecords what was actually built, where it deviates from the plan, what the monitors\nfound, what was repaired and what is carried as a known finding.** Where §0 and a later\nsection disagree, §0 is right.\n")
    s=s.replace("Contents\n\n- §1 What the code is","Contents\n\n- §0 As built: status, deviations, repairs, known findings, false alarms, seeded changes\n- §1 What the code is")
    marker=bar+"\n## 1. The codebase as read"
    assert s.count(marker)==1
    s=s.replace(marker, bar+"\n"+sec0+"\n"+marker)
open(p,'w').write(s)
print("DESIGN.md updated,", len(s), "bytes")
