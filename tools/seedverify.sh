#!/bin/bash
# usage: seedverify.sh <src-dir with patch.diff demo_test.go meta.json> <seed-id> <props-to-check...>
# 1. confirms in a fresh scratch worktree of /repo (outside /repo and /verif) that the patch applies, builds, keeps the
#    first-party tests at baseline, and that the demonstration fails with the patch and passes without it;
# 2. stores it as /verif/seeded/<seed-id>/ ; 3. runs the given checks against the patched copy and records the outcome.
set -u
export GOFLAGS=-mod=mod GOPROXY=off GOSUMDB=off GOTOOLCHAIN=local
src=$1; id=$2; shift 2
wt=/tmp/sv-$id-$$
git -C /repo worktree add --detach $wt HEAD >/dev/null 2>&1 || { echo "worktree failed"; exit 3; }
cleanup() { git -C /repo worktree remove --force $wt >/dev/null 2>&1; rm -rf $wt; }
trap cleanup EXIT
read pkg run count <<<"$(python3 - "$src/meta.json" <<'PY'
import json,sys,re
m=json.load(open(sys.argv[1]))
c=m.get('demo_cmd','')
mm=re.search(r'(?:/tmp/sw-C\d+/)?([A-Za-z0-9_/.-]+)/zz_demo_test\.go',c)
pkg=mm.group(1) if mm else 'memdb'
pkg=re.sub(r'^/tmp/sw-C\d+/','',pkg)
r=re.search(r"-run '?([A-Za-z0-9_|]+)'?",c)
n=re.search(r"-count=(\d+)",c)
print(pkg, r.group(1) if r else 'Demo', n.group(1) if n else '1')
PY
)"
# the go module the package lives in (the etcd tree is a set of nested modules)
moddir=$pkg; while [ "$moddir" != "." ] && [ ! -f /repo/$moddir/go.mod ]; do moddir=$(dirname $moddir); done
rel=${pkg#$moddir/}; [ "$moddir" = "." ] && rel=$pkg; [ "$moddir" = "$pkg" ] && rel=.
demo() { cp $src/demo_test.go $wt/$pkg/zz_demo_test.go; (cd $wt/$moddir && go test -vet=off -count=$count -timeout 900s -run "$run" ./$rel/ >/tmp/sv-demo-$$.log 2>&1); rc=$?; rm -f $wt/$pkg/zz_demo_test.go; return $rc; }
demo; without=$?
(cd $wt && git apply $src/patch.diff) || { echo "SEED $id: patch does not apply to current HEAD"; exit 3; }
(cd $wt && go build ./... ) || { echo "SEED $id: does not build"; exit 3; }
tests=$(cd $wt && go test -vet=off -count=1 ./memdb/ ./server/ ./util/ ./raftexample/ ./resp/ 2>&1 | grep -c "^--- FAIL")
if [ "$moddir" != "." ]; then
  # a change inside the etcd tree: that module's tests around the changed package must still pass as well
  case $pkg in etcd/server/*) scope="./storage/wal/... ./etcdserver/api/snap/...";; *) scope="./...";; esac
  etcdfail=$(cd $wt/$moddir && go test -vet=off -count=1 -timeout 1500s $scope 2>&1 | grep -c "^--- FAIL")
  tests=$((tests+etcdfail))
fi
demo; with=$?
echo "SEED $id: demo without patch rc=$without (want 0), with patch rc=$with (want !=0), failing tests with patch=$tests (baseline 2)"
ok=0; [ $without -eq 0 ] && [ $with -ne 0 ] && [ "$tests" = 2 ] && ok=1
mkdir -p /verif/seeded/$id && cp $src/patch.diff $src/demo_test.go /verif/seeded/$id/ 
results=""
for p in "$@"; do
  out=$(/verif/tools/mut.sh seed-$id $src/patch.diff -- $p 2>&1 | grep "^mutant=" )
  echo "  $out"
  rc=$(echo "$out" | sed -n 's/.*exit=\([0-9]*\).*/\1/p')
  results="$results $p:exit=$rc"
done
python3 - "$src/meta.json" "/verif/seeded/$id/meta.json" "$id" "$ok" "$without" "$with" "$tests" "$results" "$run" "$pkg" <<'PY'
import json,sys
m=json.load(open(sys.argv[1]))
out={"seed_id":sys.argv[3],"property":m.get("property"),"title":m.get("title"),"files":m.get("files"),"what_breaks":m.get("what_breaks"),"needs_to_manifest":m.get("needs_to_manifest"),
 "demonstration":{"file":"demo_test.go","how":"copy to %s/zz_demo_test.go in a worktree and run, in the go module that contains it: go test -vet=off -run '%s' <that package>"%(sys.argv[10],sys.argv[9])},
 "confirmed_by_me":{"ok":sys.argv[4]=="1","demo_rc_without_patch":int(sys.argv[5]),"demo_rc_with_patch":int(sys.argv[6]),"failing_first_party_tests_with_patch":int(sys.argv[7]),"baseline_failing_tests":2,
   "what_i_ran":"tools/seedverify.sh: fresh git worktree of /repo HEAD under /tmp, git apply, go build ./..., go test ./memdb ./server ./util ./raftexample ./resp (plus the surrounding etcd module tests for a change in the etcd tree), demonstration with and without the patch"},
 "checks_run_against_it":sys.argv[8].split(),"origin":"independent sub-agent given only the property text"}
json.dump(out,open(sys.argv[2],'w'),indent=1)
PY
